//@ expect: ok
//@ mentions: -
#![allow(unused)]
use unimock::*;
#[derive(Debug, PartialEq)]
pub struct NoClone(pub u8);
#[derive(Debug, PartialEq, Clone)]
pub struct Cl(pub u8);
#[unimock(api=TMock)]
pub trait T {
    fn nc(&self) -> NoClone;
    fn cl(&self) -> Cl;
    fn onc(&self) -> Option<NoClone>;
    fn ocl(&self) -> Option<Cl>;
    fn rnc(&self) -> Result<u8, NoClone>;
    fn rcl(&self) -> Result<u8, Cl>;
    fn tnc(&self) -> (u8, NoClone);
    fn tcl(&self) -> (u8, Cl);
    fn vnc(&self) -> Vec<NoClone>;
    fn vcl(&self) -> Vec<Cl>;
    fn unit(&self, x: i32);
}

pub fn w() -> impl Clause { TMock::tcl.some_call(matching!()).returns((1u8, Cl(1))).n_times(2) }
