#!/bin/bash
# usage: try_neutral.sh <patch.diff>...  — applies each behaviour-preserving patch to a scratch copy of /repo's current tree, runs
# ALL twenty quick checks against it and prints one line per patch with the checks that raised an alarm (there should be none).
cd /verif
ALL=$(for i in $(seq -w 1 20); do echo C$i; done)
for P in "$@"; do
  PA="$(readlink -f "$P")"
  D=$(mktemp -d /tmp/neuttry-XXXXXX)
  rsync -a --exclude target --exclude .git /repo/ "$D/repo/"
  if ! (cd "$D/repo" && git init -q . && git apply "$PA"); then echo "$P: PATCH DOES NOT APPLY"; rm -rf "$D"; continue; fi
  bad=""
  for id in $ALL; do
    out=$(VERIF_REPO="$D/repo" ./check "$id" --tier quick 2>&1)
    if [ $? -ne 0 ]; then
      rules=$(echo "$out" | grep -oE "\[(VIOLATED|UNRECOGNISED)\] [A-Za-z0-9_.]+" | sort -u | tr '\n' ' ')
      bad="$bad $id{$rules}"
      mkdir -p /tmp/neutral-reports; echo "$out" > "/tmp/neutral-reports/$(echo "$P" | tr '/' '_').$id.txt"
    fi
  done
  echo "$P: ${bad:-silent}"
  rm -rf "$D"
done
git -C /verif checkout -q -- evidence 2>/dev/null || true
