"""Generate + compile the XPAND harness against /repo's current tree and load its facts."""
import hashlib
import json
import os
import subprocess
import sys
import time

import facts as factsmod

VERIF = factsmod.VERIF
_cache = {}


def harness(tier, seed):
    key = (tier, seed)
    if key in _cache:
        return _cache[key]
    th = factsmod.tree_hash()
    gh = hashlib.sha256()
    for f in ('gen.py', 'patterns.py'):
        gh.update(open(os.path.join(VERIF, 'engines', 'xpand', f), 'rb').read())
    tag = '%s-%s-%s-%d' % (th, gh.hexdigest()[:10], tier, seed)
    d = os.path.join(VERIF, '.cache', 'xpand', tag)
    out = os.path.join(d, 'out')
    fjson = os.path.join(out, 'xpand_harness.lib.json')
    if os.environ.get('VERIF_NOCACHE') == '1' or not (os.path.exists(fjson) and os.path.exists(os.path.join(out, 'nonce'))):
        import shutil
        shutil.rmtree(d, ignore_errors=True)
        os.makedirs(d)
        repo = os.environ.get('VERIF_REPO', '/repo')
        r = subprocess.run([sys.executable, os.path.join(VERIF, 'engines', 'xpand', 'gen.py'), d, repo, tier, str(seed)], capture_output=True, text=True)
        if r.returncode != 0:
            raise factsmod.FactsError('harness generation failed: %s' % r.stderr[-2000:])
        nonce = '%d-%d' % (time.time_ns(), os.getpid())
        r = subprocess.run([os.path.join(VERIF, 'lib', 'extract_harness.sh'), d, out], env=dict(os.environ, VERIF_NONCE=nonce), capture_output=True, text=True)
        if r.returncode != 0:
            raise HarnessRejected(r.stderr[-6000:])
        _gc()
    F = factsmod.Facts(fjson)
    sc = json.load(open(os.path.join(d, 'sidecar.json')))
    _cache[key] = (F, sc, d)
    return _cache[key]


class HarnessRejected(Exception):
    """the compiler rejected a grammar point of the harness on this tree"""


def _gc():
    base = os.path.join(VERIF, '.cache', 'xpand')
    ents = sorted((e for e in os.listdir(base)), key=lambda e: os.path.getmtime(os.path.join(base, e)))
    import shutil
    while len(ents) > 6:
        shutil.rmtree(os.path.join(base, ents.pop(0)), ignore_errors=True)
