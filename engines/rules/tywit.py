"""TYWIT: compile-fail witnesses with compiling twins, compiled (never run) against /repo's current tree."""
import concurrent.futures
import json
import os
import re
import subprocess

VERIF = os.path.abspath(os.path.join(os.path.dirname(__file__), '..', '..'))
WDIR = os.path.join(VERIF, 'engines', 'tywit', 'witnesses')


class TywitError(Exception):
    pass


def build_repo(features=()):
    repo = os.environ.get('VERIF_REPO', '/repo')
    td = os.path.join(VERIF, '.cache', 'target', 'tywit')
    cmd = ['cargo', 'build', '--offline', '--message-format=json', '-p', 'unimock', '--lib']
    if features:
        cmd += ['--features', ','.join(features)]
    env = dict(os.environ, CARGO_TARGET_DIR=td, CARGO_NET_OFFLINE='true')
    env.pop('RUSTC_WORKSPACE_WRAPPER', None)
    r = subprocess.run(cmd, cwd=repo, env=env, capture_output=True, text=True)
    if r.returncode != 0:
        raise TywitError('building /repo failed:\n' + r.stderr[-3000:])
    rlib = None
    for line in r.stdout.splitlines():
        try:
            m = json.loads(line)
        except ValueError:
            continue
        if m.get('reason') == 'compiler-artifact' and m.get('target', {}).get('name') == 'unimock' and 'lib' in m['target'].get('kind', []):
            # use the hashed artifact in deps/ (its name depends on the package's path): the un-hashed copy that cargo "uplifts" to
            # target/debug/libunimock.rlib is shared by every tree built into this target directory and may belong to another tree
            for f in m.get('filenames', []):
                if f.endswith('.rmeta') and os.sep + 'deps' + os.sep in f and os.path.exists(f[:-6] + '.rlib'):
                    rlib = f[:-6] + '.rlib'
            if rlib is None:
                for f in m.get('filenames', []):
                    if f.endswith('.rlib') and os.sep + 'deps' + os.sep in f:
                        rlib = f
    if not rlib:
        raise TywitError('rlib of unimock not found in cargo output')
    return rlib, os.path.join(td, 'debug', 'deps')


def compile_one(path, rlib, deps, outdir):
    name = os.path.basename(path)[:-3]
    cmd = ['rustc', '--edition', '2021', '--crate-type', 'lib', '--emit=metadata', '--error-format=json', '-L', 'dependency=' + deps,
           '--extern', 'unimock=' + rlib, '--crate-name', name, '-o', os.path.join(outdir, name + '.rmeta'), path]
    r = subprocess.run(cmd, capture_output=True, text=True)
    diags = []
    for line in r.stderr.splitlines():
        try:
            d = json.loads(line)
        except ValueError:
            continue
        if d.get('level') == 'error':
            diags.append({'code': (d.get('code') or {}).get('code'), 'message': d.get('message', ''), 'rendered': (d.get('rendered') or '')[:1500]})
    return name, r.returncode, diags


def run(prefix):
    """returns list of dicts {name, expect, mentions, ok, detail}"""
    rlib, deps = build_repo()
    outdir = os.path.join(VERIF, '.cache', 'tywit-out')
    os.makedirs(outdir, exist_ok=True)
    files = sorted(f for f in os.listdir(WDIR) if f.startswith(prefix) and f.endswith('.rs'))
    metas = {}
    for f in files:
        src = open(os.path.join(WDIR, f)).read()
        metas[f[:-3]] = {'expect': re.search(r'//@ expect: (\S+)', src).group(1), 'mentions': re.search(r'//@ mentions: (.*)', src).group(1).strip()}
    results = []
    with concurrent.futures.ThreadPoolExecutor(max_workers=12) as ex:
        futs = [ex.submit(compile_one, os.path.join(WDIR, f), rlib, deps, outdir) for f in files]
        for fu in futs:
            name, rc, diags = fu.result()
            m = metas[name]
            if m['expect'] == 'ok':
                ok = rc == 0
                detail = 'compiles' if ok else 'twin does not compile: %s' % '; '.join('%s %s' % (d['code'], d['message'][:120]) for d in diags[:2])
            else:
                codes = [d['code'] for d in diags if d['code']]
                alts = [a.strip() for a in m['mentions'].split(' | ')]
                hit = [d for d in diags if d['code'] == m['expect'] and any(a in d['message'] or a in d['rendered'] for a in alts)]
                ok = rc != 0 and bool(hit) and all(c == m['expect'] for c in codes)
                if rc == 0:
                    detail = 'compiles, but must be rejected with %s mentioning `%s`' % (m['expect'], m['mentions'])
                elif not hit:
                    detail = 'rejected for another reason: %s' % '; '.join('%s %s' % (d['code'], d['message'][:160]) for d in diags[:2])
                else:
                    detail = 'rejected: %s %s' % (hit[0]['code'], hit[0]['message'][:200])
            results.append({'name': name, 'expect': m['expect'], 'mentions': m['mentions'], 'ok': ok, 'detail': detail})
    return results
