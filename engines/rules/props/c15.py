"""C15 — default-method delegation runs the trait's own body against the same mock."""
import re
import symex
from symex import strip, show, is_call, field_path, mentions
from props.util import configs, load
from props import evalcore as E, lifecycle as L
from xpand import rules as X

LEVEL = 'translation_validation'


def run(chk, tier):
    chk.explain('Translation validation on the generated grammar of provided methods (all receiver kinds): the compiled CallDefaultImpl arm '
                'calls the trait\'s own default body (resolved callee = the trait\'s provided method) on the helper obtained from this mock '
                '(as_ref / as_mut / to_delegator of the receiver) with the handed-back arguments in order and returns its result; the helper\'s '
                'impl of the trait defines exactly the required methods, each forwarding to the mock\'s own method with the arguments in '
                'order. Runtime (FACTS): the helper is this mock\'s clone sharing the Arc\'d state, cached in the per-instance cell (or the '
                'instance itself for by-value receivers); an owning handle (Rc/Arc) must not be dropped while a clone derived from it is '
                'handed on; unmentioned default-bodied methods resolve to the default body before any fallback.')
    X.check_traits(chk, tier, chk.seed, {'C15'})
    # R15.7 the helper that runs default bodies has the mock's own associated items (type-level witness, compiled against this tree, never run)
    import tywit
    try:
        rs = tywit.run('c15_')
    except tywit.TywitError as e:
        chk.ob('R15.7', 'witness harness builds /repo', False, site='build', unrecognised=True, what='tywit build failed', found=str(e)[-800:])
        rs = []
    for r in rs:
        chk.ob('R15.7', 'witness %s: %s' % (r['name'], 'must not type-check (%s)' % r['expect'] if r['expect'] != 'ok' else 'Unimock and DefaultImplDelegator agree on every associated const / type of a mocked trait (must compile)'), r['ok'], site='witness:%s' % r['name'],
               what='witness %s: %s' % (r['name'], r['detail'][:120]), found=r['detail'], expected=r['expect'])
    chk.floor('R15.7', 'associated-item witnesses', len(rs), 2)
    for cfg in configs(tier, thorough=('std', 'mocks', 'nostd-spin', 'nostd')):
        F = load(chk, cfg)
        E.eval_dyn_table(chk, F, 'R15.4', cfg)
        E.eval_table(chk, F, 'R15.4.eval', cfg)      # (nothing in front of that resolution answers for it: eval() goes straight to it)
        from props import c13
        c13.helper_cell(chk, F, 'R15.6', cfg)
        L.clone_and_ctor(chk, F, 'R15.3.clone', cfg)
        L.helper_clones(chk, F, 'R15.3.helpers', cfg)
        delegator_runtime(chk, F, 'R15.3', cfg)
        owning_handles(chk, F, 'R15.5', cfg)
    # R15.8 supertraits of mocked traits that the helper implements by hand (Display / Debug, behind the mock-core feature): a default body
    # that uses one of them on `self` reaches the mock's own impl of that same trait
    from props import c20
    for cfg in (('mocks',) if tier == 'quick' else ('mocks', 'full')):
        c20.supertrait_forwarders(chk, load(chk, cfg), 'R15.8', cfg)


def delegator_runtime(chk, F, rule, cfg):
    # AsRef / AsMut<DefaultImplDelegator> for Unimock
    for fn in F.fns.values():
        io = fn.impl_of or {}
        if fn.kind == 'assoc' and io.get('self_adt') == 'Unimock' and (io.get('trait') or '').startswith('core::convert::As') and 'DefaultImplDelegator' in io.get('trait_ref', ''):
            # what fills the cell: the closure handed to OnceCell::get_or_init on this instance's cell, run with what it captured (closures it
            # was given in turn are part of it); it must build the helper from a clone of this very mock
            n_init = 0
            for p in symex.Interp(F).run(fn):
                for e in p.calls(r'OnceCell::get_or_init$'):
                    c = strip(e.data[2][1])
                    if not (c[0] == 'agg' and c[1] == 'closure' and c[2] in F.fns):
                        chk.ob(rule, '%s fills the cell with a closure literal' % fn.defp[:80], False, config=cfg, fn=fn, site='helper-init', unrecognised=True, what='opaque initialiser', found=show(c)[:120])
                        continue
                    cf = F.fns[c[2]]
                    for q in symex.Interp(F, inline=lambda f_, d_, n_: f_.kind == 'closure').run(cf, args=[c]):
                        n_init += 1
                        v = strip(q.outcome[1]) if q.outcome[0] == 'return' else ('unk', '')
                        inner = None
                        for x in symex.subvalues(v):
                            if is_call(x, r'DefaultImplDelegator::__from_unimock$'):
                                inner = strip(x[2][0])
                        ok = inner is not None and is_call(inner, r'<Unimock as core::clone::Clone>::clone$') and \
                            mentions(inner, lambda y: (y[0] == 'field' and y[2] in ('_ref__self', 'self')) or y == ('param', 0, 1) or (y[0] == 'ref' and y[1][0] == ('ptr', ('param', 0, 1))))
                        chk.ob(rule, '%s builds the helper from a clone of this very mock' % fn.defp[:80], ok, config=cfg, fn=fn, site='helper-init', what='helper built from %s' % (show(inner)[:80] if inner else None))
            chk.floor(rule, 'initialisers of the helper cell analysed in %s' % fn.defp[:60], n_init, 1, config=cfg)
            for p in symex.Interp(F).run(fn):
                r = strip(p.outcome[1])
                okr = mentions(r, lambda x: is_call(x, r'OnceCell::(get_or_init|get_mut|get)$')) and mentions(r, lambda x: (x[0] == 'ref' and x[1][1][-1:] == (('f', 'default_impl_delegator_cell'),)))
                chk.ob(rule, '%s returns the helper cached in this instance\'s cell' % fn.defp[:80], okr, config=cfg, fn=fn, site='helper-return', what='returns %s' % show(r)[:80])
    # helper -> mock
    for tr in ('core::convert::AsRef', 'core::convert::AsMut'):
        for fn in F.fns.values():
            io = fn.impl_of or {}
            if fn.kind == 'assoc' and io.get('self_adt') == 'default_impl_delegator::DefaultImplDelegator' and io.get('trait') == tr:
                for p in symex.Interp(F).run(fn):
                    r = strip(p.outcome[1])
                    ok = field_path(r) == (('param', 0, 1), ['unimock'])
                    chk.ob(rule, 'the helper hands out its own mock (%s)' % tr.rsplit('::', 1)[-1], ok, config=cfg, fn=fn, site='helper-unimock', what='returns %s' % show(r)[:60])
    # by-value: the helper *is* the instance
    td = [f for f in F.fns.values() if f.name == 'to_delegator' and (f.impl_of or {}).get('self_ty') == 'Unimock']
    fd = [f for f in F.fns.values() if f.name == 'from_delegator' and (f.impl_of or {}).get('self_ty') == 'Unimock']
    for fn in td:
        for p in symex.Interp(F, inline=lambda f, d, n: True).run(fn):
            r = strip(p.outcome[1])
            ok = r[0] == 'agg' and dict(r[4]).get('unimock') == ('param', 0, 1)
            chk.ob(rule, 'by-value receivers: the helper wraps the instance itself', ok, config=cfg, fn=fn, site='by-value', what='to_delegator %s' % show(r)[:60])
    for fn in fd:
        for p in symex.Interp(F).run(fn):
            r = strip(p.outcome[1])
            ok = field_path(r) == (('param', 0, 1), ['unimock'])
            chk.ob(rule, 'by-value receivers: from_delegator gives the instance back', ok, config=cfg, fn=fn, site='by-value-back', what='from_delegator %s' % show(r)[:60])
    # Pin: cell
    pin = [f for f in F.fns.values() if f.name == 'to_delegator' and 'Pin' in (f.impl_of or {}).get('self_ty', '')]
    for fn in pin:
        def on_cell(x):
            return mentions(x, lambda y: y[0] == 'ref' and y[1][1][-1:] == (('f', 'default_impl_delegator_cell'),))
        def observed_empty(p):
            # (`if cell.get().is_none() { .. cell.set(x) .. }` under the exclusive borrow of a Pin<&mut>: on such a path the cell *is* empty,
            #  filling it by hand cannot fail)
            for d in p.decisions:
                inner, t = L.truth_of(d)
                if t is not None and is_call(inner, r'Option::(is_none|is_some)$') and mentions(inner, lambda x: is_call(x, r'OnceCell::get$') and on_cell(x)) and (inner[1].endswith('is_none') == t):
                    return True
                v = strip(d.value)
                if v[0] == 'discr' and is_call(strip(v[1]), r'OnceCell::get$') and on_cell(strip(v[1])) and symex.decision_variant(F, d) == 'None':
                    return True
            return False
        for p in symex.Interp(F).run(fn):
            if p.outcome[0] != 'return' and observed_empty(p):
                continue
            if p.outcome[0] != 'return':
                # the cell is a cache that outlives the call and is shared with the &self / &mut self accessors: finding it filled is the
                # normal case from the second delegation on - it must never be a reason to panic
                why = [show(d_.value)[:80] for d_ in p.decisions if mentions(d_.value, lambda y: is_call(y, r'OnceCell::(set|try_insert)$') and on_cell(y))]
                chk.ob(rule, 'Pin receivers: a cell that is already filled is used, never a reason to panic', not why, config=cfg, fn=fn, site='pin:filled-panics',
                       what='to_delegator panics on the result of filling the cell by hand', found=why, expected='get_or_init / (set | try_insert) with the already-filled case handed on')
                continue
            must = [e.data[1] for e in p.calls(r'^core::(option::Option|result::Result)::(unwrap|expect)$')
                    if e.data[2] and mentions(e.data[2][0], lambda y: is_call(y, r'OnceCell::(set|try_insert)$') and on_cell(y))]
            chk.ob(rule, 'Pin receivers: a cell that is already filled is used, never a reason to panic', not must or observed_empty(p), config=cfg, fn=fn, site='pin:filled-panics',
                   what='to_delegator demands that filling the cell by hand succeeds (%s)' % [m_.rsplit('::', 1)[-1] for m_ in must], found=must,
                   expected='get_or_init, or set / try_insert with the already-filled case handed on')
            r = strip(p.outcome[1])
            from_cell = mentions(r, lambda x: is_call(x, r'OnceCell::(get_mut|get|get_or_init)$') and on_cell(x))
            init = any(on_cell(e.data[2][0]) for e in p.calls(r'OnceCell::get_or_init$'))
            for e in p.calls(r'OnceCell::(set|try_insert)$'):
                # filled by hand: the value stored is a helper built from a clone of this very mock
                if on_cell(e.data[2][0]) and mentions(e.data[2][1], lambda x: is_call(x, r'DefaultImplDelegator::__from_unimock$') and is_call(strip(x[2][0]), r'<Unimock as core::clone::Clone>::clone$')):
                    init = True
            for d in p.decisions:
                inner, t = L.truth_of(d)
                if t is not None and is_call(inner, r'Option::(is_none|is_some)$') and mentions(inner, lambda x: is_call(x, r'OnceCell::get$') and on_cell(x)) and (inner[1].endswith('is_some') == t):
                    init = True      # (found filled)
            chk.ob(rule, 'Pin receivers: the helper lives in the per-instance cell', from_cell and init, config=cfg, fn=fn, site='pin', what='Pin to_delegator calls %s' % [e.data[1].rsplit('::', 1)[-1] for e in p.calls()],
                   found={'returned from this instance\'s cell': from_cell, 'cell filled (or found filled) on this path': init})


def _shared_on_path(F, p):
    """the path has established that the handle is NOT the only one: try_unwrap said Err / into_inner said None on it.
    (strong_count / get_mut comparisons are accepted path-insensitively: their outcome encodes the same fact but through an
    integer or Option the rule does not interpret.)"""
    for d in p.decisions:
        v = d.value
        if v[0] == 'discr' and is_call(strip(v[1]), r'::(try_unwrap|into_inner)$'):
            var = symex.decision_variant(F, d)
            if var in ('Err', 'None'):
                return True
    return p.called(r'::(strong_count|get_mut)$')


def owning_handles(chk, F, rule, cfg):
    """R15.5: to_delegator on an owning handle (Rc/Arc) must not drop the handle while returning a clone derived from it,
    unless it first made sure the handle is not unique (try_unwrap) — otherwise the original dies with a clone alive."""
    moves_original = {}
    for fn in F.fns.values():
        io = fn.impl_of or {}
        st = io.get('self_ty', '')
        if fn.name != 'to_delegator' or not re.search(r'^std::(rc::Rc|sync::Arc)<Unimock>$', st):
            continue
        kind = 'Rc' if 'Rc' in st else 'Arc'
        for p in symex.Interp(F).run(fn):
            if p.outcome[0] == 'return' and mentions(p.outcome[1], lambda x: x[0] == 'as' and x[2] == 'Ok' and is_call(strip(x[1]), r'::try_unwrap$')):
                moves_original[kind] = True
            r = p.outcome[1] if p.outcome[0] == 'return' else ('unk', '')
            clones = [e for e in p.calls(r'<Unimock as core::clone::Clone>::clone$')]
            drops_handle = any(e.kind == 'drop' and strip(e.data[0]) == ('param', 0, 1) for e in p.effects) or \
                any(e.kind == 'drop' and 'Unimock>' in (e.data[1] or '') and mentions(e.data[0], lambda x: x == ('param', 0, 1)) for e in p.effects)
            unique_checked = _shared_on_path(F, p)
            derived = bool(clones) and mentions(r, lambda x: x[0] == 'call' and any(x[3] == c.data[3] for c in clones))
            bad = derived and drops_handle and not unique_checked
            chk.ob(rule, '%s<Unimock>::to_delegator does not let a sole owning handle die while its clone lives on in the helper' % kind, not bad, config=cfg, fn=fn, site='%s:to_delegator' % kind,
                   what='drops-handle-with-clone-alive', found={'clones_self': derived, 'drops_handle': drops_handle, 'uniqueness_checked': unique_checked},
                   expected='move the instance out when the handle is unique (try_unwrap), clone only otherwise')

    # if the helper may hold the *original* (moved in by to_delegator), turning a sole helper handle back into a mock handle
    # must move it out again rather than clone-and-drop
    for fn in F.fns.values():
        io = fn.impl_of or {}
        st = io.get('self_ty', '')
        if fn.name != 'from_delegator' or not re.search(r'^std::(rc::Rc|sync::Arc)<Unimock>$', st):
            continue
        kind = 'Rc' if 'Rc' in st else 'Arc'
        for p in symex.Interp(F).run(fn):
            r = p.outcome[1] if p.outcome[0] == 'return' else ('unk', '')
            clones = [e for e in p.calls(r'<Unimock as core::clone::Clone>::clone$')]
            derived = bool(clones) and mentions(r, lambda x: x[0] == 'call' and any(x[3] == c.data[3] for c in clones))
            unique_checked = _shared_on_path(F, p)
            bad = bool(moves_original.get(kind)) and derived and not unique_checked
            chk.ob(rule, '%s<Unimock>::from_delegator does not drop a sole helper (which may hold the original) while returning its clone' % kind, not bad, config=cfg, fn=fn, site='%s:from_delegator' % kind,
                   what='drops-helper-with-clone-alive', found={'clones_helper_mock': derived, 'uniqueness_checked': unique_checked, 'helper_may_hold_original': bool(moves_original.get(kind))})
