"""C09 — only the original instance verifies: once, on its thread, with no clones alive."""
from props import lifecycle as L
from props.util import configs, load

LEVEL = 'other'


def run(chk, tier):
    chk.explain('K3 decision tables extracted by path-sensitive abstract interpretation of the MIR of teardown, '
                'Drop::drop, verify, no_verify_in_drop, teardown_panic, teardown_report, Clone::clone, from_assembler, '
                'new/new_partial and Termination::report, compared with the lifecycle tables transcribed from the property.')
    for cfg in configs(tier, quick=('std', 'nostd', 'mocks'), thorough=('std', 'mocks', 'nostd-spin', 'nostd')):
        F = load(chk, cfg)
        fn, paths, rows = L.teardown_table(chk, F, 'R09.teardown', cfg)
        L.teardown_pre_effects(chk, F, 'R09.pre', cfg, fn, paths)
        L.loops_run_to_completion(chk, 'R09.teardown', fn, cfg, paths)
        L.drop_table(chk, F, 'R09.drop', cfg)
        L.verify_tables(chk, F, 'R09.verify', cfg)
        L.teardown_panic_table(chk, F, 'R09.teardown_panic', cfg)
        if 'nostd' not in cfg:
            L.teardown_report_table(chk, F, 'R09.report', cfg)
            L.report_table(chk, F, 'R09.report', cfg)
        L.clone_and_ctor(chk, F, 'R09.clone', cfg)
        L.helper_clones(chk, F, 'R09.helpers', cfg)
        from props import c15
        c15.owning_handles(chk, F, 'R09.handles', cfg)
        from props import c08
        c08.records_before_panic(chk, F, 'R09.recorded', cfg, 'nostd' in cfg)
