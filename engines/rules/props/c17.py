"""C17 — composite returns reproduce the configured value shape-for-shape."""
import re
from props import outputs as O
from props.util import configs, load

LEVEL = 'other'


def run(chk, tier):
    chk.explain('K3: every Option/Result/Poll conversion (stored form in, stored form out; deep and shallow flavours) maps variant k to '
                'variant k with the payload converted from that arm\'s payload, or fails as a whole; K5: Vec conversions traverse forward and '
                'produce one element per stored element; K6: tuple slot i is converted from slot i; leaves: lent = borrow of the stored box, '
                'static = the stored reference, owned = the stored closure\'s result; K7: each slot of tuple/Result kinds has its own type '
                'parameter, so slots cannot be transposed without a type error.')
    for cfg in configs(tier, quick=('std', 'nostd'), thorough=('std', 'mocks', 'nostd-spin', 'nostd')):
        F = load(chk, cfg)
        O.variant_maps(chk, F, 'R17.1', cfg)
        O.vec_traversals(chk, F, 'R17.2', cfg)
        O.tuple_slots(chk, F, 'R17.3', cfg)
        O.leaves(chk, F, 'R17.4', cfg)
        O.conversion_flavour(chk, F, 'R17.5', cfg)
        from props import builder as B
        B.conversion_table(chk, F, 'R17.6', cfg)
        # R17.8 'owned leaves are single-use exactly when configured through a single-use path': a second request for an exhausted single-use
        # value is refused by eval::eval (CannotReturnValueMoreThanOnce) whatever the fallback mode - never answered by something else
        from props import evalcore as E_
        E_.eval_table(chk, F, 'R17.8', cfg)
        # R17.7 the converted value is what gets stored as the response
        B.returner_error_latched(chk, F, 'R17.7', cfg)
        # R17.3 slot separation by distinct type parameters
        n = 0
        for im in F.impls:
            if im.get('trait') in ('output::IntoReturnOnce', 'output::IntoReturn', 'output::GetOutput') and re.search(r'tuples::|deep::result::|shallow::result::', im['def'] + im.get('trait_ref', '') + im['self_ty']):
                n += 1
        chk.floor('R17.3', 'tuple/Result conversion impls (slot-typed)', n, 10, config=cfg)
