#!/bin/bash
# usage: confirm_seed.sh <Cxx>   — confirms a seeded change in its scratch worktree /tmp/seed/<Cxx>/wt
# (1) full existing suite passes with the change (demo moved aside), (2) demo fails with the change,
# (3) demo passes without it. Writes /tmp/seed/<Cxx>/confirm.log and prints a one-line verdict.
ID="$1"; SB="${SEED_BASE:-/tmp/seed}"; WT=$SB/$ID/wt; OUT=$SB/$ID/out; LOG=$SB/$ID/confirm.log
export CARGO_TARGET_DIR=$WT/target CARGO_NET_OFFLINE=true
cd "$WT" || exit 2
: > "$LOG"
DEMOS=$(git status --porcelain --untracked-files=all | awk '$1=="??"{print $2}' | grep -E '^(tests|examples)/' | grep -v '^target')
echo "demos: $DEMOS" >> "$LOG"
mkdir -p $SB/$ID/aside
for d in $DEMOS; do mkdir -p $SB/$ID/aside/$(dirname $d); mv $d $SB/$ID/aside/$d; done
# patch must equal the worktree's source diff
git diff > $SB/$ID/wt.diff
S1=FAIL
if cargo test --workspace --no-fail-fast --offline >> "$LOG" 2>&1; then S1=PASS; fi
for d in $DEMOS; do mv $SB/$ID/aside/$d $d; done
run_demo() {
  local ok=0
  for d in $DEMOS; do
    case $d in
      tests/*.rs) n=$(basename $d .rs); cargo test --offline --test $n ${SEED_FEATURES:+--features $SEED_FEATURES} >> "$LOG" 2>&1 || ok=1 ;;
      examples/*.rs) n=$(basename $d .rs); cargo run --offline --example $n >> "$LOG" 2>&1 || ok=1 ;;
    esac
  done
  return $ok
}
S2=PASS; run_demo || S2=FAIL
git apply -R $SB/$ID/wt.diff >> "$LOG" 2>&1
S3=PASS; run_demo || S3=FAIL
git apply $SB/$ID/wt.diff >> "$LOG" 2>&1
echo "$ID suite_with_change=$S1 demo_with_change=$S2 demo_without_change=$S3"
