#!/usr/bin/env python3
"""mode_debug.py <Cxx> [mode,mode]: run a property's rules in a given analysis mode and print every open obligation (debug aid)."""
import importlib, os, sys
HERE = os.path.dirname(os.path.dirname(os.path.abspath(__file__)))
sys.path.insert(0, os.path.join(HERE, 'engines', 'rules')); sys.path.insert(0, os.path.join(HERE, 'engines'))
import common, facts, symex
pid = sys.argv[1]
modes = sys.argv[2].split(',') if len(sys.argv) > 2 and sys.argv[2] else []
symex.MODE.update({m: True for m in modes})
mod = importlib.import_module('props.%s' % pid.lower())
chk = common.Check(pid, os.environ.get('VERIF_TIER', 'quick'), 0)
mod.run(chk, chk.tier)
for r in chk.violations + chk.unrecognised:
    print(r['kind'], r['rule'], (r.get('function') or '')[:60], '|', r['description'][:110]); print('     ', str(r['found'])[:600])
print(len(chk.obligations), 'obligations', len(chk.violations), 'violated', len(chk.unrecognised), 'unrecognised')
