#!/usr/bin/env python3
"""recheck_seed.py <seeded dir name> <note> <Cxx> [more ids]: re-run the given checks against a stored seeded change (scratch copy of
/repo's current tree + patch.diff, removed afterwards) and record the result and the note in its meta.json."""
import json, os, re, shutil, subprocess, sys, tempfile
name, note, ids = sys.argv[1], sys.argv[2], sys.argv[3:]
dst = '/verif/seeded/' + name
scratch = tempfile.mkdtemp(prefix='seedre-')
subprocess.check_call(['rsync', '-a', '--exclude', 'target', '--exclude', '.git', '/repo/', scratch + '/repo/'])
subprocess.check_call(['git', 'init', '-q', '.'], cwd=scratch + '/repo')
subprocess.check_call(['git', 'apply', dst + '/patch.diff'], cwd=scratch + '/repo')
m = json.load(open(dst + '/meta.json'))
res = m['checks_run']['result']
if 'first_run' not in m:
    m['first_run'] = json.loads(json.dumps(res))
for p in ids:
    r = subprocess.run(['/verif/check', p, '--tier', 'quick'], env=dict(os.environ, VERIF_REPO=scratch + '/repo'), capture_output=True, text=True, cwd='/verif')
    res[p] = {'exit': r.returncode, 'rules': sorted(set(re.findall(r'\[(?:VIOLATED|UNRECOGNISED)\] (\S+)', r.stdout))), 'kinds': sorted(set(re.findall(r'\[(VIOLATED|UNRECOGNISED)\]', r.stdout)))}
m['caught'] = any(v['exit'] != 0 for v in res.values())
if note:
    m['history'] = note
json.dump(m, open(dst + '/meta.json', 'w'), indent=1)
print(name, 'caught=%s' % m['caught'], {k: v['rules'] for k, v in res.items()})
shutil.rmtree(scratch, ignore_errors=True)
subprocess.run(['git', '-C', '/verif', 'checkout', '-q', '--', 'evidence'])
