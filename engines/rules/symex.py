"""Path-sensitive abstract interpretation of MIR bodies (no solver, nothing is executed).

Enumerates the acyclic-ish paths (each block visited at most `loop_bound` times per frame) of a
function's normal (non-unwind) CFG while keeping a symbolic environment, so that

  * branch conditions become *decisions* over symbolic values (atoms of decision tables, K3),
  * values reaching a site can be traced to their producers (provenance, K6),
  * integer expressions stay linear terms `sym + c` (K4),
  * branches on known constants (drop flags, discriminants of freshly built aggregates) are pruned.

Values are hashable tuples:
  ('c', x)                      constant (int / bool / str / ('fn', def) / 'unit' / ('repr', s))
  ('param', frame, i)           initial value of argument local i
  ('call', callee, args, site)  result of an opaque call;  site = (fn def, bb, visit)
  ('agg', kind, adt, variant, ((name, v), ...))
  ('ref', lv, mut)              lv = (root, path); root = ('local', frame, n) | ('ptr', v)
  ('field', v, name) ('deref', v) ('as', v, variant) ('index', v, i)
  ('bin', op, a, b) ('un', op, a) ('discr', v, adt) ('cast', kind, v)
  ('havoc', site, old)          a local whose address was passed mutably to an opaque call
  ('unk', tag)
"""
import re
from facts import callee_name, callee_def, callee_kind, callee_unresolved, place_str


class Budget(Exception):
    pass


class Unsupported(Exception):
    pass


def C(x):
    return ('c', x)


UNIT = ('c', 'unit')


class Decision:
    __slots__ = ('value', 'branch', 'fn', 'bb', 'frame', 'targets')

    def __init__(self, value, branch, fn, bb, frame, targets):
        self.value = value      # symbolic value switched on
        self.branch = branch    # int (matched value) or ('otherwise', (excluded ints...))
        self.fn = fn
        self.bb = bb
        self.frame = frame
        self.targets = targets

    def __repr__(self):
        return 'Decision(%s == %s @%s bb%d)' % (show(self.value), self.branch, self.fn.defp, self.bb)


class Effect:
    __slots__ = ('kind', 'data', 'fn', 'bb', 'frame', 'term', 'ndec')

    def __init__(self, kind, data, fn, bb, frame, term=None, ndec=0):
        self.kind = kind    # 'call' | 'write' | 'drop' | 'assert' | 'inline_enter' | 'inline_exit'
        self.data = data
        self.fn = fn
        self.bb = bb
        self.frame = frame
        self.term = term
        self.ndec = ndec    # number of decisions taken before this effect (position in the path)

    def __repr__(self):
        return 'Effect(%s %s @%s bb%d)' % (self.kind, show(self.data) if isinstance(self.data, tuple) else self.data, self.fn.defp, self.bb)


class Path:
    def __init__(self, st, outcome):
        self.decisions = st.decisions
        self.effects = st.effects
        self.outcome = outcome   # ('return', v) | ('diverge', callee, args, term, fn, bb) | ('unreachable',) | ('resume',)
        self.trace = st.trace
        self.env = st.env
        self.heap = st.heap

    def calls(self, regex=None):
        for e in self.effects:
            if e.kind == 'call' and (regex is None or re.search(regex, e.data[1])):
                yield e

    def called(self, regex):
        return any(True for _ in self.calls(regex))


class State:
    def __init__(self):
        self.env = {}
        self.heap = {}
        self.decisions = []
        self.memo = {}
        self.effects = []
        self.visits = {}
        self.trace = []
        self.nframes = 1

    def copy(self):
        s = State.__new__(State)
        s.env = dict(self.env)
        s.heap = dict(self.heap)
        s.decisions = list(self.decisions)
        s.memo = dict(self.memo)
        s.effects = list(self.effects)
        s.visits = dict(self.visits)
        s.trace = list(self.trace)
        s.nframes = self.nframes
        return s


def show(v, depth=0):
    if not isinstance(v, tuple) or not v:
        return repr(v)
    if depth > 6:
        return '…'
    k = v[0]
    d = depth + 1
    if k == 'c':
        x = v[1]
        if isinstance(x, tuple) and x and x[0] == 'fn':
            return 'fn:' + x[1]
        return repr(x)
    if k == 'param':
        return 'arg%d' % v[2] if v[1] == 0 else 'arg%d@f%d' % (v[2], v[1])
    if k == 'call':
        return '%s(%s)#bb%d' % (v[1], ', '.join(show(a, d) for a in v[2]), v[3][1])
    if k == 'agg':
        nm = v[2] + '::' + v[3] if v[2] else v[1]
        return '%s{%s}' % (nm, ', '.join('%s: %s' % (n, show(x, d)) for n, x in v[4]))
    if k == 'ref':
        if len(v) > 3 and v[1][0][0] == 'local':
            return '&%s{%s}' % ('mut ' if v[2] else '', show(v[3], d))
        return '&%s%s' % ('mut ' if v[2] else '', show_lv(v[1], d))
    if k == 'field':
        return '%s.%s' % (show(v[1], d), v[2])
    if k == 'deref':
        return '*%s' % show(v[1], d)
    if k == 'as':
        return '(%s as %s)' % (show(v[1], d), v[2])
    if k == 'bin':
        return '(%s %s %s)' % (show(v[2], d), v[1], show(v[3], d))
    if k == 'un':
        return '%s(%s)' % (v[1], show(v[2], d))
    if k == 'discr':
        return 'discr(%s)' % show(v[1], d)
    if k == 'cast':
        return 'cast:%s(%s)' % (v[1], show(v[2], d))
    if k == 'havoc':
        return 'havoc(%s)' % show(v[2], d)
    if k == 'overlay':
        return '%s with {%s}' % (show(v[1], d), ', '.join('%s: %s' % ('.'.join(str(e[1]) for e in sub), show(x, d)) for sub, x in v[2]))
    if k == 'index':
        return '%s[%s]' % (show(v[1], d), show(v[2], d))
    return '%s' % (v,)


def show_lv(lv, depth=0):
    root, path = lv
    if root[0] == 'local':
        s = '_%d' % root[2] if root[1] == 0 else '_%d@f%d' % (root[2], root[1])
    else:
        s = '*%s' % show(root[1], depth + 1)
    for e in path:
        if e[0] == 'f':
            s += '.%s' % e[1]
        elif e[0] == 'dc':
            s = '(%s as %s)' % (s, e[1])
        elif e[0] == 'deref':
            s = '*%s' % s
        else:
            s += '[%s]' % (e[1:],)
    return s


def _c_fresh_vec_is_empty(it, st, name, args, t):
    # std contract: a vector produced by Vec::new() and not handed out mutably since is empty
    if args and args[0][0] == 'ref':
        try:
            v = it._read_lv(st, args[0][1])
        except Exception:
            return None
        if v[0] == 'call' and re.search(r'Vec::new$', v[1]):
            return C(True) if name.endswith('is_empty') else C(0)
    return None


PURE = re.compile(r'(^unimock::private::(as_str_ref|as_slice|as_ref)$|^private::(as_str_ref|as_slice|as_ref)$|PartialEq( for \w+)?>?::(eq|ne)$|PartialOrd( for \w+)?>?::(lt|le|gt|ge|partial_cmp)$|'
                  r'<impl \[T\]>::(len|is_empty)$|^core::str::<impl str>::(len|is_empty)$)')
DIVERGE = ('__diverge__',)


def _c_unwrap(it, st, name, args, t):
    # std contract: unwrap/expect of a *known* Some/Ok is its payload; of a known None/Err it panics
    if not args:
        return None
    v = args[0]
    if v[0] == 'agg' and v[1] == 'adt' and v[2] in ('core::option::Option', 'core::result::Result'):
        good = 'Some' if v[2].endswith('Option') else 'Ok'
        if name.endswith('_err'):
            good = 'Err'
        if v[3] == good:
            return v[4][0][1]
        return DIVERGE
    return None


def _c_default_scalar(it, st, name, args, t):
    # std contract: Default for the primitive integer types is 0, for bool false
    return C(False) if name.startswith('<bool ') else C(0)


STD_CONTRACTS = {
    r'^core::(option::Option|result::Result)::(unwrap|expect|unwrap_err|expect_err)$': _c_unwrap,
    r'^<(usize|isize|u8|u16|u32|u64|u128|i8|i16|i32|i64|i128|bool) as core::default::Default>::default$': _c_default_scalar,
}


# Analysis modes. All of them are faithful readings of the same MIR; they differ in how much of the program is *opened up*:
#   inline_private: non-public functions that do not exist on the reference tree (extracted helpers) are analysed as part of
#                   their callers; the reference tree's own functions - the ones the rules name - are never opened up;
#   combinators:    std Option/Result combinators (map, ok_or_else, map_err, and_then, unwrap_or_else, transpose, ...) are executed
#                   by their std contract - the interpreter forks on the variant exactly as the equivalent `match` would and runs
#                   closure literals / constructor functions passed to them - instead of being kept as opaque calls.
# The default (both off) is what the rules were written against; `check` re-decides a property in the other modes when the
# default reading leaves obligations open, and a reading without open obligations decides the property.
MODE = {'inline_private': False, 'combinators': False}


def is_module_private(f):
    """helpers private to their module (`fn`, `pub(self)`, `pub(in module)`): part of the function that calls them"""
    return f.kind in ('fn', 'assoc') and bool(getattr(f, 'vis', None)) and f.vis.startswith('Restricted') and '::' in f.vis.split('~', 1)[-1] and len(f.blocks) < 80


_BASELINE_FNS = {}


def is_new_helper(f):
    """a function that does not exist on the reference tree (after renamed items have been mapped back): an extracted
    helper. Functions the rules know by name (the reference tree's own items) are never opened up by this policy."""
    if f.kind not in ('fn', 'assoc') or len(f.blocks) > 120:
        return False      # (nominal visibility is not consulted: a `pub fn` of a crate-private type is a helper too)
    crate = getattr(f.facts, 'crate', None)
    if crate not in _BASELINE_FNS:
        try:
            import json
            import names
            base = json.load(open(names.BASELINE))
            for c, inv in base.items():
                _BASELINE_FNS[c] = set(inv.get('fns', {}))
        except Exception:
            _BASELINE_FNS[crate] = None
    known = _BASELINE_FNS.get(crate)
    if known is None:
        return False
    return f.rawdef not in known and f.defp not in known


def twins(F):
    """{def of H: (def path of V, display name of V)}: H does not exist on the reference tree, V does, has the same simple name and is
    now nothing but `V(self, a, b..) = H(accessor(self), a, b..)` - the body of V moved into H (typically from a wrapper type to the
    type it wraps) and V was left as a forwarder. A call of H from anywhere is then what a call of V was: it is presented to the
    rules under V's name (with H's receiver), and H's field accesses count as V's."""
    tw = getattr(F, '_twins', None)
    if tw is not None:
        return tw
    tw = {}
    F._twins = tw           # (set first: the runs below must not recurse into this computation)
    for V in F.fns.values():
        if V.kind not in ('fn', 'assoc') or is_new_helper(V) or len(V.blocks) > 12:
            continue
        local = [(bb, t) for bb, t in V.calls() if callee_def(t) in F.fns]
        cands = [(bb, t) for bb, t in local if F.fns[callee_def(t)].name == V.name and is_new_helper(F.fns[callee_def(t)]) and callee_def(t) != V.defp]
        if len(cands) != 1 or len(local) > 2:
            continue
        H = F.fns[callee_def(cands[0][1])]
        if H.arg_count != V.arg_count or H.arg_count < 1:
            continue
        try:
            ps = Interp(F, mode={'inline_private': False, 'combinators': False}).run(V)
        except Exception:
            continue
        ok = bool(ps)
        for p_ in ps:
            if p_.outcome[0] != 'return':
                continue
            cs = [e for e in p_.effects if e.kind == "call" and e.term is cands[0][1]]
            if len(cs) != 1:
                ok = False
                break
            a = cs[0].data[2]
            fwd = all(strip(a[i]) == ('param', 0, i + 1) for i in range(1, H.arg_count))
            recv = mentions(a[0], lambda x: x == ('param', 0, 1))
            res = strip(p_.outcome[1])
            same_res = res == ('c', 'unit') or (res[0] == 'call' and res[3] == cs[0].data[3])
            if not (fwd and recv and same_res):
                ok = False
                break
        if ok and any(p_.outcome[0] == 'return' for p_ in ps):
            tw[H.defp] = (V.defp, callee_name_of_fn(V))
    return tw


def callee_name_of_fn(f):
    from facts import strip_generics
    return strip_generics(f.defp)


OPT = 'core::option::Option'
RES = 'core::result::Result'


def _mk(adt, variant, *payload):
    return ('agg', 'adt', adt, variant, tuple((str(i), x) for i, x in enumerate(payload)))


def _mk_tuple(vals):
    return ('agg', 'tuple', '', '', tuple((str(i), x) for i, x in enumerate(vals)))


def _comb(adt, table, byref=False):
    """table: variant -> lambda(it, st, payload, args, ctx) yielding (state, result-or-None)"""
    def h(it, st, args, fn, bb, frame, t, depth, site):
        if not args:
            return
        ctx = (fn, bb, frame, t, depth, site)
        recv = args[0]
        if byref and recv[0] == 'ref':
            # `opt.is_some()` takes `&self`: the decision is about the value behind the reference (it carries the provenance)
            try:
                recv = it._read_lv(st, recv[1])
            except Exception:
                recv = args[0]
        for st2, var, pay in it._fork_variant(st, recv, adt, fn, bb, frame):
            f = table.get(var)
            if f is None:
                return
            for out in f(it, st2, pay, args, ctx):
                yield out
    return h


def _app(it, st, f, vals, ctx, wrap=None):
    fn, bb, frame, t, depth, site = ctx
    for st2, r in it._apply(st, f, vals, fn, bb, frame, t, depth, site):
        if r is None:
            yield st2, None
        else:
            yield st2, (wrap(r) if wrap else r)


def _const(v):
    def f(it, st, pay, args, ctx):
        yield st, v(pay, args)
    return f


def _pass(adt, variant):
    """an arm that hands the receiver's variant on unchanged: keep the receiver itself when it is not a literal aggregate (its
    provenance - e.g. the early return of a `?` - is what rules label outcomes by)"""
    def f(it, st, pay, args, ctx):
        r = args[0]
        if strip(r)[0] != 'agg':
            yield st, r
        elif pay is None:
            yield st, _mk(adt, variant)
        else:
            yield st, _mk(adt, variant, pay)
    return f


COMBINATORS = {
    'core::option::Option::map': _comb(OPT, {
        'Some': lambda it, st, p, a, c: _app(it, st, a[1], [p], c, lambda r: _mk(OPT, 'Some', r)),
        'None': _pass(OPT, 'None')}),
    'core::option::Option::and_then': _comb(OPT, {
        'Some': lambda it, st, p, a, c: _app(it, st, a[1], [p], c),
        'None': _pass(OPT, 'None')}),
    'core::option::Option::ok_or_else': _comb(OPT, {
        'Some': _const(lambda p, a: _mk(RES, 'Ok', p)),
        'None': lambda it, st, p, a, c: _app(it, st, a[1], [], c, lambda r: _mk(RES, 'Err', r))}),
    'core::option::Option::ok_or': _comb(OPT, {
        'Some': _const(lambda p, a: _mk(RES, 'Ok', p)),
        'None': _const(lambda p, a: _mk(RES, 'Err', a[1]))}),
    'core::option::Option::unwrap_or_else': _comb(OPT, {
        'Some': _const(lambda p, a: p),
        'None': lambda it, st, p, a, c: _app(it, st, a[1], [], c)}),
    'core::option::Option::unwrap_or': _comb(OPT, {
        'Some': _const(lambda p, a: p),
        'None': _const(lambda p, a: a[1])}),
    'core::option::Option::or_else': _comb(OPT, {
        'Some': _pass(OPT, 'Some'),
        'None': lambda it, st, p, a, c: _app(it, st, a[1], [], c)}),
    'core::option::Option::map_or': _comb(OPT, {
        'Some': lambda it, st, p, a, c: _app(it, st, a[2], [p], c),
        'None': _const(lambda p, a: a[1])}),
    'core::option::Option::map_or_else': _comb(OPT, {
        'Some': lambda it, st, p, a, c: _app(it, st, a[2], [p], c),
        'None': lambda it, st, p, a, c: _app(it, st, a[1], [], c)}),
    'core::option::Option::is_some': _comb(OPT, {'Some': _const(lambda p, a: C(True)), 'None': _const(lambda p, a: C(False))}, byref=True),
    'core::option::Option::is_none': _comb(OPT, {'Some': _const(lambda p, a: C(False)), 'None': _const(lambda p, a: C(True))}, byref=True),
    'core::result::Result::map': _comb(RES, {
        'Ok': lambda it, st, p, a, c: _app(it, st, a[1], [p], c, lambda r: _mk(RES, 'Ok', r)),
        'Err': _pass(RES, 'Err')}),
    'core::result::Result::map_err': _comb(RES, {
        'Ok': _pass(RES, 'Ok'),
        'Err': lambda it, st, p, a, c: _app(it, st, a[1], [p], c, lambda r: _mk(RES, 'Err', r))}),
    'core::result::Result::and_then': _comb(RES, {
        'Ok': lambda it, st, p, a, c: _app(it, st, a[1], [p], c),
        'Err': _pass(RES, 'Err')}),
    'core::result::Result::unwrap_or_else': _comb(RES, {
        'Ok': _const(lambda p, a: p),
        'Err': lambda it, st, p, a, c: _app(it, st, a[1], [p], c)}),
    'core::result::Result::ok': _comb(RES, {'Ok': _const(lambda p, a: _mk(OPT, 'Some', p)), 'Err': _const(lambda p, a: _mk(OPT, 'None'))}),
    'core::result::Result::err': _comb(RES, {'Ok': _const(lambda p, a: _mk(OPT, 'None')), 'Err': _const(lambda p, a: _mk(OPT, 'Some', p))}),
    'core::result::Result::is_ok': _comb(RES, {'Ok': _const(lambda p, a: C(True)), 'Err': _const(lambda p, a: C(False))}, byref=True),
    'core::result::Result::is_err': _comb(RES, {'Ok': _const(lambda p, a: C(False)), 'Err': _const(lambda p, a: C(True))}, byref=True),
}


def _transpose(it, st, args, fn, bb, frame, t, depth, site):
    # Option<Result<T, E>> -> Result<Option<T>, E>
    for st2, var, pay in it._fork_variant(st, args[0], OPT, fn, bb, frame):
        if var == 'None':
            yield st2, _mk(RES, 'Ok', _mk(OPT, 'None'))
        else:
            for st3, v2, p2 in it._fork_variant(st2, pay, RES, fn, bb, frame):
                if v2 == 'Ok':
                    yield st3, _mk(RES, 'Ok', _mk(OPT, 'Some', p2))
                else:
                    yield st3, _mk(RES, 'Err', p2)


COMBINATORS['core::option::Option::transpose'] = _transpose

def _as_ref(adt, mutable):
    def h(it, st, args, fn, bb, frame, t, depth, site):
        r = args[0] if args else ('unk', '')
        if r[0] != 'ref':
            return
        lv = r[1]
        try:
            pointee = it._read_lv(st, lv)
        except Exception:
            return
        for st2, var, pay in it._fork_variant(st, pointee, adt, fn, bb, frame):
            if pay is None:
                yield st2, _mk(adt, var)
            else:
                yield st2, _mk(adt, var, ('ref', (lv[0], lv[1] + (('dc', var), ('f', '0'))), mutable))
    return h


def _as_deref(mutable):
    # Option<T>::as_deref(&self) = match self { Some(t) => Some(t.deref()), None => None }
    def h(it, st, args, fn, bb, frame, t, depth, site):
        r = args[0] if args else ('unk', '')
        if r[0] != 'ref':
            return
        lv = r[1]
        try:
            pointee = it._read_lv(st, lv)
        except Exception:
            return
        for st2, var, pay in it._fork_variant(st, pointee, OPT, fn, bb, frame):
            if pay is None:
                yield st2, _mk(OPT, var)
            else:
                inner = ('ref', (lv[0], lv[1] + (('dc', var), ('f', '0'))), mutable)
                yield st2, _mk(OPT, var, ('call', 'core::ops::DerefMut::deref_mut' if mutable else 'core::ops::Deref::deref', (inner,), site))
    return h


COMBINATORS['core::option::Option::as_deref'] = _as_deref(False)
COMBINATORS['core::option::Option::as_deref_mut'] = _as_deref(True)
COMBINATORS['core::option::Option::as_ref'] = _as_ref(OPT, False)
COMBINATORS['core::option::Option::as_mut'] = _as_ref(OPT, True)
COMBINATORS['core::result::Result::as_ref'] = _as_ref(RES, False)
COMBINATORS['core::result::Result::as_mut'] = _as_ref(RES, True)

def _checked_sub(it, st, args, fn, bb, frame, t, depth, site):
    # std contract: a.checked_sub(b) = if a < b { None } else { Some(a - b) }
    if len(args) != 2:
        return
    a, b = args
    cond = ('bin', 'Lt', a, b)
    targets = [(0, None), (1, None)]
    known = st.memo.get(cond)
    if known in (None, 1):
        s2 = st.copy() if known is None else st
        if known is None:
            s2.memo[cond] = 1
            s2.decisions.append(Decision(cond, 1, fn, bb, frame, targets))
        yield s2, _mk(OPT, 'None')
    if known in (None, 0):
        if known is None:
            st.memo[cond] = 0
            st.decisions.append(Decision(cond, 0, fn, bb, frame, targets))
        yield st, _mk(OPT, 'Some', ('bin', 'Sub', a, b))


for _ity in ('usize', 'u8', 'u16', 'u32', 'u64', 'u128'):
    COMBINATORS['core::num::<impl %s>::checked_sub' % _ity] = _checked_sub


def _slice_get(it, st, args, fn, bb, frame, t, depth, site):
    # std contract: s.get(i) = if i < s.len() { Some(&s[i]) } else { None }   (element index only; ranges stay opaque)
    if len(args) != 2:
        return
    dest = t.get('dest') or {}
    try:
        dty = fn.locals[dest['l']]['ty'] if not dest.get('pr') else ''
    except Exception:
        dty = ''
    if not re.match(r'^(core|std)::option::Option<&', dty) or re.match(r'^(core|std)::option::Option<&(mut )?\[', dty):
        return
    s_, i_ = args
    opaque = ('call', 'core::slice::<impl [T]>::get', tuple(args), site)
    elem = ('ref', (s_[1][0], s_[1][1] + (('idx', i_),)), False) if s_[0] == 'ref' else ('ref', (('ptr', s_), (('idx', i_),)), False)
    for st2, var, pay in it._fork_variant(st, opaque, OPT, fn, bb, frame):
        yield st2, (_mk(OPT, 'Some', elem) if var == 'Some' else _mk(OPT, 'None'))


COMBINATORS['core::slice::<impl [T]>::get'] = _slice_get

def _fork_bool(it, st, b, fn, bb, frame):
    """generator of (state, bool): the decision `if b {..} else {..}` would take"""
    sb = strip(b)
    if sb[0] == 'c' and isinstance(sb[1], bool):
        yield st, sb[1]
        return
    targets = [(0, None), (1, None)]
    known = st.memo.get(b)
    if known in (0, 1):
        yield st, bool(known)
        return
    s2 = st.copy()
    s2.memo[b] = 1
    s2.decisions.append(Decision(b, 1, fn, bb, frame, targets))
    yield s2, True
    st.memo[b] = 0
    st.decisions.append(Decision(b, 0, fn, bb, frame, targets))
    yield st, False


def _then_some(it, st, args, fn, bb, frame, t, depth, site):
    # b.then_some(v) = if b { Some(v) } else { None }
    if len(args) != 2:
        return
    for st2, tv in _fork_bool(it, st, args[0], fn, bb, frame):
        yield st2, (_mk(OPT, 'Some', args[1]) if tv else _mk(OPT, 'None'))


def _then(it, st, args, fn, bb, frame, t, depth, site):
    # b.then(f) = if b { Some(f()) } else { None }
    if len(args) != 2:
        return
    ctx = (fn, bb, frame, t, depth, site)
    for st2, tv in _fork_bool(it, st, args[0], fn, bb, frame):
        if tv:
            for out in _app(it, st2, args[1], [], ctx, lambda r: _mk(OPT, 'Some', r)):
                yield out
        else:
            yield st2, _mk(OPT, 'None')


COMBINATORS['core::bool::<impl bool>::then_some'] = _then_some
COMBINATORS['core::bool::<impl bool>::then'] = _then


def _transpose_res(it, st, args, fn, bb, frame, t, depth, site):
    # Result<Option<T>, E> -> Option<Result<T, E>>
    for st2, var, pay in it._fork_variant(st, args[0], RES, fn, bb, frame):
        if var == 'Err':
            yield st2, _mk(OPT, 'Some', _mk(RES, 'Err', pay))
        else:
            for st3, v2, p2 in it._fork_variant(st2, pay, OPT, fn, bb, frame):
                if v2 == 'None':
                    yield st3, _mk(OPT, 'None')
                else:
                    yield st3, _mk(OPT, 'Some', _mk(RES, 'Ok', p2))


COMBINATORS['core::result::Result::transpose'] = _transpose_res

def _extend_option(it, st, args, fn, bb, frame, t, depth, site):
    # vec.extend(opt) where opt is an Option whose variant is known on this path: `if let Some(x) = opt { vec.push(x) }`
    if len(args) != 2:
        return
    o = strip(args[1])
    if not (o[0] == 'agg' and o[1] == 'adt' and o[2] == OPT):
        return
    if o[3] == 'Some':
        st.effects.append(Effect('call', (None, 'std::vec::Vec::push', (args[0], o[4][0][1]), site), fn, bb, frame, t, len(st.decisions)))
    yield st, UNIT


COMBINATORS['<std::vec::Vec<T, A> as core::iter::Extend<T>>::extend'] = _extend_option

def _iter_consumer(kind):
    """`iter.for_each(f)` / `iter.try_for_each(f)` executed as the loop they are documented to be -
    `for x in iter { f(x) }` / `for x in iter { f(x)?; } Ok(())` - unrolled like any other loop (same bound, same decisions on `next`)"""
    def h(it, st, args, fn, bb, frame, t, depth, site):
        if len(args) != 2:
            return
        f = strip(args[1])
        if not (f[0] == 'agg' and f[1] == 'closure') and not (f[0] == 'c' and isinstance(f[1], tuple) and f[1] and f[1][0] == 'fn'):
            return
        ctx = (fn, bb, frame, t, depth, site)
        bound = max(1, it.loop_bound - 1)

        recv = args[0]
        if recv[0] == 'ref' and len(recv) == 3:
            # (`try_for_each` takes `&mut self`: carry what the reference points at, as call values do)
            try:
                recv = ('ref', recv[1], recv[2], it._read_lv(st, recv[1]))
            except Exception:
                recv = args[0]

        src_ = strip(recv[3]) if recv[0] == 'ref' and len(recv) > 3 else strip(recv)
        gen = src_[2][0] if src_[0] == 'call' and re.search(r'core::iter(::sources::from_fn)?::from_fn$', src_[1]) and src_[2] else None

        def items(st_, k):
            if gen is not None:
                # iter::from_fn(g): `next()` is `g()`
                for st2, r in _app(it, st_, gen, [], ctx):
                    if r is None:
                        continue
                    for out in it._fork_variant(st2, r, OPT, fn, bb, frame):
                        yield out
            else:
                nxt = ('call', 'core::iter::Iterator::next', (recv,), (site[0], site[1], 'iter%d' % k))
                for out in it._fork_variant(st_, nxt, OPT, fn, bb, frame):
                    yield out

        def step(st_, k):
            for st2, var, pay in items(st_, k):
                if var == 'None':
                    yield st2, (UNIT if kind == 'for_each' else _mk(RES, 'Ok', UNIT))
                elif k < bound:
                    for st3, r in _app(it, st2, args[1], [pay], ctx):
                        if r is None:
                            yield st3, None
                        elif kind == 'for_each':
                            for out in step(st3, k + 1):
                                yield out
                        else:
                            sr = strip(r)
                            adt = RES if not (sr[0] == 'agg' and sr[2] == OPT) else OPT
                            for st4, v2, p2 in it._fork_variant(st3, r, adt, fn, bb, frame):
                                if v2 in ('Ok', 'Some'):
                                    for out in step(st4, k + 1):
                                        yield out
                                else:
                                    yield st4, r        # (the failure itself, handed on)
                # (more than `bound` elements: cut, like the paths of an explicit loop beyond the bound)
        for out in step(st, 0):
            yield out
    return h


COMBINATORS['core::iter::Iterator::for_each'] = _iter_consumer('for_each')
COMBINATORS['core::iter::Iterator::try_for_each'] = _iter_consumer('try_for_each')

def _unwrap_or_default(adt):
    def h(it, st, args, fn, bb, frame, t, depth, site):
        if not args:
            return
        for st2, var, pay in it._fork_variant(st, args[0], adt, fn, bb, frame):
            if var in ('Some', 'Ok'):
                yield st2, pay
            else:
                yield st2, ('call', '<T as core::default::Default>::default', (), site)
    return h


COMBINATORS['core::option::Option::unwrap_or_default'] = _unwrap_or_default(OPT)
COMBINATORS['core::result::Result::unwrap_or_default'] = _unwrap_or_default(RES)

CF = 'core::ops::ControlFlow'


def _branch(it, st, args, fn, bb, frame, t, depth, site):
    # `?` on a value whose variant is already known on this path (it was built by a combinator above): no second decision
    x = strip(args[0]) if args else ('unk', '')
    if x[0] == 'call' and re.search(r'FromResidual<.*>>?::from_residual$', x[1]) and CF in it.facts.adts:
        # `expr?` where expr is itself the early return of an inner `?` (a helper that was opened up): the failure passes through
        yield st, _mk(CF, 'Break', args[0])
        return
    if x[0] == 'agg' and x[1] == 'adt' and x[2] in (OPT, RES) and CF in it.facts.adts:
        if x[3] in ('Some', 'Ok'):
            yield st, _mk(CF, 'Continue', x[4][0][1])
        elif x[2] == OPT:
            yield st, _mk(CF, 'Break', _mk(OPT, 'None'))
        else:
            yield st, _mk(CF, 'Break', _mk(RES, 'Err', x[4][0][1]))


COMBINATORS['<core::result::Result<T, E> as core::ops::Try>::branch'] = _branch
COMBINATORS['<core::option::Option<T> as core::ops::Try>::branch'] = _branch


class Interp:
    def __init__(self, facts, inline=None, contracts=None, loop_bound=2, max_paths=20000, max_depth=3, mode=None):
        self.facts = facts
        self.mode = dict(MODE)
        self.mode.update(mode or {})
        user_inline = inline or (lambda callee_fn, depth, name: False)
        self.user_inline = user_inline
        if self.mode.get('inline_private'):
            self.inline = lambda callee_fn, depth, name: bool(user_inline(callee_fn, depth, name)) or is_new_helper(callee_fn)
            max_depth = max(max_depth, 4)
        else:
            self.inline = user_inline
        self.contracts = dict(STD_CONTRACTS)
        self.contracts.update(contracts or {})
        self.loop_bound = loop_bound
        self.max_paths = max_paths
        self.max_depth = max_depth
        self.npaths = 0

    # ------------------------------------------------------------------ public
    def run(self, fn, args=None):
        st = State()
        for i in range(1, fn.arg_count + 1):
            st.env[(0, i)] = args[i - 1] if args and i - 1 < len(args) and args[i - 1] is not None else ('param', 0, i)
        out = []
        for st2, outcome in self._exec(fn, 0, 0, st, 0):
            out.append(Path(st2, outcome))
            self.npaths += 1
            if self.npaths > self.max_paths:
                raise Budget('path budget exceeded in %s' % fn.defp)
        return out

    # ------------------------------------------------------------------ lvalues
    def _lvalue(self, st, frame, place):
        root = ('local', frame, place['l'])
        path = ()
        for e in place['pr']:
            if e == 'deref':
                cur = self._read_lv(st, (root, path))
                if cur[0] == 'ref':
                    root, path = cur[1]
                else:
                    root, path = ('ptr', cur), ()
            elif isinstance(e, dict):
                if 'f' in e:
                    if e.get('adt') in getattr(self.facts, 'transparent', ()):
                        continue       # the single field of a wrapper struct that does not exist on the reference tree
                    nm_ = str(e.get('name', e['f']))
                    rel_ = getattr(self.facts, 'relocated', None)
                    if rel_ and e.get('adt') in rel_ and path and path[-1][0] == 'f' and (path[-1][1], nm_) in rel_[e['adt']]:
                        # fields of the reference tree that were merged into a nested struct (Facts.relocated): `s.g.h` is the place `s.f` was
                        path = path[:-1] + (('f', rel_[e['adt']][(path[-1][1], nm_)]),)
                        continue
                    path = path + (('f', nm_),)
                elif 'downcast' in e:
                    path = path + (('dc', e['downcast']),)
                elif 'index' in e:
                    iv = st.env.get((frame, e['index']), ('unk', 'idx'))
                    path = path + (('idx', iv),)
                elif 'cidx' in e:
                    path = path + (('idx', C(e['cidx']), e.get('from_end', False)),)
                else:
                    path = path + (('other', str(e)),)
            else:
                path = path + (('other', str(e)),)
        return (root, path)

    def _project(self, st, v, e):
        if v[0] == 'overlay':
            exact = [x for sub, x in v[2] if sub == (e,)]
            if exact:
                return exact[0]
            deeper = tuple((sub[1:], x) for sub, x in v[2] if len(sub) > 1 and sub[0] == e)
            base = self._project(st, v[1], e)
            return ('overlay', base, deeper) if deeper else base
        if e[0] == 'f':
            name = e[1]
            relp_ = getattr(self.facts, 'relocated_pairs', None)
            if relp_ and v[0] == 'field' and (v[2], name) in relp_:
                return ('field', v[1], relp_[(v[2], name)])     # (the nested struct moved out as a whole, then one of its fields read)
            if v[0] == 'agg':
                for n, x in v[4]:
                    if n == name:
                        return x
                return ('unk', 'nofield:%s' % name)
            return ('field', v, name)
        if e[0] == 'dc':
            if v[0] == 'agg':
                if v[3] == e[1]:
                    return v
                return ('unk', 'bad-downcast')
            return ('as', v, e[1])
        if e[0] == 'deref':
            if v[0] == 'ref':
                return self._read_lv(st, v[1])
            return ('deref', v)
        if e[0] == 'idx':
            return ('index', v, e[1])
        return ('unk', 'proj')

    def _read_lv(self, st, lv):
        root, path = lv
        # longest heap prefix
        for n in range(len(path), -1, -1):
            key = (root, path[:n])
            if n == 0 and root[0] == 'local':
                break
            if key in st.heap:
                v = st.heap[key]
                for e in path[n:]:
                    v = self._project(st, v, e)
                return v
        if root[0] == 'local':
            v = st.env.get((root[1], root[2]), ('unk', 'uninit:_%d' % root[2]))
        else:
            v = ('deref', root[1])
        for e in path:
            v = self._project(st, v, e)
        # field-wise writes recorded in the heap below this place: overlay them on the base value
        ovs = [(k[1][len(path):], x) for k, x in st.heap.items() if k[0] == root and len(k[1]) > len(path) and k[1][:len(path)] == path]
        if ovs:
            v = ('overlay', v, tuple(sorted(ovs, key=repr)))
        return v

    def _write_lv(self, st, lv, v, fn, bb, frame):
        root, path = lv
        if root[0] == 'local' and not path:
            st.env[(root[1], root[2])] = v
            for k in [k for k in st.heap if k[0] == root]:
                del st.heap[k]
            return
        # try in-place aggregate update for locals
        if root[0] == 'local':
            cur = st.env.get((root[1], root[2]))
            upd = self._update(cur, path, v) if cur is not None else None
            if upd is not None:
                st.env[(root[1], root[2])] = upd
                return
        for k in [k for k in st.heap if k[0] == root and k[1][:len(path)] == path]:
            del st.heap[k]
        st.heap[(root, path)] = v
        if root[0] == 'ptr':
            st.effects.append(Effect('write', (lv, v), fn, bb, frame, ndec=len(st.decisions)))

    def _update(self, cur, path, v):
        if not path:
            return v
        e = path[0]
        if cur[0] == 'agg' and e[0] == 'f':
            fields = list(cur[4])
            for i, (n, x) in enumerate(fields):
                if n == e[1]:
                    nx = self._update(x, path[1:], v)
                    if nx is None:
                        return None
                    fields[i] = (n, nx)
                    return ('agg', cur[1], cur[2], cur[3], tuple(fields))
            return None
        if cur[0] == 'agg' and e[0] == 'dc' and cur[3] == e[1]:
            return self._update(cur, path[1:], v)
        return None

    # ------------------------------------------------------------------ operands / rvalues
    def _const(self, c):
        if 'fn' in c:
            return C(('fn', c['fn'], tuple(c.get('fn_args', ()))))
        if 'bool' in c:
            return C(bool(c['bool']))
        if 'int' in c:
            return C(int(c['int']))
        if 'promoted' in c:
            return ('promoted', c['promoted'], c.get('ty'))
        if c.get('ty') == '()':
            return UNIT
        return C(('repr', c.get('repr', '?'), c.get('ty')))

    def _operand(self, st, frame, op, fn):
        if 'cp' in op:
            return self._read_lv(st, self._lvalue(st, frame, op['cp']))
        if 'mv' in op:
            return self._read_lv(st, self._lvalue(st, frame, op['mv']))
        v = self._const(op['c'])
        if v[0] == 'promoted':
            # value of a promoted constant: evaluate its (straight-line) body
            try:
                pf = fn.promoted[v[1]] if fn.kind != 'promoted' else None
                if pf is not None:
                    it = Interp(self.facts, max_paths=50)
                    ps = it.run(pf)
                    if len(ps) == 1 and ps[0].outcome[0] == 'return':
                        r = ps[0].outcome[1]
                        if r[0] == 'ref' and r[1][0][0] == 'local':
                            # `&CONST`: re-home the referent in this state's heap under a synthetic pointer
                            sub = State()
                            sub.env, sub.heap = ps[0].env, ps[0].heap
                            val = it._read_lv(sub, r[1])
                            # constants are keyed by their value (two promoteds holding the same constant are the same
                            # referent; two holding different constants are told apart by every rule that compares values)
                            vr = show(val)
                            if 'unk' in vr or '?' in vr or len(vr) > 200:
                                key = (('ptr', ('promoted', fn.defp, v[1])), ())
                            else:
                                key = (('ptr', ('promoted', 'val', vr)), ())
                            st.heap[key] = val
                            return ('ref', key, False)
                        return r
            except Exception:
                pass
            return ('unk', 'promoted')
        return v

    def _flagenums(self):
        """two-variant enums of the current tree that stand for a bool field of the reference tree (see Facts.resolve_flags): their values
        are carried as that bool"""
        fe = getattr(self.facts, 'flagenums', None)
        if fe is None:
            self.facts.flagenums = {}
            try:
                self.facts.resolve_flags()
            except Exception:
                self.facts.flagenums = {}
            fe = self.facts.flagenums
        return fe

    def _binop(self, op, a, b):
        base = op.replace('WithOverflow', '').replace('Unchecked', '')
        if base in ('Eq', 'Ne') and a[0] == 'discr' and b[0] == 'discr' and a[2] == b[2] and a[2] in self._flagenums():
            # comparing the discriminants of two values of such an enum compares the bools they stand for
            x, y = a[1], b[1]
            if x[0] == 'c' and isinstance(x[1], bool):
                x, y = y, x
            if y[0] == 'c' and isinstance(y[1], bool):
                return x if (y[1] is True) == (base == 'Eq') else _not(x)
            return ('bin', base, x, y)
        for p_, q_ in ((a, b), (b, a)):
            if base in ('Eq', 'Ne') and p_[0] == 'discr' and p_[2] in self._flagenums() and q_[0] == 'c' and isinstance(q_[1], int) and not isinstance(q_[1], bool):
                fe_ = self._flagenums()[p_[2]]
                if q_[1] in (fe_['true_discr'], fe_['false_discr']):
                    return p_[1] if (q_[1] == fe_['true_discr']) == (base == 'Eq') else _not(p_[1])
        if a[0] == 'c' and b[0] == 'c' and isinstance(a[1], (int, bool)) and isinstance(b[1], (int, bool)):
            x, y = a[1], b[1]
            try:
                r = {'Add': lambda: x + y, 'Sub': lambda: x - y, 'Mul': lambda: x * y,
                     'Eq': lambda: x == y, 'Ne': lambda: x != y, 'Lt': lambda: x < y, 'Le': lambda: x <= y,
                     'Gt': lambda: x > y, 'Ge': lambda: x >= y,
                     'BitAnd': lambda: x & y, 'BitOr': lambda: x | y, 'BitXor': lambda: x ^ y}[base]()
                res = C(r)
            except KeyError:
                res = ('bin', base, a, b)
        else:
            res = ('bin', base, a, b)
        if 'WithOverflow' in op:
            return ('agg', 'tuple', '', '', (('0', res), ('1', C(False))))
        return res

    def _rvalue(self, st, frame, rv, fn):
        if 'use' in rv:
            return self._operand(st, frame, rv['use'], fn)
        if 'ref' in rv:
            return ('ref', self._lvalue(st, frame, rv['ref']), bool(rv.get('mut')))
        if 'rawptr' in rv:
            return ('ref', self._lvalue(st, frame, rv['rawptr']), bool(rv.get('mut')))
        if 'bin' in rv:
            return self._binop(rv['bin'], self._operand(st, frame, rv['l'], fn), self._operand(st, frame, rv['r'], fn))
        if 'un' in rv:
            x = self._operand(st, frame, rv['x'], fn)
            if rv['un'] == 'Not' and x[0] == 'c' and isinstance(x[1], bool):
                return C(not x[1])
            if rv['un'] == 'PtrMetadata':
                return ('un', 'len', x)
            return ('un', rv['un'], x)
        if 'discr' in rv:
            v = self._read_lv(st, self._lvalue(st, frame, rv['discr']))
            adt = rv.get('adt')
            fe = self._flagenums().get(adt)
            if fe and v[0] == 'c' and isinstance(v[1], bool):
                return C(fe['true_discr'] if v[1] else fe['false_discr'])
            if v[0] == 'agg' and v[1] == 'adt':
                d = self.facts.discr_of_variant(v[2], v[3])
                if d is not None:
                    return C(d)
            return ('discr', v, adt)
        if 'agg' in rv:
            ops = [self._operand(st, frame, o, fn) for o in rv['ops']]
            kind = rv['agg']
            relo_ = getattr(self.facts, 'relocated_owner', None)
            if kind == 'adt' and relo_ and rv.get('adt') in relo_:
                names_ = rv.get('fields', [])
                out_ = []
                for i_, o_ in enumerate(ops):
                    n_ = names_[i_] if i_ < len(names_) else str(i_)
                    via_ = relo_[rv['adt']].get(n_)
                    if via_ and o_[0] == 'agg' and o_[1] == 'adt' and o_[2] == via_['nested']:
                        for h_, x_ in o_[4]:
                            out_.append((via_['map'].get(h_, h_), x_))
                    else:
                        out_.append((n_, o_))
                return ('agg', 'adt', rv['adt'], rv['variant'], tuple(out_))
            if kind == 'adt' and rv.get('adt') in self._flagenums() and not ops:
                return C(rv.get('variant') == self._flagenums()[rv['adt']]['true_variant'])
            if kind == 'adt':
                names = rv.get('fields', [])
                if len(ops) == 1 and rv['adt'] in getattr(self.facts, 'transparent', ()):
                    return ops[0]      # a wrapper struct introduced around an existing value (see Facts.transparent): seen through
                return ('agg', 'adt', rv['adt'], rv['variant'], tuple((names[i] if i < len(names) else str(i), o) for i, o in enumerate(ops)))
            if kind in ('closure', 'coroutine', 'coroutine_closure'):
                names = rv.get('fields', [])
                return ('agg', 'closure', rv['closure'], '', tuple((names[i] if i < len(names) else str(i), o) for i, o in enumerate(ops)))
            return ('agg', kind, '', '', tuple((str(i), o) for i, o in enumerate(ops)))
        if 'cast' in rv:
            x = self._operand(st, frame, rv['x'], fn)
            k = rv['cast']
            if k.startswith('PointerCoercion') or k in ('Transmute', 'PtrToPtr', 'Subtype'):
                return x
            if k == 'IntToInt' and x[0] == 'c':
                return x
            return ('cast', k, x)
        if 'repeat' in rv:
            return ('agg', 'repeat', '', '', (('0', self._operand(st, frame, rv['repeat'], fn)),))
        return ('unk', 'rvalue:%s' % list(rv.keys())[0])

    # ------------------------------------------------------------------ execution
    def _exec(self, fn, frame, bb, st, depth):
        """generator of (state, outcome) for every path from block bb of fn in the given frame"""
        stack = [(bb, st)]
        while stack:
            bb, st = stack.pop()
            while True:
                key = (frame, bb)
                n = st.visits.get(key, 0)
                if n >= self.loop_bound:
                    break   # path cut at loop bound (not reported as a path)
                st.visits[key] = n + 1
                st.trace.append((fn.defp, bb))
                blk = fn.blocks[bb]
                for s in blk['stmts']:
                    if s['k'] == 'assign':
                        v = self._rvalue(st, frame, s['rv'], fn)
                        self._write_lv(st, self._lvalue(st, frame, s['p']), v, fn, bb, frame)
                    elif s['k'] == 'setdiscr':
                        lv = self._lvalue(st, frame, s['p'])
                        self._write_lv(st, lv, ('as', ('unk', 'setdiscr'), s['variant']), fn, bb, frame)
                t = blk['term']
                k = t['k']
                if k == 'goto':
                    bb = t['target']
                    continue
                if k == 'return':
                    yield st, ('return', self._read_lv(st, (('local', frame, 0), ())))
                    break
                if k == 'unreachable':
                    yield st, ('unreachable',)
                    break
                if k in ('resume', 'terminate', 'coroutine_drop'):
                    yield st, (k,)
                    break
                if k == 'assert':
                    st.effects.append(Effect('assert', t['msg'], fn, bb, frame, t, len(st.decisions)))
                    bb = t['target']
                    continue
                if k == 'drop':
                    v = self._read_lv(st, self._lvalue(st, frame, t['p']))
                    st.effects.append(Effect('drop', (v, t.get('ty')), fn, bb, frame, t, len(st.decisions)))
                    bb = t['target']
                    continue
                if k == 'yield':
                    st.effects.append(Effect('yield', self._operand(st, frame, t['value'], fn), fn, bb, frame, t, len(st.decisions)))
                    bb = t['resume']
                    continue
                if k == 'switch':
                    v = self._operand(st, frame, t['on'], fn)
                    targets = [(int(x[0]), x[1]) for x in t['targets']]
                    if v[0] == 'discr' and v[2] in self._flagenums():
                        # `match flag { A => .., B => .. }` on an enum that stands for a bool: a decision on that bool
                        fe_ = self._flagenums()[v[2]]
                        v = v[1]
                        targets = [((1 if val == fe_['true_discr'] else 0), tb) for val, tb in targets if val in (fe_['true_discr'], fe_['false_discr'])]
                        t = dict(t, on_ty='bool')
                    if v[0] == 'c' and isinstance(v[1], (int, bool)):
                        iv = int(v[1])
                        nb = t['otherwise']
                        for val, tb in targets:
                            if val == iv:
                                nb = tb
                        bb = nb
                        continue
                    if v in st.memo:
                        br = st.memo[v]
                        if isinstance(br, int):
                            nb = t['otherwise']
                            for val, tb in targets:
                                if val == br:
                                    nb = tb
                            bb = nb
                            continue
                        # previous 'otherwise' with excluded set: feasible targets = not excluded
                        excl = set(br[1])
                        cands = [(val, tb) for val, tb in targets if val not in excl]
                    else:
                        excl = set()
                        cands = targets
                    allvals = tuple(sorted(set(val for val, _ in targets) | excl))
                    branches = [(val, tb) for val, tb in cands]
                    other_reachable = not self._is_exhaustive(v, allvals, fn, t)
                    forks = []
                    for val, tb in branches:
                        forks.append((val, tb))
                    if other_reachable:
                        forks.append((('otherwise', allvals), t['otherwise']))
                    if not forks:
                        break
                    # fork
                    for i, (br, tb) in enumerate(forks):
                        s2 = st.copy() if i < len(forks) - 1 else st
                        s2.memo[v] = br
                        s2.decisions.append(Decision(v, br, fn, bb, frame, targets))
                        stack.append((tb, s2))
                    break
                if k in ('call', 'tailcall'):
                    done = False
                    for st2, res in self._call(fn, frame, bb, t, st, depth):
                        if res is None:
                            # diverged inside or at the call
                            yield st2, st2._outcome
                        else:
                            if t.get('target') is None:
                                yield st2, ('diverge', callee_name(t), (), t, fn, bb)
                            else:
                                self._write_lv(st2, self._lvalue(st2, frame, t['dest']), res, fn, bb, frame)
                                stack.append((t['target'], st2))
                        done = True
                    break
                raise Unsupported('terminator %s in %s' % (k, fn.defp))

    # ------------------------------------------------------------------ std combinators (mode 'combinators')
    def _fork_variant(self, st, x, adt, fn, bb, frame):
        """generator of (state, variant name, payload or None): the decision an equivalent `match x { .. }` would take"""
        sx = strip(x)
        if sx[0] == 'agg' and sx[1] == 'adt' and sx[2] == adt:
            yield st, sx[3], (sx[4][0][1] if sx[4] else None)
            return
        a = self.facts.adts.get(adt)
        if not a:
            return
        dv = ('discr', x, adt)
        if sx[0] == 'call' and re.search(r'FromResidual<.*>>?::from_residual$', sx[1]) and adt in (OPT, RES):
            # the value of `expr?`'s early return: the failure variant by construction
            bad = 'None' if adt == OPT else 'Err'
            d = [v['discr'] for v in a['variants'] if v['name'] == bad][0]
            st.memo[dv] = d
            yield st, bad, (('field', ('as', x, bad), '0') if adt == RES else None)
            return
        variants = [(v['discr'], v['name'], bool(v['fields'])) for v in a['variants']]
        if dv in st.memo and isinstance(st.memo[dv], int):
            variants = [v for v in variants if v[0] == st.memo[dv]]
            record = False
        else:
            record = True
        targets = [(v[0], None) for v in a['variants'] for v in [(v['discr'],)]]
        for i, (d, nm, has_payload) in enumerate(variants):
            s2 = st.copy() if i < len(variants) - 1 else st
            if record:
                s2.memo[dv] = d
                s2.decisions.append(Decision(dv, d, fn, bb, frame, targets))
            yield s2, nm, (('field', ('as', x, nm), '0') if has_payload else None)

    def _apply(self, st, f, argvals, fn, bb, frame, t, depth, site):
        """generator of (state, result or None): the value of calling `f(argvals..)` where f is a constructor function, a closure
        literal (inlined) or something opaque"""
        sf = strip(f)
        if sf[0] == 'c' and isinstance(sf[1], tuple) and sf[1] and sf[1][0] == 'fn':
            nm = sf[1][1]
            last = nm.rsplit('::', 1)[-1]
            if last in ('Some',) and 'option' in nm or nm.endswith('prelude::v1::Some'):
                yield st, _mk(OPT, 'Some', *argvals)
                return
            if last in ('Ok', 'Err') and ('result' in nm or 'prelude' in nm):
                yield st, _mk(RES, last, *argvals)
                return
            adt_path = nm.rsplit('::', 1)[0] if '::' in nm else nm
            for cand, var in ((adt_path, last), (nm, last)):
                a = self.facts.adts.get(cand)
                if a and any(v['name'] == var for v in a['variants']):
                    yield st, _mk(cand, var, *argvals)
                    return
            from facts import strip_generics
            st.effects.append(Effect('call', (None, strip_generics(nm), tuple(argvals), site), fn, bb, frame, t, len(st.decisions)))      # (an opaque function item applied by a combinator is a call like any other)
            yield st, ('call', strip_generics(nm), tuple(argvals), site)
            return
        inner = sf
        if inner[0] == 'ref':
            try:
                inner = self._read_lv(st, inner[1])
            except Exception:
                inner = sf
        if inner[0] == 'agg' and inner[1] == 'closure' and inner[2] in self.facts.fns and depth < self.max_depth + 1:
            target_fn = self.facts.fns[inner[2]]
            selfarg = sf
            want_ref = target_fn.locals[1]['ty'].startswith('&') if len(target_fn.locals) > 1 else False
            if want_ref and sf[0] != 'ref':
                selfarg = ('ref', (('ptr', ('tmpclosure', inner)), ()), False)
                st.heap[(('ptr', ('tmpclosure', inner)), ())] = inner
            if not want_ref and sf[0] == 'ref':
                selfarg = inner
            bind = [selfarg] + list(argvals)
            nf = st.nframes
            st.nframes += 1
            for i in range(1, target_fn.arg_count + 1):
                st.env[(nf, i)] = bind[i - 1] if i - 1 < len(bind) else ('unk', 'arg')
            st.effects.append(Effect('inline_enter', 'closure', fn, bb, frame, t, len(st.decisions)))
            for st2, outcome in self._exec(target_fn, nf, 0, st, depth + 1):
                if outcome[0] == 'return':
                    st2.effects.append(Effect('inline_exit', 'closure', fn, bb, frame, t, len(st2.decisions)))
                    yield st2, outcome[1]
                else:
                    st2._outcome = outcome
                    yield st2, None
            return
        yield st, ('call', 'core::ops::FnOnce::call_once', (f, _mk_tuple(argvals)), site)

    def _is_exhaustive(self, v, vals, fn, t):
        """switch targets cover all possible values (bool: {0,1}; enum discriminant: all variants)"""
        ty = t.get('on_ty')
        if ty == 'bool':
            return set(vals) >= {0, 1}
        if v[0] == 'discr' and v[2]:
            a = self.facts.adts.get(v[2])
            if a:
                return set(vals) >= set(x['discr'] for x in a['variants'])
        return False

    def _call(self, fn, frame, bb, t, st, depth):
        """generator of (state, result-or-None)"""
        name = callee_name(t)
        tw_ = twins(self.facts).get(callee_def(t)) if getattr(self.facts, '_twins', None) or callee_def(t) in self.facts.fns else None
        is_twin = bool(tw_) and getattr(fn, 'root', fn.defp) != tw_[0] and fn.defp != tw_[0]
        if is_twin:
            name = tw_[1]      # (a function whose body moved here from `name`, which now only forwards: see twins())
        args = tuple(self._operand(st, frame, a, fn) for a in t['args'])
        cdef = callee_def(t)
        if re.search(r'core::ops::(Fn|FnMut|FnOnce)::call(_mut|_once)?$', name) and args:
            # calling a function item through the Fn traits (`f(x)` where `f` is a parameter that was given `T::convert`, or
            # `opt.map(T::convert)` opened up) is a direct call of that function
            f0 = strip(args[0])
            if f0[0] == 'ref':
                try:
                    f0 = strip(self._read_lv(st, f0[1]))
                except Exception:
                    f0 = strip(args[0])
            if f0[0] == 'c' and isinstance(f0[1], tuple) and f0[1] and f0[1][0] == 'fn' and not re.search(r'::(Some|Ok|Err)$', str(f0[1][1])):
                from facts import strip_generics
                cdef = str(f0[1][1])
                name = strip_generics(cdef)
                if len(args) > 1 and args[1][0] == 'agg':
                    args = tuple(x for _, x in args[1][4])
                else:
                    args = tuple(args[1:])
        if 'indirect' in (t.get('callee') or {}) and t.get('func') is not None:
            # a call through a function pointer whose value on this path is a function item (`helper(T::convert)` opened up)
            try:
                f0 = strip(self._operand(st, frame, t['func'], fn))
            except Exception:
                f0 = ('unk', '')
            if f0[0] == 'c' and isinstance(f0[1], tuple) and f0[1] and f0[1][0] == 'fn' and not re.search(r'::(Some|Ok|Err)$', str(f0[1][1])):
                from facts import strip_generics
                cdef = str(f0[1][1])
                name = strip_generics(cdef)
        # call values/effects carry a snapshot of what each reference argument points at
        def snapped(a, depth=0):
            if a[0] == 'ref' and len(a) == 3:
                try:
                    snap = self._read_lv(st, a[1])
                except Exception:
                    snap = ('unk', 'snap')
                return ('ref', a[1], a[2], snap)
            if a[0] == 'agg' and depth < 2 and a[1] != 'closure':
                return ('agg', a[1], a[2], a[3], tuple((n, snapped(x, depth + 1)) for n, x in a[4]))
            return a
        sargs = tuple(snapped(a) for a in args)
        site = (fn.defp, bb, st.visits.get((frame, bb), 1))
        eff = Effect('call', (None, name, sargs, site), fn, bb, frame, t, len(st.decisions))
        st.effects.append(eff)
        # contracts
        for pat, f in self.contracts.items():
            if re.search(pat, name):
                r = f(self, st, name, args, t)
                if r is DIVERGE:
                    st._outcome = ('diverge', name, (), t, fn, bb)
                    yield st, None
                    return
                if r is not None:
                    yield st, r
                    return
        if name in ('<core::result::Result<T, E> as core::ops::Try>::branch', '<core::option::Option<T> as core::ops::Try>::branch') and not self.mode.get('combinators'):
            # `?` on a value whose variant is a literal on this path takes that variant's way (no decision to make) - in every mode
            got = False
            for st2, r in _branch(self, st, args, fn, bb, frame, t, depth, site):
                got = True
                yield st2, r
            if got:
                return
        if self.mode.get('combinators'):
            h = COMBINATORS.get(name)
            if h is not None:
                handled = False
                for st2, r in h(self, st, args, fn, bb, frame, t, depth, site):
                    handled = True
                    yield st2, r
                if handled:
                    return
        # inlining of local callee bodies
        target_fn = None
        bind = None
        if cdef in self.facts.fns:
            target_fn = self.facts.fns[cdef]
            bind = list(args)
        elif cdef == callee_def(t) and re.search(r'core::ops::(Fn|FnMut|FnOnce)::call(_mut|_once)?$', callee_unresolved(t)) and args:
            clo = args[0]
            inner = clo
            if inner[0] == 'ref':
                try:
                    inner = self._read_lv(st, inner[1])
                except Exception:
                    inner = clo
            if inner[0] == 'agg' and inner[1] == 'closure' and inner[2] in self.facts.fns:
                target_fn = self.facts.fns[inner[2]]
                # closure body takes self by the kind it was declared with; spread the arg tuple
                selfarg = clo
                want_ref = target_fn.locals[1]['ty'].startswith('&') if len(target_fn.locals) > 1 else False
                if want_ref and clo[0] != 'ref':
                    selfarg = ('ref', (('ptr', ('tmpclosure', inner)), ()), False)
                    st.heap[(('ptr', ('tmpclosure', inner)), ())] = inner
                if not want_ref and clo[0] == 'ref':
                    selfarg = inner
                spread = []
                if len(args) > 1 and args[1][0] == 'agg':
                    spread = [x for _, x in args[1][4]]
                elif len(args) > 1:
                    spread = [('field', args[1], str(i)) for i in range(target_fn.arg_count - 1)]
                bind = [selfarg] + spread
        negate = False
        if target_fn is None and name == 'core::cmp::PartialEq::ne' and len(args) == 2 and ((t.get('callee') or {}).get('resolved') or {}).get('trait_default'):
            # std's provided method: `fn ne(&self, other) -> bool { !self.eq(other) }` with the type's own (local) `eq`
            eqf = self.facts.fns.get('<%s as core::cmp::PartialEq>::eq' % (t['callee'].get('self_ty') or ''))
            if eqf is not None and eqf.arg_count == 2 and depth < self.max_depth and self.inline(eqf, depth, callee_name_of_fn(eqf)):
                target_fn, bind, negate = eqf, list(args), True
                name = callee_name_of_fn(eqf)
        if target_fn is not None and depth < self.max_depth and (self.user_inline(target_fn, depth, name) if is_twin else self.inline(target_fn, depth, name)):
            if negate:
                eff.kind = 'call_inlined'
            if not self.user_inline(target_fn, depth, name):
                eff.kind = 'call_inlined'      # an extracted helper opened up by the analysis mode: its body's effects follow, the call itself is not an effect
            nf = st.nframes
            st.nframes += 1
            for i in range(1, target_fn.arg_count + 1):
                st.env[(nf, i)] = bind[i - 1] if i - 1 < len(bind) else ('unk', 'arg')
            st.effects.append(Effect('inline_enter', name, fn, bb, frame, t, len(st.decisions)))
            for st2, outcome in self._exec(target_fn, nf, 0, st, depth + 1):
                self.npaths += 0
                if outcome[0] == 'return':
                    st2.effects.append(Effect('inline_exit', name, fn, bb, frame, t, len(st2.decisions)))
                    yield st2, (_not(outcome[1]) if negate else outcome[1])
                else:
                    st2._outcome = outcome
                    yield st2, None
            return
        # opaque call; re-evaluating a pure function on identical arguments yields the identical (symbolic) result
        if PURE.search(name):
            key = ('pure', name, sargs)
            if key in st.heap:
                yield st, st.heap[key]
                return
            res = ('call', name, sargs, site)
            st.heap[key] = res
            yield st, res
            return
        res = ('call', name, sargs, site)
        muts = []
        for a in args:
            if a[0] == 'ref' and a[2] and a[1][0][0] == 'local':
                muts.append(a[1])
            elif a[0] == 'agg' and a[1] == 'closure':
                # a closure literal handed to an opaque call (`iter.for_each(|x| v.push(x))`): what it captured mutably may be written by it
                for _, up in a[4]:
                    if up[0] == 'ref' and up[2] and up[1][0][0] == 'local':
                        muts.append(up[1])
        for lv in muts:
            old = self._read_lv(st, lv)
            self._write_lv(st, lv, ('havoc', site, old, name), fn, bb, frame)
        yield st, res


# ----------------------------------------------------------------------------------------------
# helpers for rules
# ----------------------------------------------------------------------------------------------

def strip(v):
    """peel transparent wrappers: havoc, refs to known values are NOT followed (no state)"""
    while isinstance(v, tuple) and v and v[0] in ('havoc',):
        v = v[2]
    return v


def is_call(v, regex):
    v = strip(v)
    return isinstance(v, tuple) and v and v[0] == 'call' and re.search(regex, v[1]) is not None


def subvalues(v, depth=0):
    """all sub-values of v (pre-order)"""
    yield v
    if depth > 40 or not isinstance(v, tuple):
        return
    k = v[0] if v else None
    if k == 'call':
        for a in v[2]:
            yield from subvalues(a, depth + 1)
    elif k == 'agg':
        for _, x in v[4]:
            yield from subvalues(x, depth + 1)
    elif k == 'ref':
        root, path = v[1]
        if root[0] == 'ptr':
            yield from subvalues(root[1], depth + 1)
        if len(v) > 3:
            yield from subvalues(v[3], depth + 1)
    elif k == 'overlay':
        yield from subvalues(v[1], depth + 1)
        for _, x in v[2]:
            yield from subvalues(x, depth + 1)
    elif k in ('field', 'deref', 'as', 'discr', 'havoc'):
        yield from subvalues(v[1] if k != 'havoc' else v[2], depth + 1)
    elif k == 'index':
        yield from subvalues(v[1], depth + 1)
    elif k == 'bin':
        yield from subvalues(v[2], depth + 1)
        yield from subvalues(v[3], depth + 1)
    elif k in ('un', 'cast'):
        yield from subvalues(v[2], depth + 1)


def mentions(v, pred):
    return any(pred(x) for x in subvalues(v))


def field_path(v):
    """for a value that is a chain of field/deref/as projections from a root value, return
    (root, [names...]) ; refs to pointer-rooted lvalues are followed"""
    names = []
    while True:
        v = strip(v)
        if v[0] == 'field':
            names.append(v[2])
            v = v[1]
        elif v[0] in ('deref', 'as'):
            v = v[1]
        elif v[0] == 'ref':
            root, path = v[1]
            for e in reversed(path):
                if e[0] == 'f':
                    names.append(e[1])
            if root[0] == 'ptr':
                v = root[1]
            else:
                return (root, list(reversed(names)))
        else:
            return (v, list(reversed(names)))


def linear(v):
    """normalise an integer-valued value into ({sym: coef}, const); None if not linear"""
    v = strip(v)
    if v[0] == 'c' and isinstance(v[1], (int,)) and not isinstance(v[1], bool):
        return ({}, v[1])
    if v[0] == 'bin' and v[1] in ('Add', 'Sub'):
        a = linear(v[2])
        b = linear(v[3])
        if a is None or b is None:
            return None
        sign = 1 if v[1] == 'Add' else -1
        terms = dict(a[0])
        for s, c in b[0].items():
            terms[s] = terms.get(s, 0) + sign * c
            if terms[s] == 0:
                del terms[s]
        return (terms, a[1] + sign * b[1])
    if v[0] == 'field' and v[2] == '0' and v[1][0] == 'agg' and v[1][1] == 'tuple':
        return linear(v[1][4][0][1])
    if v[0] == 'call' and re.search(r'::(wrapping|saturating|checked|unchecked)_(add|sub)$', v[1]) and len(v[2]) == 2:
        op = 'Add' if v[1].endswith('add') else 'Sub'
        return linear(('bin', op, v[2][0], v[2][1]))
    return ({v: 1}, 0)


CMP_FLIP = {'Lt': 'Gt', 'Le': 'Ge', 'Gt': 'Lt', 'Ge': 'Le', 'Eq': 'Eq', 'Ne': 'Ne'}
CMP_NEG = {'Lt': 'Ge', 'Le': 'Gt', 'Gt': 'Le', 'Ge': 'Lt', 'Eq': 'Ne', 'Ne': 'Eq'}


def _not(v):
    if v[0] == 'c' and isinstance(v[1], bool):
        return ('c', not v[1])
    if v[0] == 'un' and v[1] == 'Not':
        return v[2]
    return ('un', 'Not', v)


def as_comparison(v):
    """value -> (op, lhs, rhs) for a boolean comparison value, handling Not, PartialOrd/PartialEq
    method calls on integers (through refs is not resolved here); None otherwise"""
    v = strip(v)
    if v[0] == 'bin' and v[1] in CMP_FLIP:
        return (v[1], v[2], v[3])
    if v[0] == 'un' and v[1] == 'Not':
        c = as_comparison(v[2])
        if c:
            return (CMP_NEG[c[0]], c[1], c[2])
    if v[0] == 'call':
        m = re.search(r'core::cmp::(PartialOrd|PartialEq)::(lt|le|gt|ge|eq|ne)$', v[1])
        if m and len(v[2]) == 2:
            return (m.group(2).capitalize(), v[2][0], v[2][1])
    return None


def cmp_holds(op, d):
    """truth of `d op 0`"""
    return {'Lt': d < 0, 'Le': d <= 0, 'Gt': d > 0, 'Ge': d >= 0, 'Eq': d == 0, 'Ne': d != 0}[op]


def decision_truth(dec):
    """for a decision on a bool-typed value: True/False taken"""
    if isinstance(dec.branch, int):
        return dec.branch != 0
    # otherwise-branch of a bool switch with explicit 0 target => true
    excl = dec.branch[1]
    if set(excl) == {0}:
        return True
    if set(excl) == {1}:
        return False
    return None


def decision_variant(facts, dec):
    """for a decision on discr(v, adt): the variant name taken (or ('not', [names]))"""
    v = dec.value
    if v[0] != 'discr':
        return None
    adt = v[2]
    if isinstance(dec.branch, int):
        return facts.variant_by_discr(adt, dec.branch)
    excl = set(dec.branch[1])
    a = facts.adts.get(adt)
    if a:
        rest = [x['name'] for x in a['variants'] if x['discr'] not in excl]
        if len(rest) == 1:
            return rest[0]
        return ('oneof', tuple(rest))
    return None
