import facts


def configs(tier, quick=('std',), thorough=('std', 'mocks', 'nostd-spin', 'nostd')):
    return list(quick if tier == 'quick' else thorough)


def load(chk, config):
    F = facts.load(config)
    if config not in chk.configs:
        chk.configs.append(config)
    if getattr(F, 'rename_log', None):
        chk.extra['renamed_items'] = list(F.rename_log)
        chk.explain('Items renamed since the reference tree were mapped back to their reference names before the rules ran (see renamed_items); reports use the reference names.')
    return F
