"""C11 — the mock never turns one panic into a process abort (std builds)."""
from props import lifecycle as L
from props.util import configs, load

LEVEL = 'other'

LOCK_ALLOW = [
    (r'^panic_reasons$', [r'^std::vec::Vec::push$', r'^<std::vec::Vec<T, A> as core::clone::Clone>::clone$']),
    (r'^panicked$', []),
    (r'^(captured|mutex)$', [r'^core::option::Option::take$']),
]


def run(chk, tier):
    chk.explain('K2/K3: in the path-sensitive decision table of teardown every path that has not established '
                '`thread::panicking() == false` returns Ok, calls no explicit panic entry and no local function that can reach '
                'one; teardown_panic panics only in the Err arm; Drop::drop has no other panic site. K1: closures run under '
                'MutexIsh::locked call only mock-internal std code (no user code under a lock => no poisoning). R11.4: after a caught user panic '
                'verification reflects the calls actually matched: the match counter is bumped from one site, only for the pattern the selector '
                'returned, i.e. after every matcher / Debug call of the selection has returned.')
    for cfg in configs(tier, quick=('std', 'full'), thorough=('std', 'mocks', 'full')):
        F = load(chk, cfg)
        fn, paths, rows = L.teardown_table(chk, F, 'R11.1', cfg)
        L.no_panic_unless_not_panicking(chk, F, 'R11.1', cfg, fn, rows)
        L.teardown_pre_effects(chk, F, 'R11.2', cfg, fn, paths)
        L.teardown_panic_table(chk, F, 'R11.1.teardown_panic', cfg)
        d = L.drop_table(chk, F, 'R11.1.drop', cfg)
        sites = L.panic_sites(d)
        chk.ob('R11.1.drop', 'Drop::drop has no explicit panic site of its own', not sites, config=cfg, fn=d, site='panic-sites',
               what='panic site in Drop::drop', found=[s[1] for s in sites], expected=[])
        # every Drop impl of the crate that runs as part of dropping a Unimock
        vc = F.method('value_chain::ValueChain', 'drop', 'core::ops::Drop')
        mp = L.may_panic_map(F)
        chk.ob('R11.2', 'Drop for ValueChain cannot panic explicitly', not mp.get(vc.defp), config=cfg, fn=vc, site='panic-sites',
               what='panic site reachable from ValueChain::drop', found=mp.get(vc.defp), expected=[])
        L.locked_census(chk, F, 'R11.3', cfg, LOCK_ALLOW, 3)
        from props import evalcore as E
        efn, epaths, erows = E.eval_dyn_table(chk, F, 'R11.4.table', cfg)
        E.counting_discipline(chk, F, 'R11.4', cfg, efn, erows)
        # dropping while unwinding releases everything the instance owns (nothing is forgotten: a leaked helper clone would make the
        # original's later verification fail although no clone is reachable)
        from props import c13 as _c13, leaks as _leaks
        _c13.chain_teardown(chk, F, 'R11.5', cfg)
        _leaks.census(chk, F, 'R11.5', cfg)
