//@ expect: ok
//@ mentions: -
#![allow(unused)]
// `X::m.with_types::<A, B, ..>()` names the instantiation the generated method evaluates for the same type arguments in declaration order
// (trait-level parameters first, then the method's own): the answer function's parameter types - which must be the inputs of that very
// instantiation - only type-check if the turbofish binds the parameters in that order.
use unimock::*;

#[unimock(api = StoreMock)]
pub trait Store<K: 'static> {
    fn put<V: 'static>(&self, key: K, value: V) -> u8;
    fn swap<A: 'static, B: 'static>(&self, a: A, b: B, k: K) -> u8;
}

#[unimock(api = ShowMock)]
pub trait Show {
    fn pair<L: 'static, R: 'static>(&self, l: L, r: R) -> u8;
}

pub fn put_binds_trait_then_method() -> impl Clause {
    StoreMock::put.with_types::<u8, u16>().each_call(matching!(_, _)).answers(&|_, key: u8, value: u16| 0)
}
pub fn swap_binds_in_declaration_order() -> impl Clause {
    StoreMock::swap.with_types::<u8, u16, u32>().each_call(matching!(_, _, _)).answers(&|_, a: u16, b: u32, k: u8| 0)
}
pub fn pair_binds_in_declaration_order() -> impl Clause {
    ShowMock::pair.with_types::<u8, u16>().each_call(matching!(_, _)).answers(&|_, l: u8, r: u16| 0)
}
pub fn the_call_reaches_that_instantiation(u: &Unimock) -> u8 {
    <Unimock as Store<u8>>::put(u, 1u8, 2u16)
}
