"""K3: decision-table extraction and comparison with an oracle table.

A path (symex.Path) is abstracted to
    valuation : {atom -> frozenset of admissible values}   (from its decisions)
    outcome   : a label computed by the rule's outcome classifier
An oracle is a list of rows  (name, {atom -> set of values}, expected-outcome-label or predicate).

Semantics: every path whose valuation is *consistent* with a row (for every atom constrained by
both, the value sets intersect) must have that row's outcome; every row must be inhabited.
Decisions that are not atoms are tolerated as long as they do not separate different outcomes
within the same atom valuation; if they do, the instance is UNRECOGNISED (fail closed).
"""
from symex import show


IGNORE = 'ignore'


class Row:
    def __init__(self, path, valuation, unknown, outcome):
        self.path = path
        self.valuation = valuation
        self.unknown = unknown
        self.outcome = outcome

    def val_str(self):
        return ', '.join('%s∈{%s}' % (a, ','.join(str(x) for x in sorted(v, key=str))) for a, v in sorted(self.valuation.items()))


def abstract(paths, atomizer, outcome_of, universe=None):
    """atomizer(decision, path) -> None (not an atom) | IGNORE | (atom, set-of-values)
    Returns list of Row; paths whose valuation becomes empty (infeasible) are dropped."""
    rows = []
    for p in paths:
        val = {}
        unknown = []
        feasible = True
        for d in p.decisions:
            a = atomizer(d, p)
            if a is None:
                unknown.append(d)
                continue
            if a == IGNORE:
                continue
            atom, vals = a
            vals = frozenset(vals)
            if atom in val:
                val[atom] = val[atom] & vals
            else:
                val[atom] = vals
            if not val[atom]:
                feasible = False
                break
        if not feasible:
            continue
        rows.append(Row(p, val, unknown, outcome_of(p)))
    return rows


def consistent(valuation, constraint):
    for a, vs in constraint.items():
        if a in valuation and not (valuation[a] & frozenset(vs)):
            return False
    return True


def entails(valuation, constraint):
    """the path's valuation pins every constrained atom inside the row's set"""
    for a, vs in constraint.items():
        if a not in valuation or not (valuation[a] <= frozenset(vs)):
            return False
    return True


def check_table(chk, rule, fn, rows, oracle, config='', describe=None, require_inhabited=True):
    """oracle: list of (row_name, constraint dict, expected) where expected is a label, a set of
    labels, or a predicate(Row) -> bool."""
    ok_all = True
    for name, constraint, expected in oracle:
        inhabited = False
        for r in rows:
            if not consistent(r.valuation, constraint):
                continue
            inhabited = True
            if callable(expected):
                good = expected(r)
            elif isinstance(expected, (set, frozenset, list, tuple)):
                good = r.outcome in expected
            else:
                good = r.outcome == expected
            site = 'row:%s' % name
            exp_s = getattr(expected, '__doc__', None) if callable(expected) else expected
            ok = chk.ob(rule, 'decision table of %s, oracle row "%s"' % (fn.defp, name), good, config=config, fn=fn,
                        site=site, what='outcome=%s' % _label(r.outcome),
                        found={'path_valuation': r.val_str(), 'outcome': _label(r.outcome),
                               'decisions': [show(d.value) + ' -> ' + str(d.branch) for d in r.path.decisions][:12],
                               'ends_at': _end(r.path)},
                        expected={'row': name, 'constraint': {k: sorted(map(str, v)) for k, v in constraint.items()}, 'outcome': exp_s})
            ok_all = ok_all and ok
        if require_inhabited and not inhabited:
            chk.ob(rule, 'oracle row "%s" of %s is inhabited by some path' % (name, fn.defp), False, config=config, fn=fn,
                   site='row:%s' % name, what='row-uninhabited', unrecognised=True,
                   found='no path consistent with the row', expected=str(constraint))
            ok_all = False
    # unknown decisions separating outcomes
    groups = {}
    for r in rows:
        k = tuple(sorted((a, tuple(sorted(map(str, v)))) for a, v in r.valuation.items()))
        groups.setdefault(k, []).append(r)
    for k, rs in groups.items():
        outs = set(_label(r.outcome) for r in rs)
        if len(outs) > 1 and any(r.unknown for r in rs):
            unk = [show(d.value) for r in rs for d in r.unknown][:4]
            chk.ob(rule, 'branch on a non-atom separates outcomes %s in %s' % (sorted(outs), fn.defp), False, config=config,
                   fn=fn, site='non-atom-branch', what='non-atom:%s' % '/'.join(sorted(outs)), unrecognised=True,
                   found=unk, expected='all branch conditions that influence the outcome are atoms of the oracle table')
            ok_all = False
    return ok_all


def _label(o):
    return o if isinstance(o, str) else str(o)


def _end(path):
    if not path.trace:
        return None
    return 'bb%d of %s' % (path.trace[-1][1], path.trace[-1][0])
