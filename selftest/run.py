#!/usr/bin/env python3
"""Validates the checker itself (not part of any verdict).

Each mutant is a small textual edit of a scratch copy of /repo (outside /repo and /verif, removed
afterwards). Breaking mutants must make the named rule(s) of the named properties fire; harmless
variants must leave every listed check silent.

usage: selftest/run.py [--only id[,id..]] [--props C09,C11] [--keep]
"""
import json
import os
import shutil
import subprocess
import sys
import tempfile

HERE = os.path.dirname(os.path.abspath(__file__))
VERIF = os.path.dirname(HERE)
sys.path.insert(0, HERE)
from mutants import MUTANTS  # noqa: E402
if '--neutral' in sys.argv:
    del MUTANTS[:]
    import neutral  # noqa: E402,F401


def copy_repo(dst):
    subprocess.check_call(['rsync', '-a', '--exclude', 'target', '--exclude', '.git', '/repo/', dst + '/'])


def run_check(pid, repo, tier='quick'):
    env = dict(os.environ, VERIF_REPO=repo)
    r = subprocess.run([os.path.join(VERIF, 'check'), pid, '--tier', tier], env=env, capture_output=True, text=True, cwd=VERIF)
    return r.returncode, r.stdout + r.stderr


def _restore(p, src):
    if src is None:
        if os.path.exists(p):
            os.unlink(p)
    else:
        open(p, 'w').write(src)


def main():
    only = None
    props_filter = None
    if '--only' in sys.argv:
        only = set(sys.argv[sys.argv.index('--only') + 1].split(','))
    if '--props' in sys.argv:
        props_filter = set(sys.argv[sys.argv.index('--props') + 1].split(','))
    base = tempfile.mkdtemp(prefix='verif-selftest-')
    repo = os.path.join(base, 'repo')
    os.makedirs(repo)
    copy_repo(repo)
    results = []
    bad = 0
    # evidence files are rewritten by every check run: save and restore the committed ones
    evdir = os.path.join(VERIF, 'evidence')
    evsave = os.path.join(base, 'evidence-save')
    if os.path.isdir(evdir):
        shutil.copytree(evdir, evsave)
    try:
        for m in MUTANTS:
            if only and m['id'] not in only:
                continue
            if props_filter and not (set(m.get('expect', {})) | set(m.get('silent', []))) & props_filter:
                continue
            edits = m['edits']
            saved = {}
            ok_apply = True
            for (f, old, new) in edits:
                if f.startswith('mv:'):
                    src_p, dst_p = os.path.join(repo, old), os.path.join(repo, new)
                    saved.setdefault(src_p, open(src_p).read())
                    saved.setdefault(dst_p, None)
                    os.rename(src_p, dst_p)
                    continue
                if f.startswith('re:'):
                    import re as _re
                    nsub = 0
                    for root, _d, files in os.walk(os.path.join(repo, f[3:])):
                        for fn_ in files:
                            if fn_.endswith('.rs'):
                                p = os.path.join(root, fn_)
                                src = open(p).read()
                                new_src, k = _re.subn(old, new, src)
                                if k:
                                    saved.setdefault(p, src)
                                    open(p, 'w').write(new_src)
                                    nsub += k
                    if not nsub:
                        print('!! %s: regex %s matched nothing' % (m['id'], old))
                        ok_apply = False
                        break
                    continue
                p = os.path.join(repo, f)
                src = open(p).read()
                saved.setdefault(p, src)
                if src.count(old) != 1:
                    print('!! %s: edit anchor occurs %d times in %s' % (m['id'], src.count(old), f))
                    ok_apply = False
                    break
                open(p, 'w').write(src.replace(old, new))
            if not ok_apply:
                for p, src in saved.items():
                    _restore(p, src)
                bad += 1
                continue
            line = [m['id']]
            for pid, rule_rx in m.get('expect', {}).items():
                if props_filter and pid not in props_filter:
                    continue
                rc, out = run_check(pid, repo)
                fired = rc != 0 and 'VIOLATION property=%s' % pid in out
                import re
                rule_ok = bool(re.search(rule_rx, out)) if fired else False
                unrec = 'UNRECOGNISED' in out and 'VIOLATED' not in out
                status = 'FIRED' if fired and rule_ok else ('fired-other-rule' if fired else 'MISSED')
                if 'facts extraction failed' in out:
                    status = 'DOES-NOT-COMPILE'
                if status != 'FIRED':
                    bad += 1
                    print(out[-1500:])
                line.append('%s:%s%s' % (pid, status, '(unrecognised)' if unrec else ''))
            for pid in m.get('silent', []):
                if props_filter and pid not in props_filter:
                    continue
                rc, out = run_check(pid, repo)
                status = 'silent' if rc == 0 else 'FALSE-ALARM'
                if rc != 0:
                    bad += 1
                    print(out[-1500:])
                line.append('%s:%s' % (pid, status))
            print('  '.join(line))
            results.append(line)
            for p, src in saved.items():
                _restore(p, src)
    finally:
        if os.path.isdir(evsave):
            shutil.rmtree(evdir, ignore_errors=True)
            shutil.copytree(evsave, evdir)
        if '--keep' not in sys.argv:
            shutil.rmtree(base, ignore_errors=True)
    print('selftest: %d mutants, %d problems' % (len(results), bad))
    return 1 if bad else 0


if __name__ == '__main__':
    sys.exit(main())
