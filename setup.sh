#!/bin/sh
# Builds the analysis tools offline into /verif/.cache/tools (git-ignored, re-creatable).
set -e
cd "$(dirname "$0")"
export CARGO_NET_OFFLINE=true
mkdir -p .cache/tools
( cd engines/mirfacts && CARGO_TARGET_DIR="$PWD/../../.cache/tools/mirfacts" cargo build --release --offline )
[ -x .cache/tools/mirfacts/release/mirfacts ]
if [ -d engines/xpand/synq ]; then
  ( cd engines/xpand/synq && CARGO_TARGET_DIR="$PWD/../../../.cache/tools/synq" cargo build --release --offline )
fi
echo "setup ok"
