"""Rules over the evaluation core: eval::eval, DynCtx::eval_dyn, the selector (match_call_pattern),
CallPattern::next_responder, the two lookups, and the who-may-call census (C01 C02 C04 C07)."""
import re
import symex
from symex import show, is_call, strip, field_path, mentions, subvalues, as_comparison, linear, decision_truth, decision_variant
import tables
from tables import IGNORE
from props import lifecycle as L

OKV = {'Ok', 'Some', 'Continue'}
ERRV = {'Err', 'None', 'Break'}
PEEL_OK = re.compile(r'(Try>?::branch|Result::map_err)$')     # (plumbing that cannot change the Ok payload)


def peel_ok(v):
    v = strip(v)
    while v[0] == 'call' and PEEL_OK.search(v[1]) and v[2]:
        v = strip(v[2][0])
    return v


PEEL = re.compile(r'(Try>?::branch|Result::map_err|Option::ok_or_else|Option::ok_or|Result::map|Option::map|Option::as_ref|Result::as_ref)$')


def _is_downcast_payload(v):
    """the value is (a reference to) what `downcast_responder(..)?` yielded itself - the stored answer closure when the responder box holds
    it directly rather than inside a one-field struct"""
    v = strip(v)
    for _ in range(8):
        if v[0] == 'ref' and v[1][0][0] == 'ptr' and all(e == ('f', '0') or e[0] == 'dc' for e in v[1][1]):
            v = strip(v[1][0][1])
        elif v[0] == 'deref':
            v = strip(v[1])
        elif v[0] == 'field' and v[2] == '0' and strip(v[1])[0] == 'as' and strip(v[1])[2] in OKV:
            v = strip(strip(v[1])[1])
        elif v[0] == 'call' and PEEL_OK.search(v[1]) and v[2]:
            v = strip(v[2][0])
        else:
            break
    return is_call(v, r'DynCtx::downcast_responder$')


def peel_result(v):
    v = strip(v)
    while v[0] == 'call' and PEEL.search(v[1]) and v[2]:
        v = strip(v[2][0])
    return v


def discr_atom(F, d):
    """for a decision on discr(x): (source beneath ?-plumbing, polarity ok/err/variant, raw variant)"""
    v = strip(d.value)
    if v[0] != 'discr':
        return None
    var = decision_variant(F, d)
    if not isinstance(var, str):
        return (peel_result(v[1]), var, var)
    pol = 'ok' if var in OKV else ('err' if var in ERRV else var)
    return (peel_result(v[1]), pol, var)


def ret_label(p):
    o = p.outcome
    if o[0] == 'diverge':
        return 'panic:%s' % o[1].rsplit('::', 1)[-1]
    if o[0] != 'return':
        return o[0]
    v = strip(o[1])
    if v[0] == 'agg' and v[2] == 'core::result::Result':
        inner = strip(v[4][0][1])
        if v[3] == 'Err':
            if inner[0] == 'agg':
                return 'Err:%s' % inner[3]
            if inner[0] == 'call' and not re.search(r'to_string$', inner[1]):
                return 'Err:call(%s)' % inner[1].rsplit('::', 1)[-1]
            return 'Err:?%s' % show(inner)[:60]
        if inner[0] == 'agg':
            lab = 'Ok:%s' % inner[3]
            if inner[3] in ('Some',) and inner[2] == 'core::option::Option':
                return 'Ok:Some'
            if inner[3] == 'None':
                return 'Ok:None'
            if inner[3] == 'Continue' and inner[4]:
                c = strip(inner[4][0][1])
                if c[0] == 'agg':
                    lab += '(%s)' % c[3]
            return lab
        return 'Ok:?%s' % show(inner)[:60]
    if is_call(v, r'FromResidual.*::from_residual$'):
        a = strip(v[2][0])
        if a[0] == 'agg' and a[2] == 'core::result::Result' and a[3] == 'Err' and a[4]:
            # `Err(e)?` with e known on this path (built by a combinator that the analysis executed)
            return _err_label(strip(a[4][0][1]))
        if is_call(a, r'FromResidual.*::from_residual$'):
            # the early return of an inner `?` handed on by an outer one
            inner_path = type('P', (), {'outcome': ('return', a)})()
            return ret_label(inner_path)
        src = peel_result(a[1][1]) if a[0] == 'field' else ('unk', '')
        return 'Err:propagated(%s)' % (src[1].rsplit('::', 1)[-1] if src[0] == 'call' else '?')
    return 'other:%s' % show(v)[:80]


def _err_label(inner):
    if inner[0] == 'agg':
        return 'Err:%s' % inner[3]
    if inner[0] == 'call':
        return 'Err:call(%s)' % inner[1].rsplit('::', 1)[-1]
    return 'Err:?%s' % show(inner)[:60]


def is_self_field(v, names, param=1):
    root, ns = field_path(v)
    return root == ('param', 0, param) and ns == list(names)


# ------------------------------------------------------------------------------------------
# eval_dyn (R07.1, R01.3, R01.5)
# ------------------------------------------------------------------------------------------

def eval_dyn_atomizer(F):
    def atom(d, path):
        v = strip(d.value)
        if v[0] == 'discr':
            if L.is_iter_next(v):
                return IGNORE
            src, pol, var = discr_atom(F, d)
            if is_call(src, r'BTreeMap::get$') and mentions(src, lambda x: x[0] == 'ref' and x[1][1][-1:] == (('f', 'fn_mockers'),)):
                return ('mentioned', {1 if pol == 'ok' else 0})
            if is_call(src, r'^eval::DynCtx::match_call_pattern$'):
                return ('sel', {'some' if var == 'Some' else 'none' if var == 'None' else pol})
            if src[0] == 'field' and src[2] == '0' and strip(src[1])[0] == 'as' and is_call(peel_result(strip(src[1])[1]), r'^eval::DynCtx::match_call_pattern$'):
                return ('sel', {'some' if var == 'Some' else 'none'})
            if is_call(src, r'CallPattern::next_responder$'):
                return ('resp', {1 if pol == 'ok' else 0})
            root, ns = field_path(src)
            if ns[-1:] == ['fallback_mode'] and isinstance(var, str):
                return ('mode', {var})
            return None
        inner, t = L.truth_of(d)
        if t is None:
            return None
        if is_self_field(inner, ['info', 'has_default_impl']):
            return ('D', {int(t)})
        if is_self_field(inner, ['info', 'partial_by_default']):
            return ('P', {int(t)})
        return None
    return atom


def eval_dyn_table(chk, F, rule, cfg):
    fn = F.fn('eval::DynCtx::eval_dyn')
    # helpers that produce the same result type (or bool guards) are inlined, depth <= 2
    inline = lambda f, d, n: d < 2 and (('EvalResult' in f.locals[0]['ty']) or f.locals[0]['ty'] == 'bool' or (f.kind == 'closure' and 'MockError' in f.locals[0]['ty'])) and len(f.blocks) < 60  # noqa: E731
    paths = symex.Interp(F, inline=inline).run(fn)
    chk.analysed(fn)
    atom = eval_dyn_atomizer(F)

    def sel_fix(d, p):
        a = atom(d, p)
        if a and a != IGNORE and a[0] == 'sel':
            vals = a[1]
            # first decision (ok/err of the Result) then Some/None of its payload
            if vals == {'ok'}:
                return ('sel', {'some', 'none'})
        return a
    rows = tables.abstract(paths, sel_fix, ret_label)
    oracle = [
        ('unmentioned + default body => default impl', {'mentioned': {0}, 'D': {1}}, 'Ok:CallDefaultImpl'),
        ('unmentioned + partial-by-default => real impl', {'mentioned': {0}, 'D': {0}, 'P': {1}}, 'Ok:Unmock'),
        ('unmentioned, strict mock => NoMockImplementation', {'mentioned': {0}, 'D': {0}, 'P': {0}, 'mode': {'Error'}}, 'Err:NoMockImplementation'),
        ('unmentioned, partial mock => real impl', {'mentioned': {0}, 'D': {0}, 'P': {0}, 'mode': {'Unmock'}}, 'Ok:Unmock'),
        ('selector error is propagated', {'mentioned': {1}, 'sel': {'err'}}, 'Err:propagated(match_call_pattern)'),
        ('selected pattern with a response', {'mentioned': {1}, 'sel': {'some'}, 'resp': {1}}, 'Ok:Responder'),
        ('selected pattern without response', {'mentioned': {1}, 'sel': {'some'}, 'resp': {0}}, 'Err:NoOutputAvailableForCallPattern'),
        ('mentioned but unmatched, strict => NoMatchingCallPatterns', {'mentioned': {1}, 'sel': {'none'}, 'mode': {'Error'}}, 'Err:NoMatchingCallPatterns'),
        ('mentioned but unmatched, partial => real impl', {'mentioned': {1}, 'sel': {'none'}, 'mode': {'Unmock'}}, 'Ok:Unmock'),
    ]
    tables.check_table(chk, rule, fn, rows, oracle, config=cfg)
    for r in rows[:4]:
        chk.sample({'fn': fn.defp, 'config': cfg, 'valuation': r.val_str(), 'outcome': r.outcome})
    return fn, paths, rows


def counting_discipline(chk, F, rule, cfg, fn, rows):
    """R01.3 / R07.1 effect constraint: the match counter is bumped exactly once, only for the selected
    pattern, only on the `selected` rows; the diagnostics loop only runs the matcher."""
    for r in rows:
        nr = list(r.path.calls(r'CallPattern::next_responder$'))
        sel_some = r.valuation.get('sel') == frozenset({'some'})
        if sel_some:
            ok = len(nr) == 1
            recv = strip(nr[0].data[2][0]) if nr else ('unk', '')
            # receiver is payload .1 of the selector's Some((idx, pattern))
            # the receiver is the CallPattern inside the selector's result (tuple slot or named field: the type system only lets a
            # `&CallPattern` through, and the selector's result holds exactly one)
            good_recv = mentions(recv, lambda x: is_call(x, r'^eval::DynCtx::match_call_pattern$'))
            chk.ob(rule, 'the selected pattern (and only it) is counted, exactly once', ok and good_recv, config=cfg, fn=fn, site='next_responder',
                   what='counting of the selected pattern', found={'calls': len(nr), 'receiver': show(recv)}, expected='one next_responder on the pattern returned by the selector')
            if r.outcome == 'Ok:Responder':
                v = strip(strip(r.path.outcome[1])[4][0][1])
                # EvalResult::Responder(EvalResponder { .. }) or EvalResult::Responder { .. }: the same three named fields either way
                er = dict(strip(v[4][0][1])[4]) if v[0] == 'agg' and v[4] and strip(v[4][0][1])[0] == 'agg' and 'dyn_responder' in dict(strip(v[4][0][1])[4]) else (dict(v[4]) if v[0] == 'agg' else {})
                dr = strip(er.get('dyn_responder', ('unk', '')))
                okd = mentions(dr, lambda x: is_call(x, r'CallPattern::next_responder$'))
                fm = strip(er.get('fn_mocker', ('unk', '')))
                okf = mentions(fm, lambda x: is_call(x, r'BTreeMap::get$'))
                chk.ob(rule, 'the response handed back is the one next_responder chose for that pattern of that method', okd and okf, config=cfg, fn=fn,
                       site='responder-payload', what='responder/fn_mocker provenance', found={'dyn_responder': show(dr), 'fn_mocker': show(fm)})
        else:
            bad = [e.data[1] for e in r.path.calls(r'(CallPattern::next_responder|CallCounter::fetch_add|Atomic\w*::fetch_\w+)$')]
            chk.ob(rule, 'calls that select no pattern never change a match count', not bad, config=cfg, fn=fn, site='no-count:%s' % r.outcome,
                   what='counter touched without a selected pattern', found=bad, expected=[])
    # who may call
    # the function(s) that advance the match counter: whatever performs an atomic read-modify-write on `actual_count`
    bumpers = set()
    for b, bb_, k_, s_ in L.field_accesses(F, 'counter::CallCounter', 'actual_count'):
        for _, t_ in b.calls(include_cleanup=True):
            if re.search(r'Atomic\w*::(fetch_\w+|swap|store|compare_exchange\w*)$', symex.callee_name(t_)):
                bumpers.add(b.root if b.kind == 'closure' else b.defp)
    callers = []
    for d_ in sorted(bumpers):
        callers += [(f.defp, bb) for f, bb, t in F.callers_of(d_)]
    chk.ob(rule, 'the match counter is bumped from exactly one site (next_responder)', len(bumpers) == 1 and len(callers) == 1 and callers[0][0] == 'call_pattern::CallPattern::next_responder',
           config=cfg, site='callers', what='callers of the counter bump', found={'bumpers': sorted(bumpers), 'callers': callers}, expected=['call_pattern::CallPattern::next_responder'])
    nr = F.fn('call_pattern::CallPattern::next_responder')
    callers = [(f.defp, bb) for f, bb, t in F.callers_of(nr.defp)]
    chk.ob(rule, 'next_responder is called from exactly one site (eval_dyn)', len(callers) == 1 and callers[0][0].endswith('::eval_dyn'), config=cfg, fn=nr,
           site='callers', what='callers of next_responder', found=callers, expected=['eval::DynCtx::eval_dyn'])
    acc = L.field_accesses(F, 'counter::CallCounter', 'actual_count')
    users = [u for u in L.attributed(F, acc) if not re.search(r' as core::fmt::Debug>::fmt$', u)]      # (a Debug impl only renders the counter)
    ok = set(users) <= {'counter::CallCounter::fetch_add', 'counter::CallCounter::verify', 'counter::CallCountExpectation::into_counter', 'assemble::MockAssembler::new_call_pattern'}     # (the last two: where a pattern's counter is built)
    chk.ob(rule, 'actual_count is only touched by construction, the bump and verification', ok, config=cfg, site='field:actual_count', what='users of actual_count',
           found=users, expected=['into_counter', 'fetch_add', 'verify'])
    chk.call_sites += len(acc)


def method_isolation(chk, F, rule, cfg, paths):
    """R01.5: the only lookup into the per-method table uses the called MockFn's own TypeId"""
    fn = F.fn('eval::DynCtx::eval_dyn')
    n = 0
    for p in paths:
        for e in p.calls(r'BTreeMap::\w+$'):
            n += 1
            name = e.data[1]
            ok = name.endswith('::get') and is_self_field(e.data[2][0], ['shared_state', 'fn_mockers']) and is_self_field(e.data[2][1], ['info', 'type_id'])
            chk.ob(rule, 'the pattern list consulted is the one stored under the called method\'s TypeId', ok, config=cfg, fn=fn, site='table-lookup',
                   what='per-method table access', found={'callee': name, 'args': [show(a) for a in e.data[2]]}, expected='fn_mockers.get(&self.info.type_id)')
    chk.ob(rule, 'eval_dyn looks the method up', n >= 1, config=cfg, fn=fn, site='table-lookup', unrecognised=True, what='no table lookup')
    # other readers of fn_mockers on the call path
    callpath = F.reachable_fns([F.fn('private::eval')])
    for b, bb, k, s in L.field_accesses(F, 'state::SharedState', 'fn_mockers'):
        if b.root in callpath or b.defp in callpath:
            ok = L.owners_of(F, b) <= {'eval::DynCtx::<\'u, \'_>::eval_dyn', 'state::SharedState::find_ordered_expected_call_pattern_debug'}
            chk.ob(rule, 'per-method table is only read by eval_dyn (and the order-error message helper)', ok, config=cfg, fn=b, site='field:fn_mockers',
                   what='extra reader of fn_mockers on the call path', found=b.defp)
    # eval::eval builds the context from F::info() of its own F and the instance's shared state
    ev = F.fn('eval::eval')
    for p in symex.Interp(F).run(ev)[:1]:
        for e in p.calls(r'^eval::DynCtx::eval_dyn$'):
            ctx = strip(e.data[2][0])
            ctxv = strip(ctx[3]) if ctx[0] == 'ref' and len(ctx) > 3 else ctx
            d = dict(ctxv[4]) if ctxv[0] == 'agg' else {}
            info = strip(d.get('info', ('unk', '')))
            ok = is_call(info, r'^MockFn::info$') and not info[2]
            ss = d.get('shared_state', ('unk', ''))
            ok2 = field_path(ss) == (('param', 0, 1), ['shared_state']) or (strip(ss)[0] == 'ref' and strip(ss)[1][0][0] == 'ptr' and is_call(strip(ss)[1][0][1], r'Arc.*Deref>?::deref$') and field_path(strip(ss)[1][0][1][2][0]) == (('param', 0, 1), ['shared_state']))
            chk.ob(rule, 'evaluation context = (F::info(), this instance\'s shared state)', ok and ok2, config=cfg, fn=ev, site='ctx',
                   what='evaluation context', found={'info': show(info), 'shared_state': show(ss)})
    mi = F.fn('MockFnInfo::new')
    for p in symex.Interp(F, inline=lambda f, d, n: True).run(mi):
        v = strip(p.outcome[1])
        tid = dict(v[4]).get('type_id') if v[0] == 'agg' else None
        ok = tid is not None and is_call(tid, r'TypeId::of$')
        targs = (mi.blocks[0]['term'].get('callee', {}) or {}).get('args') if mi.blocks[0]['term']['k'] == 'call' else None
        chk.ob(rule, 'MockFnInfo::new::<F>() keys the method by TypeId::of::<F>()', ok and targs == ['F'], config=cfg, fn=mi, site='type_id',
               what='method key', found={'type_id': show(tid) if tid else None, 'generic_args': targs}, expected='TypeId::of::<F>()')


# ------------------------------------------------------------------------------------------
# eval::eval responder table (R02.5, R05.6)
# ------------------------------------------------------------------------------------------

def _mentions_fn_const(j, name):
    if isinstance(j, dict):
        if j.get('fn') == name and 'fn_args' in j or (j.get('fn') == name and len(j) <= 4):
            return True
        return any(_mentions_fn_const(v, name) for v in j.values())
    if isinstance(j, list):
        return any(_mentions_fn_const(v, name) for v in j)
    return False


def eval_table(chk, F, rule, cfg):
    fn = F.fn('eval::eval')
    paths = symex.Interp(F).run(fn)
    chk.analysed(fn)

    def atom(d, p):
        v = strip(d.value)
        if v[0] != 'discr':
            return None
        src, pol, var = discr_atom(F, d)
        if is_call(src, r'^eval::DynCtx::eval_dyn$'):
            return ('dyn', {pol})
        if src[0] == 'field' and strip(src[1])[0] == 'as' and is_call(peel_result(strip(src[1])[1]), r'^eval::DynCtx::eval_dyn$') and isinstance(var, str):
            return ('result', {var})
        root, ns = field_path(src)
        if ns[-1:] == ['dyn_responder'] and isinstance(var, str):
            return ('responder', {var})
        if is_call(src, r'DynCtx::downcast_responder$'):
            return ('downcast', {pol})
        if is_call(src, r'Returner::get_output$'):
            return ('output', {1 if pol == 'ok' else 0})
        return None

    def outcome(p):
        lab = ret_label(p)
        v = strip(p.outcome[1]) if p.outcome[0] == 'return' else None
        if lab.startswith('Ok:Continue') or lab.startswith('Ok:Return'):
            ev = strip(v[4][0][1])
            fields = dict(ev[4])
            if ev[3] == 'Continue':
                inputs_ok = strip(fields.get('1')) == ('param', 0, 2)
                lab += '' if inputs_ok else '[inputs not handed back unchanged: %s]' % show(fields.get('1'))
                c = strip(fields['0'])
                if c[0] != 'agg':
                    lab += '[continuation not a literal variant on this path: %s]' % show(c)[:60]
                elif c[3] == 'Answer':
                    a = strip(c[4][0][1])
                    ok = is_call(a, r'AnswerClosure<F> as core::clone::Clone>::clone$') and \
                        (field_path(a[2][0])[1][-1:] == ['answer_closure'] or _is_downcast_payload(a[2][0])) and \
                        mentions(a, lambda x: is_call(x, r'DynCtx::downcast_responder$'))
                    lab += '' if ok else '[answer closure is not the stored one: %s]' % show(a)
            else:
                o = strip(fields['0'])
                ok = o[0] == 'field' and o[2] == '0' and strip(o[1])[0] == 'as' and strip(o[1])[2] == 'Some' and is_call(strip(strip(o[1])[1]), r'Returner::get_output$')
                lab += '' if ok else '[output fabricated: %s]' % show(o)
        if lab == 'Err:ExplicitPanic' and v[0] == 'agg' and v[4] and strip(v[4][0][1])[0] == 'agg':
            e = dict(strip(v[4][0][1])[4])
            m = strip(e['msg'])
            ok = is_call(m, r'Clone>::clone$') and mentions(m, lambda x: x[0] == 'as' and x[2] == 'Panic')
            lab += '' if ok else '[msg is not the configured one]'
        return lab
    rows = tables.abstract(paths, atom, outcome)
    R = {'dyn': {'ok'}, 'result': {'Responder'}}
    oracle = [
        ('evaluation error propagates', {'dyn': {'err'}}, 'Err:propagated(eval_dyn)'),
        ('fall-through to real impl', {'dyn': {'ok'}, 'result': {'Unmock'}}, 'Ok:Continue(Unmock)'),
        ('fall-through to default body', {'dyn': {'ok'}, 'result': {'CallDefaultImpl'}}, 'Ok:Continue(CallDefaultImpl)'),
        ('returns: available value', dict(R, responder={'Return'}, downcast={'ok'}, output={1}), 'Ok:Return'),
        ('returns: exhausted single-use value is an error, never a value', dict(R, responder={'Return'}, downcast={'ok'}, output={0}), 'Err:CannotReturnValueMoreThanOnce'),
        ('returns: downcast error propagates', dict(R, responder={'Return'}, downcast={'err'}), 'Err:propagated(downcast_responder)'),
        ('answers: stored closure + inputs handed back', dict(R, responder={'Answer'}, downcast={'ok'}), 'Ok:Continue(Answer)'),
        ('answers: downcast error propagates', dict(R, responder={'Answer'}, downcast={'err'}), 'Err:propagated(downcast_responder)'),
        ('panics(msg)', dict(R, responder={'Panic'}), 'Err:ExplicitPanic'),
        ('applies_unmocked', dict(R, responder={'Unmock'}), 'Ok:Continue(Unmock)'),
        ('applies_default_impl', dict(R, responder={'ApplyDefaultImpl'}), 'Ok:Continue(CallDefaultImpl)'),
    ]
    tables.check_table(chk, rule, fn, rows, oracle, config=cfg)
    # constructor census of Eval::Return: only here
    n = 0
    for f in F.fns.values():
        for body in [f] + f.promoted:
            for bb, s in body.stmts(include_cleanup=True):
                rv = s.get('rv', {})
                if rv.get('agg') == 'adt' and rv.get('adt') == 'private::Eval' and rv.get('variant') == 'Return':
                    n += 1
                    chk.ob(rule, 'Eval::Return is only constructed by eval::eval from a stored output', body.defp == 'eval::eval', config=cfg, fn=body,
                           site='construct:Eval::Return', what='Eval::Return built elsewhere', found=body.defp)
            # the constructor used as a function value (`.map(Eval::Return)`) is a construction site too
            if _mentions_fn_const(body.body, 'private::Eval::Return'):
                n += 1
                chk.ob(rule, 'Eval::Return is only constructed by eval::eval from a stored output', body.root == 'eval::eval', config=cfg, fn=body,
                       site='construct:Eval::Return', what='Eval::Return built elsewhere', found=body.defp)
    chk.floor(rule, 'Eval::Return construction sites', n, 1, config=cfg)
    # inputs are only borrowed before being handed back (R05.6)
    for p in paths[:1]:
        for e in p.calls():
            for a in e.data[2]:
                if strip(a) == ('param', 0, 2):
                    chk.ob(rule, 'inputs are not moved into any callee by eval::eval', False, config=cfg, fn=fn, site='inputs-moved:%s' % e.data[1],
                           what='inputs moved', found=e.data[1])
    return fn, paths, rows


def lazy_rendering(chk, F, rule, cfg):
    """On every path of the evaluator that ends in Ok (a call that is answered, unmocked or delegated), the caller's arguments
    are seen only by the matcher: their Debug rendering (MockFn::debug_inputs, directly or through the stored input debugger)
    happens on error paths only. Rendering runs user code (Debug impls), so doing it on answered calls changes what a call does."""
    from facts import callee_def
    direct = set()
    for d, fn in F.fns.items():
        for _, t in fn.calls(include_cleanup=True):
            c = t.get('callee', {})
            st = c.get('self_ty') or ''
            if (c.get('name') == 'debug_inputs' and (c.get('trait') or '').endswith('MockFn')) or \
               (c.get('name') in ('call', 'call_mut', 'call_once') and st.startswith('dyn') and 'Option<std::string::String>' in st.replace('core::option::', '').replace('alloc::string::', 'std::string::')):
                direct.add(d)
    chk.floor(rule, 'functions that render the inputs', len(direct), 1, config=cfg)
    # callers (by direct local call, not by merely creating a closure) of renderers render too
    rend = set(direct)
    changed = True
    while changed:
        changed = False
        for d, fn in F.fns.items():
            if d in rend:
                continue
            for _, t in fn.calls(include_cleanup=True):
                if callee_def(t) in rend:
                    rend.add(d)
                    changed = True
                    break
    entries = [F.fn('eval::eval'), F.fn('eval::DynCtx::eval_dyn'), F.fn('eval::DynCtx::match_call_pattern')]
    names = set(F.fns[d].defp for d in rend) - set(e.defp for e in entries)
    nok = 0
    for fn in entries:
        for p in symex.Interp(F).run(fn):
            lab = ret_label(p)
            if not lab.startswith('Ok:'):
                continue
            nok += 1
            bad = []
            for e in p.calls():
                t = e.term
                cd = callee_def(t) if t else None
                c = (t or {}).get('callee', {})
                if cd in names or (c.get('name') == 'debug_inputs' and (c.get('trait') or '').endswith('MockFn')) or is_call(('call', e.data[1], (), 0), r'ProperDebug>?::unimock_try_debug$|fmt::Debug>?::fmt$'):
                    bad.append(e.data[1])
            chk.ob(rule, 'a call that ends in %s never renders the caller\'s arguments (Debug runs on error paths only)' % lab, not bad, config=cfg, fn=fn, site='lazy:%s' % lab,
                   what='renders inputs on an Ok path: %s' % sorted(set(bad)), found=sorted(set(bad)), expected='no call into %s on Ok paths' % sorted(names)[:6])
    chk.floor(rule, 'Ok paths of the evaluator', nok, 8, config=cfg)


# ------------------------------------------------------------------------------------------
# selector: match_call_pattern (R01.1 R01.2 R04.2 R04.3 R04.5)
# ------------------------------------------------------------------------------------------

FIRST_HIT_OK = re.compile(r'(::Deref>?::deref$|::iter$|IntoIterator( for [^>]*)?>?::into_iter$|Iterator>?::enumerate$|Iterator>?::filter_map$|Iterator>?::filter$|Iterator>?::map$|'
                          r'Iterator>?::inspect$|Iterator>?::by_ref$|Iterator>?::peekable$|Iterator>?::next$|Iterator>?::find$|Iterator>?::find_map$|Iterator>?::position$|'
                          r'Option::transpose$|Result::map_err$|Option::map$|Result::map$|Option::ok_or\w*$|::as_slice$|Option::copied$|Option::cloned$)')


def slot_bumpers(F):
    """display names of the functions that advance the global ordered-call cursor: local functions whose own body performs an atomic
    read-modify-write on `next_ordered_call_index` (whatever they are called and whatever they wrap the result in)"""
    got = getattr(F, '_slot_bumpers', None)
    if got is not None:
        return got
    from facts import strip_generics
    got = set()
    for f in F.fns.values():
        if f.kind not in ('fn', 'assoc') or len(f.blocks) > 12:
            continue
        for bb, t in f.calls():
            if re.search(r'Atomic\w*::fetch_(add|sub)$|Atomic\w*::(swap|compare_exchange\w*|fetch_update)$', symex.callee_name(t)) and t.get('args'):
                a0 = t['args'][0]
                pl = a0.get('cp') or a0.get('mv') or {}
                # the receiver is (a reference to) the cursor field
                names = []
                for b_, s_ in f.stmts():
                    if s_.get('k') == 'assign' and s_['p'].get('l') == pl.get('l') and 'ref' in s_.get('rv', {}):
                        names = [e.get('name') for e in s_['rv']['ref']['pr'] if isinstance(e, dict)]
                if 'next_ordered_call_index' in names or any(isinstance(e, dict) and e.get('name') == 'next_ordered_call_index' for e in pl.get('pr', [])):
                    got.add(strip_generics(f.defp))
    F._slot_bumpers = got
    return got


def unwrap_newtype(v):
    """a value wrapped in single-field struct literals (`CallOrder(i)`) -> the value"""
    v = strip(v)
    while v[0] == 'agg' and v[1] == 'adt' and len(v[4]) == 1:
        v = strip(v[4][0][1])
    return v


def selector_rules(chk, F, cfg, r_scan='R01.1', r_pure='R01.2', r_ord='R04.5', r_bump='R04.2'):
    fn = F.fn('eval::DynCtx::match_call_pattern')
    inline = lambda f, d, n: f.kind in ('fn', 'assoc') and f.locals[0]['ty'] == 'bool' and len(f.blocks) < 30  # noqa: E731  (derived PartialEq::eq etc.)
    paths = symex.Interp(F, inline=inline).run(fn)
    if symex.MODE.get('combinators'):
        # an iterator pipeline ending in `.next().transpose().map_err(..)` is recognised as a pipeline on the reading that keeps the
        # combinators as calls; executing them by contract only helps when the scan is spelled some other way
        root_pred_ = lambda x: x[0] == 'ref' and x[1][1][-1:] == (('f', 'call_patterns'),) and x[1][0] == ('ptr', ('param', 0, 2))  # noqa: E731
        plain = symex.Interp(F, inline=inline, mode={'combinators': False, 'inline_private': symex.MODE.get('inline_private')}).run(fn)
        if any(L.pipeline_calls(p.outcome[1], root_pred_) is not None for p in plain if p.outcome[0] == 'return'):
            paths = plain
    chk.analysed(fn)

    def mode_of(p):
        for d in p.decisions:
            v = strip(d.value)
            if v[0] == 'discr' and field_path(v[1])[1][-1:] == ['pattern_match_mode']:
                return decision_variant(F, d)
            inner, t = L.truth_of(d)
            cmp = as_comparison(inner) if t is not None else None
            if cmp and cmp[0] in ('Eq', 'Ne'):
                for a, b in ((cmp[1], cmp[2]), (cmp[2], cmp[1])):
                    a = strip(a)
                    if a[0] == 'discr' and field_path(a[1])[1][-1:] == ['pattern_match_mode'] and strip(b)[0] == 'c':
                        var = F.variant_by_discr('fn_mocker::PatternMatchMode', strip(b)[1])
                        eq = (cmp[0] == 'Eq') == t
                        if eq:
                            return var
                        return 'InAnyOrder' if var == 'InOrder' else 'InOrder'
        return None
    any_paths = [p for p in paths if mode_of(p) == 'InAnyOrder']
    ord_paths = [p for p in paths if mode_of(p) == 'InOrder']
    chk.ob(r_scan or r_ord, 'selector distinguishes the two pattern-match modes', bool(any_paths) and bool(ord_paths) and len(any_paths) + len(ord_paths) == len(paths),
           config=cfg, fn=fn, site='mode-switch', unrecognised=True, what='mode switch not recognised', found={'paths': len(paths), 'any': len(any_paths), 'ordered': len(ord_paths)})

    # ---- InAnyOrder: forward first-hit scan over this method's own list
    root_pred = lambda x: x[0] == 'ref' and x[1][1][-1:] == (('f', 'call_patterns'),) and x[1][0] == ('ptr', ('param', 0, 2))  # noqa: E731
    if r_scan and any_paths and all(L.pipeline_calls(p.outcome[1] if p.outcome[0] == 'return' else ('unk', ''), root_pred) is None for p in any_paths) and \
            any(p.called(r'Iterator>?::next$') for p in any_paths):
        # the scan is written as an explicit loop, not as an iterator pipeline
        loop_scan(chk, F, r_scan, r_pure, cfg, fn, any_paths, root_pred)
    elif r_scan:
        for p in any_paths:
            v = p.outcome[1] if p.outcome[0] == 'return' else ('unk', '')
            names = L.pipeline_calls(v, root_pred)
            if names is None:
                chk.ob(r_scan, 'unordered selection is a pipeline over the called method\'s own pattern list', False, config=cfg, fn=fn, site='scan', unrecognised=True,
                       what='scan shape not recognised', found=show(v)[:300], expected='iterator pipeline rooted at fn_mocker.call_patterns')
                continue
            ok = True
            for n in names:
                if L.ORDER_DENY.search(n) and not re.search(r'::(filter|filter_map|find|find_map|position)$', n):
                    chk.ob(r_scan, 'unordered selection scans forward and stops at the first accepting pattern', False, config=cfg, fn=fn, site='scan',
                           what='scan:%s' % n.rsplit('::', 1)[-1], found=' <- '.join(x.rsplit('::', 1)[-1] for x in names), expected='iter().enumerate().filter_map(accept).next()')
                    ok = False
                elif not FIRST_HIT_OK.search(n):
                    chk.ob(r_scan, 'adaptor in the unordered scan is known', False, config=cfg, fn=fn, site='scan', unrecognised=True, what='scan-adaptor:%s' % n.rsplit('::', 1)[-1], found=n)
                    ok = False
            consumers = [n for n in names if re.search(r'(Iterator>?::next|Iterator::find|Iterator::find_map|Iterator::position)$', n)]
            if ok:
                chk.ob(r_scan, 'unordered selection = forward first-hit: %s' % ' <- '.join(x.rsplit('::', 1)[-1] for x in names), len(consumers) == 1, config=cfg, fn=fn,
                       site='scan', what='no single first-hit consumer', found=names)
            # the only closure in the pipeline is the accept closure
            for e in p.calls(r'Iterator>?::(filter_map|find_map|find|filter|position|map)$'):
                c = strip(e.data[2][1])
                if c[0] == 'agg' and c[1] == 'closure' and re.search(r'Iterator>?::map$', e.data[1]):
                    # a projection between the list and the accept step (e.g. pairing each element with its index): it must be pure
                    # and hand every element on (it cannot drop or reorder: `map` is one-to-one)
                    cf = F.fns[c[2]]
                    calls = [symex.callee_name(t) for _, t in cf.calls()]
                    chk.ob(r_pure, 'a projection inside the unordered scan is pure (consults nothing)', not calls, config=cfg, fn=cf, site='scan-projection', what='projection calls %s' % calls, found=calls)
                elif c[0] == 'agg' and c[1] == 'closure':
                    accept_closure(chk, F, r_pure, cfg, F.fns[c[2]], e.data[1])
                else:
                    chk.ob(r_pure, 'accept predicate is a closure literal', False, config=cfg, fn=fn, site='accept', unrecognised=True, what='opaque accept predicate', found=show(c))
        chk.sample({'fn': fn.defp, 'config': cfg, 'unordered_scan': 'forward first-hit over fn_mocker.call_patterns'})

    # ---- InOrder region
    if r_ord:
        def atom(d, p):
            v = strip(d.value)
            if v[0] == 'discr':
                a = discr_atom(F, d)
                src, pol, var = a
                if field_path(v[1])[1][-1:] == ['pattern_match_mode']:
                    return IGNORE
                if is_call(src, r'FnMocker::find_call_pattern_for_call_order$'):
                    return ('found', {1 if pol == 'ok' else 0})
                if is_call(src, r'core::ops::Fn::call$') and (strip(src[2][0]) == ('param', 0, 3) or (strip(src[2][0])[0] == 'ref' and strip(src[2][0])[1] == (('ptr', ('param', 0, 3)), ()))):
                    return ('matcher', {pol})
                return None
            inner, t = L.truth_of(d)
            if t is None:
                return None
            cmp = as_comparison(inner)
            if cmp and any(strip(x)[0] == 'discr' and field_path(strip(x)[1])[1][-1:] == ['pattern_match_mode'] for x in cmp[1:]):
                return IGNORE
            if inner[0] == 'field' and inner[2] == '0' and strip(inner[1])[0] == 'as':
                src = peel_result(strip(inner[1])[1])
                if is_call(src, r'core::ops::Fn::call$'):
                    return ('accepted', {int(t)})
            return None
        rows = tables.abstract(ord_paths, atom, ret_label)
        oracle = [
            ('no slot owner in this method => order error', {'found': {0}}, ('Err:propagated(find_call_pattern_for_call_order)', 'Err:propagated(ok_or_else)', 'Err:CallOrderNotMatchedForMockFn')),
            ('matcher error propagates', {'found': {1}, 'matcher': {'err'}}, ('Err:propagated(call)', 'Err:propagated(map_err)', 'Err:call(map_pattern_error)')),
            ('slot owner rejects the arguments => error, no fall-through', {'found': {1}, 'matcher': {'ok'}, 'accepted': {0}}, 'Err:InputsNotMatchedInCallOrder'),
            ('slot owner accepts => that pattern', {'found': {1}, 'matcher': {'ok'}, 'accepted': {1}}, 'Ok:Some'),
        ]
        tables.check_table(chk, r_ord, fn, rows, oracle, config=cfg)
        for p in ord_paths:
            bump_rx = r'SharedState::bump_ordered_call_index$|Atomic\w*::fetch_add$' + ''.join('|^%s$' % re.escape(n_) for n_ in sorted(slot_bumpers(F)))
            bumps = list(p.calls(bump_rx))
            if r_bump:
                chk.ob(r_bump, 'every ordered call consumes exactly one global slot, before the lookup', len(bumps) == 1 and bumps[0].ndec <= 1, config=cfg, fn=fn,
                       site='slot-bump', what='slot bump count/position', found={'bumps': len(bumps), 'after_decisions': bumps[0].ndec if bumps else None}, expected='one bump right after the mode switch')
            ms = list(p.calls(r'core::ops::Fn::call$'))
            finds = list(p.calls(r'FnMocker::find_call_pattern_for_call_order$'))
            if finds:
                recv = strip(finds[0].data[2][0])
                chk.ob(r_ord, 'slot lookup is done in the called method\'s own pattern list', recv[0] == 'ref' and recv[1] == (('ptr', ('param', 0, 2)), ()), config=cfg, fn=fn,
                       site='slot-lookup.recv', what='slot lookup receiver', found=show(recv), expected='fn_mocker (argument)')
            if ms:
                chk.ob(r_ord, 'the matcher runs exactly once per ordered call', len(ms) == 1, config=cfg, fn=fn, site='matcher-count', what='matcher invocations', found=len(ms), expected=1)
                pat = strip(strip(ms[0].data[2][1])[4][0][1]) if strip(ms[0].data[2][1])[0] == 'agg' else ('unk', '')
                ok = mentions(pat, lambda x: is_call(x, r'FnMocker::find_call_pattern_for_call_order$'))
                chk.ob(r_ord, 'the arguments are checked against exactly the slot\'s pattern', ok, config=cfg, fn=fn, site='matcher-arg', what='matcher applied to another pattern',
                       found=show(pat), expected='the pattern returned by find_call_pattern_for_call_order')
                rep = strip(strip(ms[0].data[2][1])[4][1][1]) if strip(ms[0].data[2][1])[0] == 'agg' else ('unk', '')
                chk.ob('R06.5', 'ordered evaluation runs the matcher with diagnostics enabled', reporter_kind(rep) == 'on', config=cfg, fn=fn, site='matcher-reporter',
                       what='reporter', found=show(rep))
            if ret_label(p) == 'Ok:Some':
                v = strip(strip(strip(p.outcome[1])[4][0][1])[4][0][1])
                ok = mentions(v, lambda x: is_call(x, r'FnMocker::find_call_pattern_for_call_order$')) and not mentions(v, lambda x: is_call(x, r'::iter$'))
                chk.ob(r_ord, 'the pattern returned is the slot owner', ok, config=cfg, fn=fn, site='result', what='returned pattern provenance', found=show(v)[:200])
        for p in (any_paths if r_bump else []):
            bumps = list(p.calls(r'SharedState::bump_ordered_call_index$|Atomic\w*::fetch_add$'))
            chk.ob(r_bump, 'unordered calls never consume a global slot', not bumps, config=cfg, fn=fn, site='slot-bump-unordered', what='slot consumed by unordered call',
                   found=[e.data[1] for e in bumps], expected=[])
        bump = F.fn('state::SharedState::bump_ordered_call_index', optional=True) if r_bump else None
        if bump is not None:
            callers = [(f.defp, bb) for f, bb, t in F.callers_of(bump.defp)]
            chk.ob(r_bump, 'the slot counter is bumped from exactly one site (ordered arm of the selector)', len(callers) == 1 and callers[0][0].endswith('::match_call_pattern'),
                   config=cfg, fn=bump, site='callers', what='callers of slot bump', found=callers)
        acc = L.field_accesses(F, 'state::SharedState', 'next_ordered_call_index') if r_bump else []
        users = L.attributed(F, acc)
        if r_bump:
            chk.ob(r_bump, 'next_ordered_call_index is only touched by construction and the bump', len(users) == 2 and 'state::SharedState::new' in users, config=cfg,
               site='field:next_ordered_call_index', what='users of the slot counter', found=users)
    return fn, paths


def index_is_position(chk, F, rule, cfg):
    """the pattern index the selector pairs with the selected pattern (it ends up in every message that names a pattern, and in
    the diagnostics) is that pattern's position in the method's list: in the pipeline form `enumerate` sits directly on the list's
    iterator, below every adaptor that can drop elements"""
    fn = F.fn('eval::DynCtx::match_call_pattern')
    root_pred = lambda x: x[0] == 'ref' and x[1][1][-1:] == (('f', 'call_patterns'),) and x[1][0] == ('ptr', ('param', 0, 2))  # noqa: E731
    n = 0
    for p in symex.Interp(F).run(fn):
        v = p.outcome[1] if p.outcome[0] == 'return' else ('unk', '')
        names = L.pipeline_calls(v, root_pred)
        if names is None:
            # the result is assembled explicitly: follow the PatIndex component of Ok(Some((PatIndex(i), pattern))) / Err(map_pattern_error(.., PatIndex(i)))
            for x in symex.subvalues(strip(v)):
                if x[0] == 'agg' and x[2].endswith('PatIndex') and x[4]:
                    names = L.pipeline_calls(x[4][0][1], root_pred)
                    if names is not None:
                        break
        if names is None or not any(re.search(r'Iterator>?::enumerate$', x) for x in names):
            continue          # ordered arm / loop form (the loop form is decided by loop_scan: index and element come from the same `next`)
        n += 1
        i = max(k for k, x in enumerate(names) if re.search(r'Iterator>?::enumerate$', x))
        below = names[i + 1:]
        ok = all(re.search(r'(::Deref>?::deref$|::iter$|IntoIterator( for [^>]*)?>?::into_iter$|::as_slice$)', x) for x in below)
        chk.ob(rule, 'the index paired with a selected pattern is its position in the list (enumerate sits directly on the list iterator)', ok, config=cfg, fn=fn, site='index-position',
               what='adaptors below enumerate: %s' % [x.rsplit('::', 1)[-1] for x in below], found=[x.rsplit('::', 1)[-1] for x in names])
    return n


LOOP_SRC_OK = re.compile(r'(::Deref>?::deref$|::iter$|IntoIterator( for [^>]*)?>?::into_iter$|Iterator::enumerate$|::as_slice$|Iterator::by_ref$|Iterator>?::next$)')


def loop_scan(chk, F, r_scan, r_pure, cfg, fn, any_paths, root_pred):
    """The unordered selection written as `for (i, p) in fn_mocker.call_patterns.iter().enumerate() { match matcher(p, None) { .. } }`:
    the iterator walks this method's own list front to back without adapters that skip or reorder; each element is shown to the
    matcher (without diagnostics) exactly once, in turn; the first accepted element is returned at once together with its own
    enumeration index; a rejected element only leads to the next one; exhaustion returns None; a matcher error is returned at once.
    Decided on every path of the bounded unrolling (two iterations: first element, any later element)."""
    n = 0
    for p in any_paths:
        evs = [e for e in p.effects if e.kind == 'call' and re.search(r'Iterator>?::next$|^core::ops::Fn::call$', e.data[1])]
        other = [e.data[1] for e in p.effects if e.kind == 'call' and not re.search(r'Iterator>?::next$|^core::ops::Fn::call$', e.data[1]) and not LOOP_SRC_OK.search(e.data[1])
                 and not re.search(r'DynCtx::map_pattern_error$', e.data[1]) and not PEEL_OK.search(e.data[1]) and not re.search(r'FromResidual<.*>::from_residual$', e.data[1])]
        # (`matcher(..).map_err(to_error)?`: the ?-plumbing only hands the matcher's own result on; what the error closure calls is in the effects as well)
        chk.ob(r_pure, 'the unordered scan calls nothing but the iterator, the matcher and (on a matcher error) the error mapper', not other, config=cfg, fn=fn, site='loop-scan:calls',
               what='scan calls %s' % sorted(set(other)), found=sorted(set(other)))
        cur = None      # the element of the current iteration (value of the latest `next`)
        state = 'need-next'
        ok = True
        why = ''
        for e in evs:
            val = ('call', e.data[1], e.data[2], e.data[3])
            if re.search(r'Iterator>?::next$', e.data[1]):
                if state != 'need-next':
                    ok, why = False, 'advances without consulting the matcher for the current element'
                    break
                names = L.pipeline_calls(e.data[2][0], root_pred)
                if names is None or not all(LOOP_SRC_OK.search(x) for x in names):
                    ok, why = False, 'iterator is not a plain forward walk over fn_mocker.call_patterns: %s' % (names,)
                    break
                cur = val
                nd = [d for d in p.decisions if strip(d.value)[0] == 'discr' and strip(strip(d.value)[1]) == val]
                state = 'exhausted' if nd and decision_variant(F, nd[-1]) == 'None' else 'have-elem'
            else:
                if state != 'have-elem':
                    ok, why = False, 'matcher consulted twice for one element (or before the first element)'
                    break
                a = strip(e.data[2][1])
                elem = strip(a[4][0][1]) if a[0] == 'agg' and len(a[4]) == 2 else ('unk', '')
                rep = strip(a[4][1][1]) if a[0] == 'agg' and len(a[4]) == 2 else ('unk', '')
                if not mentions(elem, lambda x: x == cur):
                    ok, why = False, 'matcher applied to something other than the current element: %s' % show(elem)[:80]
                    break
                chk.ob('R06.5', 'unordered selection runs the matcher without diagnostics', reporter_kind(rep) == 'off', config=cfg, fn=fn, site='matcher-reporter', what='reporter', found=show(rep))
                # what the path decides about this matcher result
                res = None
                for d in p.decisions:
                    v = strip(d.value)
                    if v[0] == 'discr' and (strip(v[1]) == val or peel_ok(v[1]) == val):
                        res = 'err' if decision_variant(F, d) in ERRV else res
                    inner, t = L.truth_of(d)
                    if t is not None and inner[0] == 'field' and inner[2] == '0' and strip(inner[1])[0] == 'as' and strip(inner[1])[2] in OKV and \
                            (strip(strip(inner[1])[1]) == val or peel_ok(strip(inner[1])[1]) == val) and res != 'err':
                        res = 'accepted' if t else 'rejected'
                if res is None:
                    ok, why = False, 'the decision taken on the matcher result is not recognised'
                    break
                state = {'rejected': 'need-next', 'accepted': 'accepted', 'err': 'err'}[res]
                last_call = val
        n += 1
        lab = ret_label(p)
        if ok:
            if state == 'accepted':
                v = strip(strip(strip(p.outcome[1])[4][0][1])[4][0][1]) if lab == 'Ok:Some' else ('unk', '')
                parts = dict(v[4]) if v[0] == 'agg' else {}
                idx, pat = strip(parts.get('0', ('unk', ''))), strip(parts.get('1', ('unk', '')))
                okr = lab == 'Ok:Some' and mentions(idx, lambda x: x == cur) and mentions(pat, lambda x: x == cur) and \
                    field_path(idx[4][0][1] if idx[0] == 'agg' and idx[4] else idx)[1][-1:] == ['0'] and field_path(pat)[1][-1:] == ['1']
                ok, why = okr, 'an accepted element must be returned at once with its own index: %s / %s' % (lab, show(v)[:120])
            elif state == 'err':
                ok, why = lab.startswith('Err:'), 'a matcher error must be returned at once: %s' % lab
            elif state == 'have-elem':
                ok, why = False, 'an element was fetched but never shown to the matcher'
            elif state == 'exhausted':
                ok, why = lab == 'Ok:None', 'exhaustion must return Ok(None): %s' % lab
            else:
                # (paths cut by the unrolling bound are not reported by the interpreter: this path really returns here)
                ok, why = False, 'the list is never consulted' if cur is None else 'returns after a rejected element without trying the next one'

        chk.ob(r_scan, 'unordered selection (loop form) is a forward first-hit scan over the called method\'s own patterns', ok, config=cfg, fn=fn, site='loop-scan',
               what='loop scan: %s' % why if not ok else 'loop scan', found=why if not ok else None, expected='for (i, p) in call_patterns.iter().enumerate(): first accepted => Some((i, p)); rejected => next; end => None')
    chk.floor(r_scan, 'paths of the loop-form scan', n, 4, config=cfg)
    chk.sample({'fn': fn.defp, 'config': cfg, 'unordered_scan': 'explicit forward first-hit loop over fn_mocker.call_patterns'})


def reporter_kind(rep):
    """the diagnostics argument of a matcher call: 'off' = none / a disabled reporter, 'on' = an enabled reporter"""
    rep = strip(rep)
    if rep[0] == 'agg' and rep[2] == 'core::option::Option':
        if rep[3] == 'None':
            return 'off'
        rep = strip(rep[4][0][1]) if rep[4] else rep
    if mentions(rep, lambda x: is_call(x, r'MismatchReporter::new_enabled$') or (is_call(x, r'MismatchReporter::new$') and x[2] and strip(x[2][0]) == ('c', True))):
        return 'on'
    if mentions(rep, lambda x: is_call(x, r'MismatchReporter::new_disabled$') or (is_call(x, r'MismatchReporter::new$') and x[2] and strip(x[2][0]) == ('c', False))):
        return 'off'
    if rep[0] == 'agg' and rep[3] == 'Some':
        return 'on'
    return None


def accept_closure(chk, F, rule, cfg, cf, via):
    """R01.2: the accept predicate only consults the matcher; accepted iff Ok(true)"""
    paths = symex.Interp(F).run(cf)
    chk.analysed(cf)

    def atom(d, p):
        v = strip(d.value)
        if v[0] == 'discr':
            src, pol, var = discr_atom(F, d)
            if is_call(src, r'core::ops::Fn::call$'):
                return ('matcher', {pol})
            return None
        inner, t = L.truth_of(d)
        if t is not None and inner[0] == 'field' and inner[2] == '0' and strip(inner[1])[0] == 'as' and is_call(peel_result(strip(inner[1])[1]), r'core::ops::Fn::call$'):
            return ('accepted', {int(t)})
        return None

    def outcome(p):
        if p.outcome[0] != 'return':
            return p.outcome[0]
        v = strip(p.outcome[1])
        if v[0] == 'agg' and v[2] == 'core::option::Option':
            if v[3] == 'None':
                return 'skip'
            inner = strip(v[4][0][1])
            if inner[0] == 'agg' and inner[3] == 'Ok':
                return 'select'
            if inner[0] == 'agg' and inner[3] == 'Err':
                return 'error'
        if v == ('c', True):
            return 'select'
        if v == ('c', False):
            return 'skip'
        return 'other:%s' % show(v)[:80]
    rows = tables.abstract(paths, atom, outcome)
    tables.check_table(chk, rule, cf, rows, [
        ('matcher accepts => selected', {'matcher': {'ok'}, 'accepted': {1}}, 'select'),
        ('matcher rejects => skipped', {'matcher': {'ok'}, 'accepted': {0}}, 'skip'),
        ('matcher error => error out', {'matcher': {'err'}}, 'error'),
    ], config=cfg)
    # everything the accept decision calls: the closure's own calls and - where std combinators are executed by contract - the calls of
    # the closure literals handed to them (they show up as effects of the paths)
    called = set(symex.callee_name(t) for bb, t in cf.calls())
    for p_ in paths:
        called |= set(e.data[1] for e in p_.calls())
    for n in sorted(called):
        ok = bool(re.search(r'^core::ops::Fn::call$|MismatchReporter::(new_disabled|new)$', n))      # (building a switched-off reporter for the matcher consults nothing)
        ok = ok or (symex.MODE.get('combinators') and n in symex.COMBINATORS)      # (std Option/Result/bool adaptors: they look at their receiver only)
        chk.ob(rule, 'the accept decision only consults the input matcher (no counters, no exhaustion state)', ok, config=cfg, fn=cf, site='accept-call:%s' % n,
               what='accept predicate calls %s' % n, found=n, expected='match_inputs(call_pattern, None) only')
    for bb, s in cf.stmts():
        for pl in L._places_of_stmt(s):
            for e in pl['pr']:
                if isinstance(e, dict) and e.get('adt') == 'call_pattern::CallPattern':
                    chk.ob(rule, 'the accept decision does not read pattern state', False, config=cfg, fn=cf, site='accept-field:%s' % e.get('name'),
                           what='reads CallPattern.%s' % e.get('name'), found=e.get('name'))
    for p in paths[:1]:
        for e in p.calls(r'core::ops::Fn::call$'):
            rep = strip(strip(e.data[2][1])[4][1][1]) if strip(e.data[2][1])[0] == 'agg' else ('unk', '')
            chk.ob('R06.5', 'unordered selection runs the matcher without diagnostics', reporter_kind(rep) == 'off', config=cfg, fn=cf, site='matcher-reporter', what='reporter', found=show(rep))


# ------------------------------------------------------------------------------------------
# lookups
# ------------------------------------------------------------------------------------------

def slot_lookup(chk, F, rule, cfg):
    """R04.4: find_call_pattern_for_call_order = forward first-hit with predicate start <= i < end"""
    fn = F.fn('fn_mocker::FnMocker::find_call_pattern_for_call_order')
    paths = symex.Interp(F).run(fn)
    chk.analysed(fn)
    own = lambda x: x[0] == 'ref' and x[1][1][-1:] == (('f', 'call_patterns'),) and x[1][0] == ('ptr', ('param', 0, 1))  # noqa: E731
    plumbing = re.compile(r'(Try>?::branch$|FromResidual<.*>::from_residual$)')
    if paths and any(p.called(r'Iterator>?::next$') for p in paths) and not any(p.called(r'Iterator>?::(find|find_map|position)$') for p in paths):
        return slot_lookup_loop(chk, F, rule, cfg, fn, own)
    for p in paths:
        v = p.outcome[1] if p.outcome[0] == 'return' else ('unk', '')
        names = L.pipeline_calls(v, own)
        sv = strip(v)
        if names is None and sv[0] == 'agg' and sv[3] == 'Some' and strip(sv[4][0][1])[0] == 'agg':
            # `let i = list.iter().position(pred)?; Some((PatIndex(i), &list[i]))`: the index is found by a forward first-hit scan of
            # the method's own list and the element returned is that list's element at exactly that index
            parts = dict(strip(sv[4][0][1])[4])
            idx = strip(parts.get('0', ('unk', '')))
            idx = strip(idx[4][0][1]) if idx[0] == 'agg' and idx[4] else idx
            el = strip(parts.get('1', ('unk', '')))
            names = L.pipeline_calls(idx, own)
            elem_ok = False
            for x in symex.subvalues(el):
                if is_call(x, r'ops::Index<I>>?::index$|::get_unchecked$') and own(strip(x[2][0])) and strip(x[2][1]) == idx:
                    elem_ok = True
            # or: index and element are the two halves of one item of `list.iter().enumerate()` (`.find(..).map(|(i, p)| (PatIndex(i), p))`)
            if idx[0] == 'field' and idx[2] == '0' and el[0] == 'field' and el[2] == '1' and strip(idx[1]) == strip(el[1]) and idx[1][0] in ('field', 'as'):
                item = strip(idx[1])
                pn = L.pipeline_calls(item, own)
                if pn is not None and any(re.search(r'Iterator>?::enumerate$', n_) for n_ in pn):
                    elem_ok = True
            chk.ob(rule, 'the pattern returned is the element of the method\'s own list at the index the scan found', elem_ok and names is not None, config=cfg, fn=fn, site='scan-elem',
                   what='slot scan element %s' % show(el)[:100], found=show(el)[:200])
        names_c = [n for n in (names or []) if not plumbing.search(n)]
        ok = names is not None and all(FIRST_HIT_OK.search(n) for n in names_c) and sum(1 for n in names_c if re.search(r'Iterator>?::(find|find_map|position)$|Iterator>?::next$', n)) == 1
        bad = [n for n in names_c if L.ORDER_DENY.search(n) and not re.search(r'::(filter|filter_map|find|find_map|position)$', n)]
        chk.ob(rule, 'slot lookup scans the method\'s own list forward to the first owner', ok and not bad, config=cfg, fn=fn, site='scan', unrecognised=(names is None),
               what='slot scan:%s' % ','.join(x.rsplit('::', 1)[-1] for x in (bad or names_c or ['?'])), found=names)
        for e in p.calls(r'Iterator>?::(find|find_map|position|filter)$'):
            c = strip(e.data[2][1])
            cref = c
            if c[0] == 'ref' and len(c) > 3:
                c = strip(c[3])
            if c[0] == 'agg' and c[1] == 'closure':
                slot_predicate(chk, F, rule, cfg, F.fns[c[2]])
            else:
                chk.ob(rule, 'slot predicate is a closure literal', False, config=cfg, fn=fn, site='pred', unrecognised=True, what='opaque slot predicate', found=show(cref))


def slot_lookup_loop(chk, F, rule, cfg, fn, own):
    """`for (index, pattern) in self.call_patterns.iter().enumerate() { if <pattern owns slot i> { return Some((PatIndex(index), pattern)) } } None`"""
    paths = symex.Interp(F, loop_bound=3).run(fn)
    n = 0
    first_iter = {}      # (decisions of the first iteration as (cmp/contains, truth) tuples) -> accepted?
    unrec = False
    for p in paths:
        n += 1
        # split the decisions by iteration
        iters = []
        for d in p.decisions:
            v = strip(d.value)
            if L.is_iter_next(v):
                iters.append({'next': strip(v[1]), 'some': decision_variant(F, d) == 'Some', 'decs': []})
            elif iters:
                iters[-1]['decs'].append(d)
        ok, why = True, ''
        for e in p.calls(r'Iterator>?::next$'):
            pn = L.pipeline_calls(e.data[2][0], own)
            if pn is None or not all(LOOP_SRC_OK.search(x) for x in pn):
                ok, why = False, 'not a plain forward walk over the method\'s own patterns: %s' % (pn,)
        lab = 'Some' if (p.outcome[0] == 'return' and strip(p.outcome[1])[0] == 'agg' and strip(p.outcome[1])[3] == 'Some') else ('None' if p.outcome[0] == 'return' and strip(p.outcome[1])[0] == 'agg' and strip(p.outcome[1])[3] == 'None' else 'other')
        if ok and lab == 'Some':
            cur = iters[-1]['next'] if iters and iters[-1]['some'] else None
            v = strip(strip(p.outcome[1])[4][0][1])
            parts = dict(v[4]) if v[0] == 'agg' else {}
            idx = strip(parts.get('0', ('unk', '')))
            idx = strip(idx[4][0][1]) if idx[0] == 'agg' and idx[4] else idx
            el = strip(parts.get('1', ('unk', '')))
            ok = cur is not None and mentions(idx, lambda x: x == cur) and mentions(el, lambda x: x == cur) and field_path(idx)[1][-1:] == ['0'] and field_path(el)[1][-1:] == ['1']
            why = 'the owner must be returned with its own enumeration index: %s' % show(v)[:100]
        elif ok and lab == 'None':
            ok = bool(iters) and not iters[-1]['some']
            why = 'None only after the whole list has been walked'
        elif ok:
            ok, why = False, 'unexpected result %s' % show(p.outcome[1])[:80]
        chk.ob(rule, 'slot lookup (loop form) scans the method\'s own list forward to the first owner', ok, config=cfg, fn=fn, site='scan-loop', what='slot scan loop: %s' % why if not ok else 'slot scan loop', found=why if not ok else None)
        # predicate of the first iteration
        if iters and iters[0]['some']:
            key = []
            for d in iters[0]['decs']:
                inner, t = L.truth_of(d)
                if t is None:
                    unrec = True
                    continue
                key.append((inner, t))
            accepted = len(iters) == 1 and lab == 'Some'
            first_iter[tuple(key)] = accepted
    # evaluate the predicate on the partition of (i - start, i - end)
    for d1 in (-1, 0, 1):
        for d2 in (-1, 0, 1):
            if d2 > d1:
                continue
            outs = set()
            for key, accepted in first_iter.items():
                feasible = True
                for inner, t in key:
                    if contains_owns_slot(inner):
                        val = d1 >= 0 and d2 < 0
                    else:
                        cmp = as_comparison(inner)
                        val = eval_slot_cmp(cmp, d1, d2) if cmp else None
                    if val is None:
                        unrec = True
                        continue
                    if val != t:
                        feasible = False
                        break
                if feasible:
                    outs.add(accepted)
            want = (d1 >= 0) and (d2 < 0)
            chk.ob(rule, 'slot ownership: start <= i < end  (region i-start=%+d, i-end=%+d)' % (d1, d2), outs == {want}, config=cfg, fn=fn, site='pred(%+d,%+d)' % (d1, d2),
                   what='slot predicate boundary (i-start=%+d,i-end=%+d) -> %s' % (d1, d2, sorted(outs)), found=sorted(outs), expected=[want])
    chk.ob(rule, 'slot predicate is a conjunction of comparisons of the call index with the pattern\'s range bounds', not unrec and bool(first_iter), config=cfg, fn=fn, site='pred-shape', unrecognised=True,
           what='slot predicate shape (loop form)')
    chk.floor(rule, 'paths of the loop-form slot lookup', n, 3, config=cfg)


def slot_predicate(chk, F, rule, cfg, cf):
    paths = symex.Interp(F).run(cf)
    chk.analysed(cf)
    # evaluate the closure's comparisons on the partition of (i - start, i - end)
    results = {}
    unrec = False
    for d1 in (-1, 0, 1):
        for d2 in (-1, 0, 1):
            outs = set()
            for p in paths:
                feasible = True
                for d in p.decisions:
                    dv_ = strip(d.value)
                    if dv_[0] == 'discr' and dv_[2] == 'core::option::Option' and _range_path(field_path(dv_[1])[1])[-1:] == ['ordered_call_index_range']:
                        # the slot range kept as Option<Range>: `None` = a pattern that owns no slot (unordered) - it must never claim one;
                        # the partition below speaks about patterns that have a range
                        if decision_variant(F, d) == 'None':
                            feasible = False
                            o_ = p.outcome[1] if p.outcome[0] == 'return' else None
                            if (d1, d2) == (-1, -1):
                                chk.ob(rule, 'a pattern without slots (range None) never owns a slot', o_ is not None and strip(o_) == ('c', False), config=cfg, fn=cf, site='pred:none',
                                       what='slot predicate for a pattern without a range -> %s' % (show(o_)[:60] if o_ is not None else None))
                            break
                        continue
                    inner, t = L.truth_of(d)
                    cmp = as_comparison(inner) if t is not None else None
                    if not cmp:
                        unrec = True
                        continue
                    val = eval_slot_cmp(cmp, d1, d2)
                    if val is None:
                        unrec = True
                        continue
                    if val != t:
                        feasible = False
                        break
                if feasible:
                    o = p.outcome[1] if p.outcome[0] == 'return' else None
                    if o is not None and strip(o)[0] == 'c':
                        outs.add(bool(strip(o)[1]))
                    elif o is not None and contains_owns_slot(o):
                        # std contract: Range::contains(&r, &i) == (r.start <= i && i < r.end)
                        outs.add(d1 >= 0 and d2 < 0)
                    elif o is not None:
                        cmp = as_comparison(o)
                        val = eval_slot_cmp(cmp, d1, d2) if cmp else None
                        if val is None:
                            unrec = True
                        else:
                            outs.add(val)
            results[(d1, d2)] = outs
    chk.ob(rule, 'slot predicate is a conjunction of comparisons of the call index with the pattern\'s range bounds', not unrec, config=cfg, fn=cf, site='pred-shape', unrecognised=True,
           what='slot predicate shape', found=[show(d.value) for p in paths for d in p.decisions][:4])
    for (d1, d2), outs in sorted(results.items()):
        want = (d1 >= 0) and (d2 < 0)
        if d2 > d1:
            continue   # i - end > i - start would mean end < start
        chk.ob(rule, 'slot ownership: start <= i < end  (region i-start=%+d, i-end=%+d)' % (d1, d2), outs == {want}, config=cfg, fn=cf, site='pred(%+d,%+d)' % (d1, d2),
               what='slot predicate boundary (i-start=%+d,i-end=%+d) -> %s' % (d1, d2, sorted(outs)), found=sorted(outs), expected=[want])


def _range_path(ns):
    """field path with the payload step of `Option<Range>` removed: [.., 'ordered_call_index_range', '0', 'start'] -> [.., 'ordered_call_index_range', 'start']"""
    out = []
    for i, n in enumerate(ns):
        if n == '0' and i > 0 and ns[i - 1] == 'ordered_call_index_range':
            continue
        out.append(n)
    return out


def contains_owns_slot(o):
    """`range.contains(&x)` on the pattern's own slot range with x = the call's position itself (std contract: start <= x < end)"""
    o = strip(o)
    if not (is_call(o, r'ops::Range(<Idx>)?::contains$|RangeBounds>?::contains$') and len(o[2]) == 2):
        return False
    if _range_path(field_path(strip(o[2][0]))[1])[-1:] != ['ordered_call_index_range']:
        return False
    a = strip(o[2][1])
    if a[0] == 'ref' and len(a) > 3:
        a = strip(a[3])
    elif a[0] == 'ref':
        return False
    return slot_sym(a) == ('i', 0)


def slot_sym(v):
    return eval_slot_cmp(('Eq', v, v), 0, 0, want_sym=True)


def eval_slot_cmp(cmp, d1, d2, want_sym=False):
    """truth of a comparison between the call index i (closure upvar) and range.start / range.end"""
    op, l, r = cmp

    def sym(v):
        lin = linear(v)
        if lin is None or len(lin[0]) > 1:
            return None
        if not lin[0]:
            return ('const', lin[1])
        (s, c), = lin[0].items()
        if c != 1:
            return None
        root, ns = field_path(s)
        ns = _range_path(ns)
        if ns[-2:] == ['ordered_call_index_range', 'start']:
            return ('start', lin[1])
        if ns[-2:] == ['ordered_call_index_range', 'end']:
            return ('end', lin[1])
        if ns[-1:] == ['ordered_call_index'] or (s[0] == 'param'):
            return ('i', lin[1])
        if s[0] in ('deref', 'field') and 'ordered_call_index' in show(s):
            return ('i', lin[1])
        if root == ('param', 0, 1) and ns and ns[0].startswith('_ref__') or (root == ('param', 0, 1) and len(ns) >= 1 and not any(n_ in ('ordered_call_index_range',) for n_ in ns)):
            # something the predicate closure captured from the lookup function (the call's position, whatever it is called and
            # whatever newtype it travels in): not a property of the element, which is the closure's own argument
            return ('i', lin[1])
        return None
    a, b = sym(l), sym(r)
    if want_sym:
        return a
    if a is None or b is None:
        return None
    # choose concrete values: i = 10, start = 10 - d1, end = 10 - d2
    val = {'i': 10, 'start': 10 - d1, 'end': 10 - d2}
    if a[0] == 'const' or b[0] == 'const':
        return None
    x = val[a[0]] + a[1]
    y = val[b[0]] + b[1]
    return symex.cmp_holds(op, x - y)
