"""C12 — single-use return values are moved out at most once and never duplicated."""
import re
import symex
from symex import strip, show, is_call, field_path, mentions
from props import evalcore as E, lifecycle as L, leaks, outputs
from props.c11 import LOCK_ALLOW
from props.util import configs, load
import tywit

LEVEL = 'other'


def impl_of(F, trait_rx, self_rx=None, ref_rx=None):
    out = []
    for im in F.impls:
        if im.get('trait') and re.search(trait_rx, im['trait']) and (ref_rx is None or re.search(ref_rx, im.get('trait_ref', ''))) and (self_rx is None or re.search(self_rx, im['self_ty'])):
            out.append(im)
    return out


def run(chk, tier):
    chk.explain('K7: the single-use conversion impl (IntoReturnOnce<Owning<T>>) has no Clone/Copy bound, the multi-use one demands T: Clone; '
                'K1/K6: the stored single-use closure returns exactly the result of Option::take executed inside MutexIsh::locked on the slot '
                'built from Some(value.into()), the multi-use closure returns Some(value.clone()); K3: eval::eval turns an exhausted value '
                'into an error; composite kinds propagate None without fabricating a partial value; K1: no leak primitives; TYWIT: '
                'compile-fail witnesses (with compiling twins) show the builder rejects multi-use quantifiers for non-Clone values.')
    for cfg in configs(tier, quick=('std', 'nostd'), thorough=('std', 'mocks', 'nostd-spin', 'nostd')):
        F = load(chk, cfg)
        from props import builder as B
        B.conversion_table(chk, F, 'R12.7', cfg)
        # R12.13 an ordered single-use value is requested at the slot its clause was declared at: only ordered patterns reserve slots (an
        # any-order clause in front must not shift it out of reach) - the slot assignment shared with C04
        from props.c04 import range_assignment
        range_assignment(chk, F, 'R12.13', cfg)
        # R12.12 the quantifier of a single-use value advances the running response index by its count, so a response that follows with
        # then() starts behind it and never shadows the value (every builder API function: push before quantify, documented count)
        B.api_table(chk, F, 'R12.12', cfg)
        B.quantify_arith(chk, F, 'R12.12.arith', cfg)
        # R12.11 'handed to exactly one caller, also when several threads race for it': which caller a single-use value goes to is decided by
        # its position - the result of one atomic RMW (shared with C10/C04), never a bump followed by a separate read
        from props.c10 import position_is_rmw
        position_is_rmw(chk, F, 'R12.11', cfg)
        # R12.10 the converted value is what gets stored as the response (filed, never dropped on the way)
        B.returner_error_latched(chk, F, 'R12.10', cfg)
        # ---- R12.1 bounds
        once = impl_of(F, r'^output::IntoReturnOnce$', ref_rx=r'IntoReturnOnce<output::owning::Owning<T>>')
        multi = impl_of(F, r'^output::IntoReturn$', ref_rx=r'IntoReturn<output::owning::Owning<T>>')
        chk.ob('R12.1', 'exactly one single-use and one multi-use conversion impl for owned values', len(once) == 1 and len(multi) == 1, config=cfg, site='impls', unrecognised=True, what='impl census', found=[len(once), len(multi)])
        for im in once:
            bad = [p for p in im['predicates'] if re.search(r': core::(clone::Clone|marker::Copy)\b', p)]
            chk.ob('R12.1', 'the single-use conversion cannot duplicate the value (no Clone/Copy bound => parametricity)', not bad, config=cfg, site='once-bounds', what='Clone/Copy bound on single-use impl %s' % bad, found=im['predicates'])
        for im in multi:
            ok = any(re.search(r'^T: core::clone::Clone$', p) for p in im['predicates'])
            chk.ob('R12.1', 'the multi-use conversion demands T: Clone', ok, config=cfg, site='multi-bounds', what='multi-use impl bounds', found=im['predicates'])
        # ---- R12.2 take under lock
        iro = [f for f in F.fns.values() if re.search(r'^output::owning::<impl output::IntoReturnOnce<.*>::into_return_once$', f.defp)]
        chk.ob('R12.2', 'single-use conversion function found', len(iro) == 1, config=cfg, site='anchor', unrecognised=True, what='into_return_once anchor', found=[f.defp for f in iro])
        for fn in iro:
            for p in symex.Interp(F).run(fn):
                v = strip(p.outcome[1])
                if cfg == 'nostd':
                    ok = v[0] == 'agg' and v[3] == 'Err' and 'NoMutexApi' in show(v)
                    chk.ob('R12.2', 'without a mutex API a single-use value cannot be stored: Err(NoMutexApi)', ok, config=cfg, fn=fn, site='nomutex', what='nostd into_return_once', found=show(v)[:200])
                    continue
                clo = None
                for x in symex.subvalues(v):
                    if x[0] == 'agg' and x[1] == 'closure':
                        clo = x
                        break
                ok = v[0] == 'agg' and v[3] == 'Ok' and clo is not None
                slot = None
                for _, up in (clo[4] if clo else ()):      # (the lock the stored closure captured, whatever the variable is called)
                    if is_call(up, r'MutexIsh::new$'):
                        slot = up
                ok_slot = slot is not None and is_call(slot, r'MutexIsh::new$') and strip(slot[2][0])[0] == 'agg' and strip(slot[2][0])[3] == 'Some' and \
                    is_call(strip(strip(slot[2][0])[4][0][1]), r'Into>?::into$') and strip(strip(strip(slot[2][0])[4][0][1])[2][0]) == ('param', 0, 1)
                chk.ob('R12.2', 'the single-use slot is a locked Some(value.into()) owned by the stored closure', ok and ok_slot, config=cfg, fn=fn, site='slot', what='single-use slot construction',
                       found=show(v)[:300], expected='Owned(Box::new(move || mutex.locked(|o| o.take()))) with mutex = MutexIsh::new(Some(self.into()))')
                if clo is not None:
                    cf = F.fns[clo[2]]
                    for cp in symex.Interp(F, inline=lambda f, d, n: True).run(cf):
                        takes = list(cp.calls(r'^core::option::Option::take$'))
                        r = strip(cp.outcome[1]) if cp.outcome[0] == 'return' else ('unk', '')
                        okr = len(takes) == 1 and r[0] == 'call' and r[1] == takes[0].data[1] and r[3] == takes[0].data[3]
                        locked = any(True for _ in cp.calls(r'Mutex::lock$|RefCell::borrow_mut$')) and cp.effects.index(takes[0]) > min(cp.effects.index(e) for e in cp.calls(r'Mutex::lock$|RefCell::borrow_mut$')) if takes else False
                        # (calls of helpers that do not exist on the reference tree are opened up by the policy above: what they do shows up as their own effects)
                        opened = lambda e_: (symex.callee_def(e_.term) in F.fns and symex.is_new_helper(F.fns[symex.callee_def(e_.term)])) if e_.term is not None else False  # noqa: E731
                        others = [e.data[1] for e in cp.calls() if not re.search(r'(MutexIsh::locked|Mutex::lock|Result::unwrap|DerefMut>?::deref_mut|FnOnce::call_once|Option::take|RefCell::borrow_mut)$', e.data[1]) and not opened(e)]
                        chk.ob('R12.2', 'each request obtains the value only as the result of Option::take under the lock (no clone, no check-then-act)', okr and locked and not others, config=cfg, fn=cf, site='take',
                               what='single-use closure: take=%d locked=%s others=%s' % (len(takes), locked, others), found={'returns': show(r)[:160], 'other_calls': others})
        irm = [f for f in F.fns.values() if re.search(r'^output::owning::<impl output::IntoReturn<.*>::into_return$', f.defp)]
        for fn in irm:
            for p in symex.Interp(F).run(fn):
                clo = None
                for x in symex.subvalues(strip(p.outcome[1])):
                    if x[0] == 'agg' and x[1] == 'closure':
                        clo = x
                if clo is None:
                    chk.ob('R12.2', 'multi-use conversion stores a closure', False, config=cfg, fn=fn, site='multi', unrecognised=True, what='multi-use shape')
                    continue
                cf = F.fns[clo[2]]
                for cp in symex.Interp(F).run(cf):
                    r = strip(cp.outcome[1])
                    ok = r[0] == 'agg' and r[3] == 'Some' and is_call(strip(r[4][0][1]), r'Clone>?::clone$') and not [e for e in cp.effects if e.kind == 'write']
                    chk.ob('R12.2', 'a multi-use value is cloned per call and the stored original is never moved or written', ok, config=cfg, fn=cf, site='clone', what='multi-use closure', found=show(r)[:160])
        # ---- R12.3
        E.eval_table(chk, F, 'R12.3', cfg)
        outputs.variant_maps(chk, F, 'R12.3.composite', cfg)
        outputs.conversion_flavour(chk, F, 'R12.6', cfg)
        outputs.tuple_slots(chk, F, 'R12.8', cfg)
        # R12.9 Vec composites: one output element per stored element or the whole request fails (an exhausted single-use leaf is never skipped)
        outputs.vec_traversals(chk, F, 'R12.9', cfg)
        # ---- R12.4
        leaks.census(chk, F, 'R12.4', cfg)
        if cfg != 'nostd':
            L.locked_census(chk, F, 'R12.2.lock', cfg, LOCK_ALLOW, 3)
    # ---- R12.5 witnesses
    try:
        rs = tywit.run('c12_')
    except tywit.TywitError as e:
        chk.ob('R12.5', 'witness harness builds /repo', False, site='build', unrecognised=True, what='tywit build failed', found=str(e)[-800:])
        rs = []
    chk.programs = len(rs)
    for r in rs:
        chk.ob('R12.5', 'witness %s: %s' % (r['name'], 'must not type-check (%s, %s)' % (r['expect'], r['mentions']) if r['expect'] != 'ok' else 'twin must compile'), r['ok'], site='witness:%s' % r['name'],
               what='witness %s: %s' % (r['name'], r['detail'][:120]), found=r['detail'], expected=r['expect'])
    chk.floor('R12.5', 'compile-fail witnesses + twins', len(rs), 21)
    chk.sample({'witnesses': [(r['name'], r['detail'][:100]) for r in rs[:4]]})
