"""Loader and query helpers over the JSON facts exported by engines/mirfacts.

Everything here is a pure function of the facts file (= of /repo's type-checked program).
"""
import json
import os
import re
import subprocess
import hashlib
import time

VERIF = os.path.abspath(os.path.join(os.path.dirname(__file__), '..', '..'))
REPO = os.environ.get('VERIF_REPO', '/repo')


class FactsError(Exception):
    """Raised when an anchor or expected structure is missing (fail closed)."""


def place_str(p):
    s = '_%d' % p['l']
    for e in p['pr']:
        if e == 'deref':
            s = '(*%s)' % s
        elif isinstance(e, dict):
            if 'f' in e:
                s = '%s.%s' % (s, e.get('name', e['f']))
            elif 'downcast' in e:
                s = '(%s as %s)' % (s, e['downcast'])
            elif 'index' in e:
                s = '%s[_%d]' % (s, e['index'])
            elif 'cidx' in e:
                s = '%s[%s%d]' % (s, '-' if e.get('from_end') else '', e['cidx'])
            else:
                s = '%s.?' % s
        else:
            s = '%s.%s' % (s, e)
    return s


class Fn:
    def __init__(self, facts, j, promoted_of=None, pidx=None):
        self.facts = facts
        self.j = j
        if promoted_of is None:
            self.defp = j.get('key', j['def'])
            self.rawdef = j['def']
            self.uid = j.get('uid')
            self.name = j['name']
            self.kind = j['kind']
            self.body = j['body']
            self.root = j.get('root_key', j.get('root', self.defp))
            self.parent = j.get('parent_key', j.get('parent'))
            self.impl_of = j.get('impl_of')
            self.file = j['span']['file']
            self.line = j['span']['line']
            self.macros = j.get('macros', [])
            self.predicates = j.get('predicates', [])
            self.generics = j.get('generics', [])
            self.vis = j.get('vis')
            self.track_caller = j.get('track_caller', False)
            self.upvars = j.get('upvars', [])
            self.promoted = [Fn(facts, pb, promoted_of=self, pidx=i) for i, pb in enumerate(j.get('promoted', []))]
        else:
            self.defp = '%s::{promoted#%d}' % (promoted_of.defp, pidx)
            self.rawdef = self.defp
            self.uid = None
            self.name = '{promoted}'
            self.kind = 'promoted'
            self.body = j
            self.root = promoted_of.root
            self.parent = promoted_of.defp
            self.impl_of = None
            self.file = promoted_of.file
            self.line = promoted_of.line
            self.macros = []
            self.predicates = []
            self.generics = []
            self.vis = None
            self.track_caller = False
            self.upvars = []
            self.promoted = []
        self.blocks = self.body['blocks']
        self.locals = self.body['locals']
        self.arg_count = self.body['arg_count']
        self._dom = None
        self._preds = None

    def __repr__(self):
        return '<Fn %s>' % self.defp

    def where(self, bb=None, line=None):
        if line is None and bb is not None:
            line = self.blocks[bb]['term'].get('line')
        return '%s:%s (%s%s)' % (self.file, line if line is not None else self.line, self.defp,
                                 '' if bb is None else ' bb%d' % bb)

    # ---- CFG ----
    def succs(self, bb, with_unwind=False):
        t = self.blocks[bb]['term']
        k = t['k']
        out = []
        if k == 'goto':
            out = [t['target']]
        elif k == 'switch':
            out = [x[1] for x in t['targets']] + [t['otherwise']]
        elif k in ('call', 'drop', 'assert'):
            if t.get('target') is not None:
                out = [t['target']]
            if with_unwind and isinstance(t.get('unwind'), int):
                out.append(t['unwind'])
        elif k == 'yield':
            out = [t['resume']]
            if t.get('drop') is not None:
                out.append(t['drop'])
        return out

    def normal_blocks(self):
        return [i for i, b in enumerate(self.blocks) if not b['cleanup']]

    def preds(self):
        if self._preds is None:
            p = {i: [] for i in range(len(self.blocks))}
            for i in range(len(self.blocks)):
                if self.blocks[i]['cleanup']:
                    continue
                for s in self.succs(i):
                    p[s].append(i)
            self._preds = p
        return self._preds

    def reachable(self, start=0, avoid_edge=None, avoid_blocks=()):
        """blocks reachable from start over normal edges, optionally avoiding an edge (a,b)"""
        seen = set()
        st = [start]
        while st:
            b = st.pop()
            if b in seen or b in avoid_blocks:
                continue
            seen.add(b)
            for s in self.succs(b):
                if avoid_edge and (b, s) == avoid_edge:
                    continue
                st.append(s)
        return seen

    def dominators(self):
        """dict bb -> set of dominators (normal edges only)"""
        if self._dom is None:
            nodes = sorted(self.reachable(0))
            preds = self.preds()
            dom = {n: set(nodes) for n in nodes}
            dom[0] = {0}
            changed = True
            while changed:
                changed = False
                for n in nodes:
                    if n == 0:
                        continue
                    ps = [p for p in preds[n] if p in dom]
                    new = set(nodes)
                    for p in ps:
                        new &= dom[p]
                    new = new | {n}
                    if new != dom[n]:
                        dom[n] = new
                        changed = True
            self._dom = dom
        return self._dom

    def dominates(self, a, b):
        d = self.dominators()
        return b in d and a in d[b]

    # ---- queries ----
    def live_blocks(self):
        """blocks reachable from the entry when a switch on a *literal* constant only takes its matching target (e.g. the body of
        `if cfg!(debug_assertions) { .. }` in a build without debug assertions is dead code, whatever the optimisation level)"""
        if getattr(self, '_live', None) is not None:
            return self._live
        seen, work = set(), [0] if self.blocks else []
        while work:
            bb = work.pop()
            if bb in seen or bb >= len(self.blocks):
                continue
            seen.add(bb)
            t = self.blocks[bb]['term']
            nxt = None
            if t['k'] == 'switch':
                on = t.get('on') if isinstance(t.get('on'), dict) else {}
                c = on.get('c')
                pl = on.get('mv') or on.get('cp')
                if c is None and pl is not None and not pl.get('pr'):
                    # `_n = const false; switchInt(move _n)`: a local assigned exactly once, from a literal
                    defs = [s_ for b_ in self.blocks for s_ in b_['stmts'] if s_.get('k') == 'assign' and s_['p']['l'] == pl['l'] and not s_['p']['pr']]
                    if len(defs) == 1 and isinstance(defs[0]['rv'].get('use'), dict):
                        c = defs[0]['rv']['use'].get('c')
                if isinstance(c, dict) and ('bool' in c or 'int' in c) and 'promoted' not in c:
                    val = int(bool(c['bool'])) if 'bool' in c else int(c['int'])
                    nxt = [t['otherwise']]
                    for tv, tb in t['targets']:
                        if int(tv) == val:
                            nxt = [tb]
            work.extend(nxt if nxt is not None else self.succs(bb, with_unwind=True))
        self._live = seen
        return seen

    def calls(self, include_cleanup=False):
        live = self.live_blocks()
        for i, b in enumerate(self.blocks):
            if b['cleanup'] and not include_cleanup:
                continue
            if i not in live:
                continue
            t = b['term']
            if t['k'] in ('call', 'tailcall'):
                yield i, t

    def stmts(self, include_cleanup=False):
        for i, b in enumerate(self.blocks):
            if b['cleanup'] and not include_cleanup:
                continue
            for s in b['stmts']:
                yield i, s

    def local_ty(self, n):
        return self.locals[n]['ty']


def callee_def(t):
    """canonical callee key of a call terminator: the resolved item (unique key for local functions) if available"""
    c = t.get('callee', {})
    if 'indirect' in c:
        return 'indirect:' + c['indirect']
    r = c.get('resolved')
    if r and r.get('kind') in ('item', 'intrinsic'):
        return r.get('key') or r['def']
    return c.get('key') or c.get('def', '?')


_cn_cache = {}


def callee_name(t):
    """callee_def with generic-argument lists stripped (stable name for matching)"""
    d = callee_def(t)
    r = _cn_cache.get(d)
    if r is None:
        r = _cn_cache[d] = strip_generics(d)
    return r


def callee_unresolved(t):
    c = t.get('callee', {})
    return c.get('def', 'indirect')


def callee_is_local(t):
    c = t.get('callee', {})
    r = c.get('resolved')
    if r:
        return r.get('local', False)
    return c.get('local', False)


def callee_kind(t):
    c = t.get('callee', {})
    if 'indirect' in c:
        return 'indirect'
    r = c.get('resolved')
    if r:
        return r['kind']
    return 'unresolved'


def strip_generics(path):
    """`a::B::<T, U>::c` -> `a::B::c` (generic-argument lists after `::` removed; `<impl ..>` and
    leading qualified-path segments `<T as Tr>` are kept verbatim)"""
    out = []
    i = 0
    n = len(path)
    while i < n:
        if path.startswith('::<', i) and not path.startswith('::<impl ', i):
            # skip balanced <...>
            j = i + 3
            depth = 1
            while j < n and depth > 0:
                ch = path[j]
                if ch == '<':
                    depth += 1
                elif ch == '>' and path[j - 1] != '-':
                    depth -= 1
                j += 1
            i = j
            continue
        out.append(path[i])
        i += 1
    return ''.join(out)


_ALLOC_MARKERS = ('vec::Vec', 'boxed::Box', 'string::String')


def normalise_alloc(txt):
    """In no_std configurations rustc prints alloc items through whatever path the crate links the `alloc` crate under: its own
    `pub mod alloc` re-export (`alloc::alloc::vec::Vec`) or a renamed `extern crate alloc as <name>` (`<name>::vec::Vec`). Both are
    normalised to the names used in std builds. A renamed link is recognised by being the top-level prefix of all of Vec, Box and String."""
    txt = txt.replace('alloc::alloc::', 'std::')
    cands = set(re.findall(r'(?<![A-Za-z0-9_:])([a-z_][a-z0-9_]*)::vec::Vec\b', txt)) - {'std', 'alloc', 'core'}
    for x in sorted(cands):
        if all(re.search(r'(?<![A-Za-z0-9_:])%s::%s\b' % (re.escape(x), m), txt) for m in _ALLOC_MARKERS):
            txt = re.sub(r'(?<![A-Za-z0-9_:])%s::' % re.escape(x), 'std::', txt)
    return txt


class Facts:
    def _find_relocated(self):
        """Fields of a reference-tree struct S that were merged into a nested struct N (new, the type of a field g of S): every field h of N
        has the type of exactly one reference field f of S that is gone from S (or is g itself, whose type was f's). Then `s.g.h` is the
        place `s.f` was, and the interpreter presents it as such (symex: _lvalue / _project / aggregates).
          relocated[N]        = {(g, h): f}
          relocated_pairs     = {(g, h): f}                         (all N together; for values moved out as a whole)
          relocated_owner[S]  = {g: {'nested': N, 'map': {h: f}}}"""
        self.relocated, self.relocated_pairs, self.relocated_owner = {}, {}, {}
        try:
            badts = _baseline().get(self.crate, {}).get('adts', {})
        except Exception:
            return
        for sp, a in self.adts.items():
            b = badts.get(sp)
            if not b or not a.get('local') or a['kind'] != 'struct' or b['kind'] != 'struct' or len(a['variants']) != 1:
                continue
            bfields = dict((n, t) for n, t in b['variants'][0][1])
            cfields = dict((f['name'], f['ty']) for f in a['variants'][0]['fields'])
            gone = {n: t for n, t in bfields.items() if n not in cfields}
            if not gone:
                continue
            for g, gty in cfields.items():
                np_ = strip_generics(gty)
                n_ = self.adts.get(np_)
                if not n_ or np_ in badts or not n_.get('local') or n_['kind'] != 'struct' or len(n_['variants']) != 1 or len(n_['variants'][0]['fields']) < 2:
                    continue
                m, ok = {}, True
                for fl in n_['variants'][0]['fields']:
                    cands = [f for f, t in gone.items() if t == fl['ty']]
                    if g in bfields and bfields[g] == fl['ty']:
                        cands.append(g)
                    cands = sorted(set(cands))
                    if len(cands) != 1 or cands[0] in m.values():
                        ok = False
                        break
                    m[fl['name']] = cands[0]
                if ok and set(gone) <= set(m.values()):
                    self.relocated[np_] = {(g, h): f for h, f in m.items()}
                    self.relocated_pairs.update(self.relocated[np_])
                    self.relocated_owner.setdefault(sp, {})[g] = {'nested': np_, 'map': m}
                    self.rename_log = list(getattr(self, 'rename_log', [])) + ['fields %s of %s were merged into the nested struct %s (field %s): %s' % (sorted(gone), sp, np_, g, m)]

    def resolve_flags(self):
        """For every bool field of the reference tree that is a two-variant enum now (names.detect): which variant stands for `true`
        is read off the functions that gave the field a constant on the reference tree (baseline `boolinit`): each of them, analysed with
        its new helpers opened, must store one variant, and the variants stored where the reference stored `true` and `false` must be
        two different ones. Only then are values of the enum carried as that bool (symex); otherwise nothing is assumed."""
        self.flagenums = {}
        flags = getattr(self.renames, 'flags', None) or []
        if not flags:
            return
        import symex
        binit = _baseline().get(self.crate, {}).get('boolinit', {})
        for adt, field, enum in flags:
            ref = (binit.get(adt) or {}).get(field) or {}
            e = self.adts.get(enum)
            if not ref or not e or enum in self.flagenums:
                continue
            votes = {}
            for fdef, val in ref.items():
                fn = self.fns.get(fdef)
                if fn is None:
                    continue
                for p in symex.Interp(self, mode={'inline_private': True, 'combinators': False}).run(fn):
                    if p.outcome[0] != 'return':
                        continue
                    for x in symex.subvalues(p.outcome[1]):
                        if x[0] == 'agg' and x[1] == 'adt' and x[2] == adt:
                            fv = symex.strip(dict(x[4]).get(field, ('unk', '')))
                            if fv[0] == 'agg' and fv[2] == enum:
                                votes.setdefault(fv[3], set()).add(bool(val))
                            else:
                                votes.setdefault('?', set()).add(bool(val))
            tv = [v for v, s in votes.items() if s == {True}]
            fv = [v for v, s in votes.items() if s == {False}]
            if len(tv) == 1 and len(fv) == 1 and len(votes) == 2 and '?' not in votes:
                d = {x['name']: x['discr'] for x in e['variants']}
                self.flagenums[enum] = {'true_variant': tv[0], 'false_variant': fv[0], 'true_discr': d[tv[0]], 'false_discr': d[fv[0]]}
                self.rename_log = list(getattr(self, 'rename_log', [])) + ['%s::%s stands for `true` of %s.%s, %s for `false` (what %s store)' % (enum, tv[0], adt, field, fv[0], sorted(ref))]

    def _map_config_fields(self):
        """Fields that only exist in some feature configurations cannot be reconciled through the reference inventory (taken from the
        std build). The one such field the rules name - the per-instance flag of no_std builds, `Unimock.panicked: MutexIsh<bool>` - is
        recognised by its role: the only field of Unimock that is a MutexIsh<bool>, directly or inside a single-field struct that does
        not exist on the reference tree. It is presented under its reference name."""
        try:
            adts = self.j.get('adts', {})
            u = adts.get('Unimock')
            if not u or self.j.get('crate') != 'unimock':
                return
            fields = u['variants'][0]['fields']
            if any(f['name'] == 'panicked' for f in fields):
                return
            known = set(_baseline().get('unimock', {}).get('adts', {}))

            def is_flag(t):
                if t == 'private::MutexIsh<bool>':
                    return True
                w = adts.get(strip_generics(t))
                return bool(w) and strip_generics(t) not in known and w.get('local') and w['kind'] == 'struct' and len(w['variants']) == 1 and \
                    len(w['variants'][0]['fields']) == 1 and w['variants'][0]['fields'][0]['ty'] == 'private::MutexIsh<bool>'
            cands = [f for f in fields if is_flag(f['ty'])]
            if len(cands) == 1:
                import names
                self.rename_log = list(getattr(self, 'rename_log', [])) + ['field %s of Unimock is the no_std panic flag (`panicked` on the reference tree): the only MutexIsh<bool> of the instance' % cands[0]['name']]
                names.apply_structured(self.j, [('Unimock', cands[0]['name'], 'panicked')])
        except Exception:
            return

    def __init__(self, path):
        with open(path) as f:
            txt = f.read()
        # in no_std configurations rustc prints alloc items through the crate's own `pub mod alloc`
        # re-export (`alloc::alloc::vec::Vec`); normalise to the names used in std builds
        txt = normalise_alloc(txt)
        # items renamed since the reference tree are mapped back to their reference names (names.py)
        self.renames, self.rename_log = tree_renames()
        if self.renames:
            import names
            txt = names.apply(txt, self.renames)
        self.j = json.loads(txt)
        if getattr(self.renames, 'structured', None):
            import names
            names.apply_structured(self.j, self.renames.structured)
        if getattr(self.renames, 'tuples', None):
            import names
            names.apply_tuples(self.j, self.renames.tuples)
        self.path = path
        self.crate = self.j['crate']
        self.config = self.j['config']
        self.nonce = self.j['nonce']
        # printed def paths are not unique (items in different anonymous `const _` scopes print alike):
        # link by the compiler's def-path (uid); the dict key is the printed path, disambiguated with #n on collision
        counts = {}
        for fj in self.j['fns']:
            counts[fj['def']] = counts.get(fj['def'], 0) + 1
        seen = {}
        self.key_of_uid = {}
        for fj in sorted(self.j['fns'], key=lambda x: x.get('uid') or ''):
            d = fj['def']
            if counts[d] > 1:
                seen[d] = seen.get(d, 0) + 1
                fj['key'] = '%s#%d' % (d, seen[d])
            else:
                fj['key'] = d
            if fj.get('uid'):
                self.key_of_uid[fj['uid']] = fj['key']
        for fj in self.j['fns']:
            if fj.get('root_uid'):
                fj['root_key'] = self.key_of_uid.get(fj['root_uid'], fj.get('root'))
            if fj.get('parent_uid'):
                fj['parent_key'] = self.key_of_uid.get(fj['parent_uid'], fj.get('parent'))
            self._rekey_body(fj.get('body'))
            for pb in fj.get('promoted', []):
                self._rekey_body(pb)
        for im in self.j['impls']:
            for it in im.get('items', []):
                if it.get('uid') in self.key_of_uid:
                    it['def'] = self.key_of_uid[it['uid']]
        self._map_config_fields()
        self.fns = {}
        for fj in self.j['fns']:
            fn = Fn(self, fj)
            self.fns[fn.defp] = fn
        self.adts = self.j['adts']
        # wrapper structs that do not exist on the reference tree and have exactly one field (a newtype put around an existing
        # value, e.g. a map wrapped in a struct with forwarding methods) are seen through by the interpreter: the wrapped value keeps
        # the place it has on the reference tree. (Their forwarding methods are new functions, opened up by the inline mode.)
        self.transparent = set()
        try:
            import names
            if os.path.exists(names.BASELINE):
                base = _baseline()
                badts = base.get(self.crate, {}).get('adts', {})
                known = set(badts)
                if known:
                    for path_, a in self.adts.items():
                        if a.get('local') and a.get('crate') == self.crate and a['kind'] == 'struct' and len(a['variants']) == 1 and len(a['variants'][0]['fields']) == 1:
                            b_ = badts.get(path_)
                            # new, or an enum of the reference tree that became a newtype around another type (e.g. a hand-written mirror of
                            # Option / Result / Poll replaced by a wrapper of the std type itself)
                            if b_ is None or b_['kind'] != 'struct':
                                self.transparent.add(path_)
        except Exception:
            self.transparent = set()
        self._find_relocated()
        self.impls = self.j['impls']
        self.statics = self.j['statics']
        self.unsafe_code_lint = self.j['unsafe_code_lint']
        self._norm = {}
        for d in self.fns:
            self._norm.setdefault(strip_generics(d), []).append(d)
        self._children = {}
        for fn in self.fns.values():
            if fn.kind in ('closure', 'coroutine'):
                self._children.setdefault(fn.root, []).append(fn)

    def _rekey_body(self, body):
        if not body:
            return
        for b in body['blocks']:
            for st in b['stmts']:
                rv = st.get('rv') or {}
                if rv.get('closure_uid') in self.key_of_uid:
                    rv['closure'] = self.key_of_uid[rv['closure_uid']]
            t = b['term']
            c = t.get('callee')
            if c:
                r = c.get('resolved')
                if r and r.get('uid') in self.key_of_uid:
                    r['key'] = self.key_of_uid[r['uid']]
                if c.get('uid') in self.key_of_uid:
                    c['key'] = self.key_of_uid[c['uid']]

    # -- lookup ---
    def fn(self, name, optional=False):
        """find a function by generics-stripped def path (exact) — fail closed if not unique"""
        c = self._norm.get(name)
        if not c:
            if optional:
                return None
            raise FactsError('anchor function not found: %s (config %s)' % (name, self.config))
        if len(c) > 1:
            raise FactsError('anchor function ambiguous: %s -> %s' % (name, c))
        return self.fns[c[0]]

    def method(self, self_adt, name, trait=None, optional=False):
        """inherent or trait-impl method by (self ADT path, item name, trait path)"""
        c = []
        for fn in self.fns.values():
            io = fn.impl_of
            if not io or fn.name != name or fn.kind != 'assoc':
                continue
            if io.get('self_adt') != self_adt and io.get('self_ty') != self_adt:
                continue
            if (io.get('trait') or None) != trait:
                continue
            c.append(fn)
        if len(c) == 1:
            return c[0]
        if not c and optional:
            return None
        raise FactsError('anchor method %s::%s (trait %s) not found/ambiguous: %s' % (self_adt, name, trait, [f.defp for f in c]))

    def methods_named(self, name, trait=None):
        return sorted([fn for fn in self.fns.values() if fn.kind == 'assoc' and fn.name == name and
                       (trait is None or (fn.impl_of or {}).get('trait') == trait)], key=lambda f: f.defp)

    def fns_matching(self, regex):
        r = re.compile(regex)
        return [self.fns[d] for n, ds in sorted(self._norm.items()) if r.search(n) for d in ds]

    def closures_of(self, fn):
        """all closure bodies (transitively) syntactically inside fn"""
        return sorted(self._children.get(fn.defp, []), key=lambda f: f.defp)

    def with_closures(self, fn):
        return [fn] + self.closures_of(fn)

    def all_bodies(self, fn):
        out = []
        for f in self.with_closures(fn):
            out.append(f)
            out.extend(f.promoted)
        return out

    def adt(self, path):
        a = self.adts.get(path)
        if a is None:
            raise FactsError('ADT not found: %s' % path)
        return a

    def variant_by_discr(self, adt_path, val):
        a = self.adts.get(adt_path)
        if not a:
            return None
        for v in a['variants']:
            if v['discr'] == val:
                return v['name']
        return None

    def discr_of_variant(self, adt_path, name):
        a = self.adts.get(adt_path)
        if not a:
            return None
        for v in a['variants']:
            if v['name'] == name:
                return v['discr']
        return None

    # -- call graph over local functions --
    def callgraph(self):
        """dict def -> set of local callee defs (resolved item calls + closures created inside
        + unresolved trait calls that could dispatch to local impl fns are NOT expanded)."""
        if hasattr(self, '_cg'):
            return self._cg
        cg = {}
        for d, fn in self.fns.items():
            outs = set()
            for _, t in fn.calls(include_cleanup=True):
                n = callee_def(t)
                if n in self.fns:
                    outs.add(n)
                elif callee_kind(t) in ('unresolved', 'virtual'):
                    # unresolved call of a method of a *local* trait: may dispatch to any local impl
                    c = t.get('callee', {})
                    tr = c.get('trait')
                    if tr and c.get('local'):
                        for g in self.fns.values():
                            if g.kind == 'assoc' and g.name == c.get('name') and (g.impl_of or {}).get('trait') == tr:
                                outs.add(g.defp)
            for c in self._children.get(d, []):
                outs.add(c.defp)
            cg[d] = outs
        self._cg = cg
        return cg

    def reachable_fns(self, roots):
        cg = self.callgraph()
        seen = set()
        st = [r.defp if isinstance(r, Fn) else r for r in roots]
        while st:
            d = st.pop()
            if d in seen:
                continue
            seen.add(d)
            st.extend(cg.get(d, ()))
        return seen

    def callers_of(self, target_def, collapse_helpers=True):
        """list of (fn, bb, term) for every call site (incl. cleanup) whose canonical callee is target_def.
        A call site inside a function that does not exist on the reference tree (an extracted helper, see symex.is_new_helper)
        is attributed to the helper's own callers: who-may-call rules name the reference tree's functions."""
        out = []
        for fn in self.fns.values():
            for f in [fn] + fn.promoted:
                for bb, t in f.calls(include_cleanup=True):
                    if callee_def(t) == target_def or callee_name(t) == target_def:
                        out.append((f, bb, t))
        if not collapse_helpers:
            return out
        import symex
        res, seen = [], set()
        work = list(out)
        while work:
            f, bb, t = work.pop(0)
            owner = self.fns.get(f.root) if f.kind in ('closure', 'promoted') and f.root in self.fns else f
            if owner is not None and symex.is_new_helper(owner) and owner.defp not in seen:
                seen.add(owner.defp)
                up = self.callers_of(owner.defp, collapse_helpers=False)
                if up:
                    work.extend(up)
                    continue
            res.append((f, bb, t))
        return res


# ------------------------------------------------------------------------------------------
# Extraction + caching keyed by a hash of /repo's working tree
# ------------------------------------------------------------------------------------------

def tree_hash():
    h = hashlib.sha256()
    for root, dirs, files in os.walk(REPO):
        dirs[:] = sorted(d for d in dirs if d not in ('target', '.git'))
        for fn in sorted(files):
            p = os.path.join(root, fn)
            if not (fn.endswith('.rs') or fn.endswith('.toml') or fn == 'Cargo.lock'):
                continue
            h.update(os.path.relpath(p, REPO).encode())
            with open(p, 'rb') as f:
                h.update(hashlib.sha256(f.read()).digest())
    drv = os.path.join(VERIF, 'engines', 'mirfacts', 'src', 'main.rs')
    with open(drv, 'rb') as f:
        h.update(f.read())
    return h.hexdigest()[:24]


_loaded = {}
_renames = {}
_base_cache = []


def _baseline():
    if not _base_cache:
        import names
        with open(names.BASELINE) as f:
            _base_cache.append(json.load(f))
    return _base_cache[0]


def raw_path(config, crate='unimock'):
    """path of the raw facts file of (config, crate) for the current tree, extracting if necessary"""
    th = tree_hash()
    d = os.path.join(VERIF, '.cache', 'facts', '%s-%s' % (th, config))
    f = os.path.join(d, '%s.lib.json' % crate)
    if os.environ.get('VERIF_NOCACHE') == '1' and (config, th) not in _extracted or not (os.path.exists(f) and os.path.exists(os.path.join(d, 'nonce'))):
        _extract_locked(config, d)
        _extracted.add((config, th))
    if not os.path.exists(f):
        raise FactsError('facts file missing after extraction: %s' % f)
    return f


_extracted = set()


def tree_renames():
    th = tree_hash()
    if th in _renames:
        return _renames[th]
    _renames[th] = ([], [])     # while computing (and if it fails): names as they are
    import names
    try:
        raws = []
        for crate in ('unimock', 'unimock_macros'):
            with open(raw_path('std', crate)) as f:
                raws.append(normalise_alloc(f.read()))
        _renames[th] = names.renames_for(raws[0], raws[1])
    except FactsError:
        raise
    return _renames[th]


def load(config, crate='unimock', tier='quick'):
    """Extract (or reuse, if /repo's tree hash matches) and load facts for a config."""
    th = tree_hash()
    key = (config, crate, th)
    if key in _loaded:
        return _loaded[key]
    d = os.path.join(VERIF, '.cache', 'facts', '%s-%s' % (th, config))
    f = os.path.join(d, '%s.lib.json' % crate)
    nocache = os.environ.get('VERIF_NOCACHE') == '1'
    ok_marker = os.path.join(d, 'nonce')
    if (nocache and (config, th) not in _extracted) or not (os.path.exists(f) and os.path.exists(ok_marker)):
        _extract_locked(config, d)
        _extracted.add((config, th))
    if not os.path.exists(f):
        raise FactsError('facts file missing after extraction: %s' % f)
    facts = Facts(f)
    with open(ok_marker) as nf:
        nonce = nf.read().strip()
    if facts.nonce != nonce:
        raise FactsError('stale facts file (nonce mismatch) %s' % f)
    if facts.config != config:
        raise FactsError('facts config mismatch')
    _loaded[key] = facts
    _gc_cache(th)
    return facts


def _extract_locked(config, d):
    import fcntl
    os.makedirs(os.path.join(VERIF, '.cache', 'facts'), exist_ok=True)
    lock = os.path.join(VERIF, '.cache', 'facts', 'lock-%s' % config)
    with open(lock, 'w') as lf:
        fcntl.flock(lf, fcntl.LOCK_EX)
        try:
            if os.path.exists(os.path.join(d, 'nonce')) and os.environ.get('VERIF_NOCACHE') != '1':
                return
            nonce = '%d-%d' % (time.time_ns(), os.getpid())
            env = dict(os.environ, VERIF_NONCE=nonce)
            tmp = d + '.tmp%d' % os.getpid()
            r = subprocess.run([os.path.join(VERIF, 'lib', 'extract_facts.sh'), config, tmp], env=env,
                               capture_output=True, text=True)
            if r.returncode != 0:
                raise FactsError('facts extraction failed for config %s:\n%s\n%s' % (config, r.stdout[-3000:], r.stderr[-3000:]))
            if os.path.exists(d):
                import shutil
                shutil.rmtree(d)
            os.rename(tmp, d)
        finally:
            fcntl.flock(lf, fcntl.LOCK_UN)


def _gc_cache(keep_hash):
    """keep the facts cache small: remove entries of other tree hashes older than a day,
    and never keep more than 12 directories"""
    base = os.path.join(VERIF, '.cache', 'facts')
    try:
        ents = [e for e in os.listdir(base) if os.path.isdir(os.path.join(base, e))]
    except OSError:
        return
    others = [e for e in ents if not e.startswith(keep_hash)]
    others.sort(key=lambda e: os.path.getmtime(os.path.join(base, e)))
    import shutil
    now = time.time()
    while len(others) > 8:
        e = others.pop(0)
        if now - os.path.getmtime(os.path.join(base, e)) < 1800:
            continue    # possibly in use by a concurrently running check on another tree
        shutil.rmtree(os.path.join(base, e), ignore_errors=True)
