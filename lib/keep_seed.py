#!/usr/bin/env python3
"""keep_seed.py <Cxx> [extra property ids to run...]: after lib/confirm_seed.sh has confirmed a seeded change in
/tmp/seed/<Cxx>/wt, store it under /verif/seeded/<Cxx>/ (patch.diff, demonstration, notes, meta.json with what was run
and which checks fire on it), then remove the scratch worktree and its build output."""
import json, os, re, shutil, subprocess, sys
pid = sys.argv[1]
also = [a for a in sys.argv[2:] if not a.startswith('--')]
rnd = 11 if '--round11' in sys.argv else 10 if '--round10' in sys.argv else 9 if '--round9' in sys.argv else 8 if '--round8' in sys.argv else 7 if '--round7' in sys.argv else 6 if '--round6' in sys.argv else 5 if '--round5' in sys.argv else 4 if '--round4' in sys.argv else (3 if '--round3' in sys.argv else (2 if '--round2' in sys.argv else 1))
base = {1: '/tmp/seed/%s', 2: '/tmp/seed2/%s', 3: '/tmp/seed3/%s', 4: '/tmp/seed4/%s', 5: '/tmp/seed5/%s', 6: '/tmp/seed6/%s', 7: '/tmp/seed7/%s', 8: '/tmp/seed8/%s', 9: '/tmp/seed9/%s', 10: '/tmp/seed10/%s', 11: '/tmp/seed11/%s'}[rnd] % pid
wt = base + '/wt'
out = base + '/out'
dst = '/verif/seeded/%s%s' % (pid, {1: '', 2: '-r2', 3: '-r3', 4: '-r4', 5: '-r5', 6: '-r6', 7: '-r7', 8: '-r8', 9: '-r9', 10: '-r10', 11: '-r11'}[rnd])
confirm = None
for f in ('/tmp/seed/confirm_batch1.txt', '/tmp/seed/confirm_batch2.txt', '/tmp/seed/confirm_batch3.txt', '/tmp/seed/confirm_batch4.txt', '/tmp/seed/confirm_batch5.txt', '/tmp/seed/confirm_batch6.txt', '/tmp/seed2/confirm.txt', '/tmp/seed3/confirm.txt', '/tmp/seed4/confirm.txt', '/tmp/seed5/confirm.txt', '/tmp/seed6/confirm.txt', '/tmp/seed7/confirm.txt', '/tmp/seed8/confirm.txt', '/tmp/seed9/confirm.txt', '/tmp/seed10/confirm.txt', '/tmp/seed11/confirm.txt', base + '/confirm.txt'):
    if not f.startswith(os.path.dirname(base)) or (rnd == 1 and f.startswith('/tmp/seed2')) or (rnd == 1 and f.startswith('/tmp/seed3')) or (rnd == 1 and f.startswith('/tmp/seed4')):
        continue
    if os.path.exists(f):
        for line in open(f):
            if line.startswith(pid + ' '):
                confirm = line.strip()
if not confirm or 'suite_with_change=PASS demo_with_change=FAIL demo_without_change=PASS' not in confirm:
    print('NOT CONFIRMED:', confirm)
    sys.exit(1)
os.makedirs(dst, exist_ok=True)
for f in os.listdir(out):
    shutil.copy(os.path.join(out, f), os.path.join(dst, f))
# the diff actually present in the worktree (source only), or a patch rebased onto /repo's current tree if one exists
reb = base + '/rebased.diff'
if os.path.exists(reb):
    shutil.copy(os.path.join(dst, 'patch.diff'), os.path.join(dst, 'patch.orig.diff')) if os.path.exists(os.path.join(dst, 'patch.diff')) else None
    d = open(reb).read()
else:
    d = subprocess.run(['git', '-C', wt, 'diff'], capture_output=True, text=True).stdout
open(os.path.join(dst, 'patch.diff'), 'w').write(d)
# run the checks against a scratch copy of /repo's CURRENT tree with the patch applied
import tempfile
scratch = tempfile.mkdtemp(prefix='seedkeep-')
subprocess.check_call(['rsync', '-a', '--exclude', 'target', '--exclude', '.git', '/repo/', scratch + '/repo/'])
subprocess.check_call(['git', 'init', '-q', '.'], cwd=scratch + '/repo')
ap = subprocess.run(['git', 'apply', os.path.join(dst, 'patch.diff')], cwd=scratch + '/repo', capture_output=True, text=True)
if ap.returncode != 0:
    print('PATCH DOES NOT APPLY TO CURRENT /repo:', ap.stderr[:300])
    sys.exit(1)
fired = {}
for p in [pid] + also:
    r = subprocess.run(['/verif/check', p, '--tier', 'quick'], env=dict(os.environ, VERIF_REPO=scratch + '/repo'), capture_output=True, text=True, cwd='/verif')
    rules = sorted(set(re.findall(r'\[(?:VIOLATED|UNRECOGNISED)\] (\S+)', r.stdout)))
    kinds = sorted(set(re.findall(r'\[(VIOLATED|UNRECOGNISED)\]', r.stdout)))
    fired[p] = {'exit': r.returncode, 'rules': rules, 'kinds': kinds}
notes = open(os.path.join(out, 'notes.md')).read() if os.path.exists(os.path.join(out, 'notes.md')) else ''
meta = {
    'property': pid,
    'source': 'independent sub-agent given only the property text and its own scratch worktree' + (' (round %d: told to avoid the ideas of the earlier rounds)' % rnd if rnd > 1 else ''),
    'files_changed': sorted(set(re.findall(r'^diff --git a/(\S+)', d, re.M))),
    'needs_to_manifest': 'see notes.md',
    'confirmed_by_me': {'command': 'lib/confirm_seed.sh %s (full suite with change / demo with change / demo without change)' % pid, 'result': confirm},
    'checks_run': {'command': 'VERIF_REPO=<scratch copy of /repo at its current commit with patch.diff applied> ./check <id> --tier quick', 'result': fired},
    'caught': any(v['exit'] != 0 for v in fired.values()),
}
json.dump(meta, open(os.path.join(dst, 'meta.json'), 'w'), indent=1)
print(pid, 'kept; caught=%s' % meta['caught'], {k: v['rules'] for k, v in fired.items()})
shutil.rmtree(scratch, ignore_errors=True)
subprocess.run(['git', '-C', '/repo', 'worktree', 'remove', '--force', wt])
subprocess.run(['git', '-C', '/verif', 'checkout', '-q', '--', 'evidence'])
shutil.rmtree(base + '/aside', ignore_errors=True)
