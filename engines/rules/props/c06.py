"""C06 — matching! accepts exactly what the equivalent Rust match would accept."""
import re
import symex
from symex import strip, show, is_call, mentions, decision_variant
from props.util import configs, load
from props import evalcore as E
from xpand import rules as X

LEVEL = 'translation_validation'


def run(chk, tier):
    chk.explain('Translation validation on a generated pattern grammar (literals, ranges, wildcards, bindings, @-bindings, or-patterns, '
                'tuple/struct/enum/Option patterns, slice patterns with rest, string literals against &str/String/newtypes, eq!/ne!, '
                'two top-level alternatives, guards): each matching! closure and a reference `match` written by the generator from the '
                'grammar point (with AsRef coercion exactly at string-literal / slice positions) are compiled, and the sets of accepting '
                'decision paths extracted from their MIR must be identical; no accepting path may consult reporter.enabled(); the '
                'diagnostics arm has no effect but reporting; matching!() accepts everything. Runtime (FACTS): CallPattern::match_inputs '
                'hands the stored function the inputs and an enabled/disabled reporter and returns its verdict unchanged.')
    X.check_patterns(chk, tier, chk.seed, {'C06'})
    for cfg in configs(tier, thorough=('std', 'mocks', 'nostd-spin', 'nostd')):
        F = load(chk, cfg)
        match_inputs(chk, F, 'R06.5', cfg)
        from props import ctor
        ctor.matcher_storage(chk, F, 'R06.5.store', cfg)
        E.selector_rules(chk, F, cfg, r_scan='R06.5.sel', r_pure='R06.5.pure', r_ord='R06.5.ord', r_bump=None)


def match_inputs(chk, F, rule, cfg):
    fn = F.fn('call_pattern::CallPattern::match_inputs')
    paths = symex.Interp(F).run(fn)
    chk.analysed(fn)
    n = 0
    for p in paths:
        calls = [e for e in p.calls(r'ops::Fn(<Args>)?>?::call$')]
        if p.outcome[0] != 'return':
            continue
        r = strip(p.outcome[1])
        if calls:
            n += 1
            e = calls[0]
            tup = strip(e.data[2][1])
            args = [x for _, x in tup[4]] if tup[0] == 'agg' else []
            ok_in = bool(args) and mentions(args[0], lambda x: x == ('param', 0, 2) or (x[0] == 'ref' and x[1][0] == ('ptr', ('param', 0, 2))))
            rep = args[1] if len(args) > 1 else ('unk', '')
            ok_rep = mentions(rep, lambda x: (x[0] == 'as' and x[2] == 'Some' and mentions(x, lambda y: y == ('param', 0, 3))) or (x[0] == 'ref' and x[1][0] == ('ptr', ('field', ('as', ('param', 0, 3), 'Some'), '0')))) or mentions(rep, lambda x: is_call(x, r'MismatchReporter::new_disabled$') or (is_call(x, r'MismatchReporter::new$') and x[2] and strip(x[2][0]) == ('c', False))) or \
                mentions(rep, lambda x: x == ('param', 0, 3) or (x[0] == 'ref' and x[1][0] == ('ptr', ('param', 0, 3))))     # (the caller's reporter handed on as it is)
            ok_ret = r[0] == 'agg' and r[3] == 'Ok' and strip(r[4][0][1])[0] == 'call' and strip(r[4][0][1])[3] == e.data[3]
            chk.ob(rule, 'match_inputs runs the stored matcher on the call\'s inputs with the given (or a disabled) reporter and returns its verdict unchanged', ok_in and ok_rep and ok_ret, config=cfg, fn=fn, site='call',
                   what='match_inputs call: inputs=%s reporter=%s ret=%s' % (ok_in, ok_rep, ok_ret), found={'args': [show(a)[:80] for a in args], 'returns': show(r)[:100]})
        else:
            ok = r[0] == 'agg' and r[3] == 'Err'
            chk.ob(rule, 'without a stored matcher (or on a downcast failure) match_inputs reports an error, it never accepts', ok or E.ret_label(p).startswith('Err'), config=cfg, fn=fn, site='no-matcher', what='no-matcher outcome %s' % show(r)[:80])
    chk.floor(rule, 'matcher invocation paths in match_inputs', n, 1, config=cfg)
