#!/bin/bash
# usage: try_seed.sh <patch.diff> <Cxx> [more property ids...]
# applies a seeded change to a scratch copy of /repo's CURRENT tree (outside /repo and /verif), runs the given checks
# against it, prints which rules fire, and removes the copy.
ROOT="$(dirname "$(readlink -f "$0")")/.."; ROOT="$(readlink -f "$ROOT")"
P="$(readlink -f "$1")"; shift
D=$(mktemp -d /tmp/seedtry-XXXXXX)
rsync -a --exclude target --exclude .git /repo/ "$D/repo/"
cd "$D/repo" && git init -q . && git apply "$P" || { echo "PATCH DOES NOT APPLY"; rm -rf "$D"; exit 2; }
cd "$ROOT"
for id in "$@"; do
  out=$(VERIF_REPO="$D/repo" ./check "$id" --tier quick 2>&1)
  rc=$?
  rules=$(echo "$out" | grep -oE "\[(VIOLATED|UNRECOGNISED)\] [A-Za-z0-9_.]+" | sort -u | tr '\n' ' ')
  echo "$id exit=$rc rules: $rules"
done
rm -rf "$D"
git -C "$ROOT" checkout -q -- evidence 2>/dev/null || true
