"""C02 — the k-th match of a pattern yields the response its quantifier chain assigns."""
import re
import symex
from symex import strip, show, is_call, field_path, mentions, linear
from props import evalcore as E, lifecycle as L, builder as B, outputs
from props.c10 import position_is_rmw
from props.util import configs, load

LEVEL = 'other'


def run(chk, tier):
    chk.explain('K4: quantify advances the running response index and the minimum by exactly the repeat count, push_responder records '
                'the response at the running index; K3 over call sites: every builder API function pushes before quantifying and passes '
                'the documented (count, exactness) pair; K6: the call index is the pre-increment fetch_add value, unchanged; the segment '
                'lookup is matched against the normal form "greatest start <= k" (binary_search_by / partition_point idioms, fail-closed); '
                'K3: eval::eval maps each responder kind to its outcome and an exhausted single-use value to an error.')
    for cfg in configs(tier, thorough=('std', 'mocks', 'nostd-spin', 'nostd')):
        F = load(chk, cfg)
        B.quantify_arith(chk, F, 'R02.1', cfg)
        B.api_table(chk, F, 'R02.2', cfg)
        from props import ctor
        ctor.builder_constructors(chk, F, 'R02.0', cfg)
        B.conversion_table(chk, F, 'R02.7', cfg)
        # R02.11 'r_i for the first i with ..': a response configured for repeated use keeps answering - the multi-use conversion of a composite
        # converts its parts with the multi-use conversion (a single-use part would make the second match of the segment fail)
        outputs.conversion_flavour(chk, F, 'R02.11', cfg)
        # R02.10 a producible return value handed to the builder is filed as this clause's response (never dropped on the way)
        B.returner_error_latched(chk, F, 'R02.10', cfg)
        efn, epaths, erows = E.eval_dyn_table(chk, F, 'R02.8.table', cfg)
        E.counting_discipline(chk, F, 'R02.8', cfg, efn, erows)
        position_is_rmw(chk, F, 'R02.3', cfg)
        # R02.9 an ordered chain whose last response is left unquantified gets one more call ADDED to the counts already given (r1 x n1 .. then r_last x 1)
        B.ordered_implicit_once(chk, F, 'R02.9', cfg)
        segment_lookup(chk, F, 'R02.4', cfg)
        E.eval_table(chk, F, 'R02.5', cfg)
        # single-use half (= C12's R12.3): composite kinds turn an exhausted leaf into `no value`, never into a value
        outputs.variant_maps(chk, F, 'R02.6', cfg)


def _bsearch_payload(x, LIST):
    """x = payload of Ok / Err of a binary search over LIST -> 'Ok' / 'Err'"""
    x = strip(x)
    if x[0] == 'field' and x[2] == '0' and strip(x[1])[0] == 'as' and is_call(strip(x[1])[1], r'<impl \[T\]>::binary_search_by(_key)?$'):
        src = strip(strip(x[1])[1])[2][0]
        if strip(src) in (LIST, ('ref', (('ptr', LIST), ()), False)) or field_path(src)[0] == LIST:
            return strip(x[1])[2]
    return None


def _none_by_contract(F, p, LIST):
    """a `None` outcome of the lookup that the reference lookup cannot turn into a response either:
       (a) slice.get(i) == None with i = the Ok payload or the Err payload - 1 of a binary search over the same slice: unreachable
           (std contract: Ok(i) => i < len, Err(q) => q <= len);
       (b) q.checked_sub(1) == None for the Err payload q: no segment starts at or before k (in particular the empty list) -
           the reference lookup has no element to return there (it fails the subtraction)."""
    last = p.decisions[-1] if p.decisions else None
    if last is None:
        return None
    v = strip(last.value)
    if v[0] == 'discr' and is_call(v[1], r'<impl \[T\]>::get$') and last.branch == 0:
        a = strip(v[1])[2]
        src_ok = strip(a[0]) in (LIST, ('ref', (('ptr', LIST), ()), False)) or field_path(a[0])[0] == LIST
        i = strip(a[1])
        if src_ok and _bsearch_payload(i, LIST) == 'Ok':
            return ('get', 'get(i) of a found index is in range (binary_search contract)')
        if src_ok and i[0] == 'bin' and i[1] == 'Sub' and strip(i[3]) == ('c', 1) and _bsearch_payload(i[2], LIST) == 'Err':
            return ('get', 'get(q - 1) of an insertion point q >= 1 is in range (binary_search contract)')
    if v[0] == 'bin' and v[1] == 'Lt' and last.branch == 1 and strip(v[3]) == ('c', 1) and _bsearch_payload(v[2], LIST) == 'Err':
        return ('before-first', 'insertion point 0: no segment starts at or before k')
    return None


def segment_lookup(chk, F, rule, cfg):
    fn = F.fn('call_pattern::find_responder_by_call_index')
    paths = symex.Interp(F).run(fn)
    chk.analysed(fn)
    K = ('param', 0, 2)
    LIST = ('param', 0, 1)

    def comparator(cv):
        """closure value -> ('cmp', orientation offset) for |r| (r.response_index + a).cmp(&(k + b)); or ('pred', op, offset)"""
        c = strip(cv)
        if c[0] == 'ref' and len(c) > 3:
            c = strip(c[3])
        if not (c[0] == 'agg' and c[1] == 'closure'):
            return None
        cf = F.fns[c[2]]
        chk.analysed(cf)
        ups = dict(c[4])
        ps = symex.Interp(F).run(cf, args=[c if not cf.locals[1]['ty'].startswith('&') else ('ref', (('ptr', ('clo', c)), ()), False)])
        if len(ps) != 1 or ps[0].outcome[0] != 'return':
            return None
        v = strip(ps[0].outcome[1])

        def side(x):
            x = strip(x)
            if x[0] == 'ref' and len(x) > 3:
                x = strip(x[3])
            lin = linear(x)
            if lin is None or len(lin[0]) != 1:
                return None
            (s, cf_), = lin[0].items()
            if cf_ != 1:
                return None
            txt = show(s)
            if 'response_index' in txt:
                return ('elem', lin[1])
            if 'call_index' in txt or txt.startswith('arg') or 'clo' in txt:
                return ('k', lin[1])
            return None
        if is_call(v, r'(Ord|PartialOrd)( for \w+)?>?::(cmp|partial_cmp)$'):
            a, b = side(v[2][0]), side(v[2][1])
            if a and b and {a[0], b[0]} == {'elem', 'k'}:
                return ('cmp', a[0], a[1] - b[1] if a[0] == 'elem' else b[1] - a[1])
            return None
        cm = symex.as_comparison(v)
        if cm:
            a, b = side(cm[1]), side(cm[2])
            if a and b and {a[0], b[0]} == {'elem', 'k'}:
                op = cm[0] if a[0] == 'elem' else symex.CMP_FLIP[cm[0]]
                off = (a[1] - b[1]) if a[0] == 'elem' else (b[1] - a[1])
                return ('pred', op, off)
        return None

    def key_extractor(cv, keyarg):
        """|r| r.response_index  with key &k  ->  ('cmp', 'elem', 0)"""
        c = strip(cv)
        if c[0] == 'ref' and len(c) > 3:
            c = strip(c[3])
        if not (c[0] == 'agg' and c[1] == 'closure'):
            return None
        cf = F.fns[c[2]]
        chk.analysed(cf)
        ps = symex.Interp(F).run(cf)
        if len(ps) != 1 or ps[0].outcome[0] != 'return' or list(cf.calls()):
            return None
        v = strip(ps[0].outcome[1])
        root, ns = field_path(v)
        k = strip(keyarg)
        k = strip(k[3]) if k[0] == 'ref' and len(k) > 3 else k
        if ns[-1:] == ['response_index'] and root == ('param', 0, 2) and k == K:
            return ('cmp', 'elem', 0)
        return None

    recognised = False
    for p in paths:
        bs = list(p.calls(r'<impl \[T\]>::binary_search_by(_key)?$'))
        pp = list(p.calls(r'<impl \[T\]>::partition_point$'))
        if bs:
            recognised = True
    # empty list => None
    empties = [p for p in paths if any(L.truth_of(d)[1] is True and is_call(L.truth_of(d)[0], r'<impl \[T\]>::is_empty$') for d in p.decisions)]
    for p in empties:
        v = strip(p.outcome[1]) if p.outcome[0] == 'return' else ('unk', '')
        chk.ob(rule, 'no responders => no response', v[0] == 'agg' and v[3] == 'None', config=cfg, fn=fn, site='empty', what='empty list outcome', found=show(v))
    live = [p for p in paths if p not in empties]
    n_ok = 0
    for p in live:
        if p.outcome[0] != 'return':
            continue
        v = strip(p.outcome[1])
        if not (v[0] == 'agg' and v[3] == 'Some'):
            why = _none_by_contract(F, p, LIST)
            if why:
                chk.ob(rule, 'a lookup that yields nothing does so only where the reference lookup cannot yield anything either', True, config=cfg, fn=fn, site='none:%s' % why[0], what=why[1])
                continue
            chk.ob(rule, 'lookup over a non-empty list always yields a response', False, config=cfg, fn=fn, site='nonempty', what='non-Some result', found=show(v)[:200], unrecognised=True)
            continue
        r = strip(v[4][0][1])
        # r = &responders[index].responder
        idx = None
        for x in symex.subvalues(r):
            if x[0] == 'index':
                idx = x[2]
                break
            if x[0] == 'ref':
                for e in x[1][1]:
                    if e[0] == 'idx':
                        idx = e[1]
        bs = list(p.calls(r'<impl \[T\]>::binary_search_by(_key)?$'))
        if len(bs) == 1 and idx is not None:
            if bs[0].data[1].endswith('_key'):
                # binary_search_by_key(&k, |r| key(r)) is std's binary_search_by(|r| key(r).cmp(&k))
                cmpf = key_extractor(bs[0].data[2][2], bs[0].data[2][1])
            else:
                cmpf = comparator(bs[0].data[2][1])
            ok_src = strip(bs[0].data[2][0]) in (LIST, ('ref', (('ptr', LIST), ()), False)) or field_path(bs[0].data[2][0])[0] == LIST
            res = ('call', bs[0].data[1], bs[0].data[2], bs[0].data[3])
            lin = linear(idx)
            # which arm?
            arm = None
            for d in p.decisions:
                a = E.discr_atom(F, d)
                if a and is_call(a[0], r'binary_search_by(_key)?$'):
                    arm = a[2]
            if cmpf is None or cmpf[0] != 'cmp' or arm is None or lin is None or len(lin[0]) != 1:
                chk.ob(rule, 'binary_search_by idiom is in normal form', False, config=cfg, fn=fn, site='bsearch', unrecognised=True, what='bsearch shape', found={'cmp': cmpf, 'arm': arm, 'idx': show(idx)})
                continue
            (s, c), = lin[0].items()
            payload_arm = 'Ok' if mentions(s, lambda x: x[0] == 'as' and x[2] == 'Ok') else 'Err' if mentions(s, lambda x: x[0] == 'as' and x[2] == 'Err') else None
            orient_ok = cmpf[1] == 'elem' and cmpf[2] == 0
            want_off = 0 if arm == 'Ok' else -1
            ok = orient_ok and c == 1 and lin[1] == want_off and payload_arm == arm and ok_src
            chk.ob(rule, 'segment lookup (binary_search_by, arm %s): greatest start <= k  [element.cmp(k), Ok(i)->i, Err(p)->p-1]' % arm, ok, config=cfg, fn=fn, site='bsearch:%s' % arm,
                   what='bsearch arm %s: index = payload%+d, comparator offset %+d, orientation %s' % (arm, lin[1], cmpf[2], cmpf[1]),
                   found={'index': show(idx), 'comparator': cmpf}, expected={'Ok': 'i + 0', 'Err': 'p - 1', 'comparator': 'elem.response_index.cmp(&k)'})
            n_ok += 1
            continue
        pp = list(p.calls(r'<impl \[T\]>::partition_point$'))
        if len(pp) == 1 and idx is not None:
            cmpf = comparator(pp[0].data[2][1])
            lin = linear(idx)
            if cmpf and cmpf[0] == 'pred' and lin is not None and len(lin[0]) == 1 and is_call(list(lin[0])[0], r'partition_point$'):
                op, off = cmpf[1], cmpf[2]
                # partition_point(|r| r.start + off OP k) = first index where the predicate is false
                # greatest start <= k  <=>  predicate `start <= k` (or `start < k + 1`), index = pp - 1
                good = ((op == 'Le' and off == 0) or (op == 'Lt' and off == -1)) and lin[1] == -1 and list(lin[0].values())[0] == 1
                chk.ob(rule, 'segment lookup (partition_point): greatest start <= k, last among equal starts', good, config=cfg, fn=fn, site='partition_point',
                       what='partition_point(start %s k%+d)%+d' % (op, -off, lin[1]), found={'pred': cmpf, 'index': show(idx)}, expected='partition_point(|r| r.response_index <= k) - 1')
                n_ok += 1
                continue
        chk.ob(rule, 'segment lookup algorithm is one of the recognised normal forms', False, config=cfg, fn=fn, site='algorithm', unrecognised=True, what='lookup algorithm not recognised',
               found={'calls': [e.data[1].rsplit('::', 1)[-1] for e in p.calls()], 'index': show(idx) if idx else None},
               expected='binary_search_by(elem.cmp(k)) with Ok(i)->i / Err(p)->p-1, or partition_point(start <= k) - 1')
    chk.ob(rule, 'segment lookup recognised on at least one path', n_ok >= 1, config=cfg, fn=fn, site='algorithm', unrecognised=True, what='no recognised lookup path')
    chk.assumptions.append('R02.4: for equal segment starts (a zero-count segment followed by then()) std documents binary_search_by as returning *any* matching index; the lookup is accepted on the contract for strictly increasing starts and relies on the implementation (which returns the last equal element on this toolchain) for ties')
