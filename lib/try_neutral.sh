#!/bin/bash
# usage: try_neutral.sh <patch.diff>...  — applies each behaviour-preserving patch to a scratch copy of /repo's current tree, runs
# ALL twenty quick checks against it (in parallel) and prints one line per patch with the checks that raised an alarm (none expected).
# Full outputs of alarming checks are kept under /tmp/neutral-reports/.
ROOT="$(dirname "$(readlink -f "$0")")/.."; ROOT="$(readlink -f "$ROOT")"
cd "$ROOT"
mkdir -p /tmp/neutral-reports
for P in "$@"; do
  PA="$(readlink -f "$P")"
  D=$(mktemp -d /tmp/neuttry-XXXXXX)
  rsync -a --exclude target --exclude .git /repo/ "$D/repo/"
  if ! (cd "$D/repo" && git init -q . && git apply "$PA"); then echo "$P: PATCH DOES NOT APPLY"; rm -rf "$D"; continue; fi
  tag=$(echo "$P" | tr '/' '_')
  # warm the facts once (serialised anyway), then fan out
  mkdir -p /tmp/neutral-keys
  VERIF_DUMP_KEYS="/tmp/neutral-keys/$tag.C01.json" VERIF_REPO="$D/repo" ./check C01 --tier quick > "$D/C01.out" 2>&1; echo $? > "$D/C01.rc"
  seq -w 2 20 | xargs -P 10 -I{} sh -c "VERIF_DUMP_KEYS=/tmp/neutral-keys/$tag.C{}.json VERIF_REPO=$D/repo ./check C{} --tier quick > $D/C{}.out 2>&1; echo \$? > $D/C{}.rc"
  bad=""
  for i in $(seq -w 1 20); do
    if [ "$(cat $D/C$i.rc)" != "0" ]; then
      rules=$(grep -oE "\[(VIOLATED|UNRECOGNISED)\] [A-Za-z0-9_.]+" "$D/C$i.out" | sort -u | tr '\n' ' ')
      bad="$bad C$i{$rules}"
      cp "$D/C$i.out" "/tmp/neutral-reports/$tag.C$i.txt"
    fi
  done
  echo "$P: ${bad:-silent}"
  rm -rf "$D"
done
git -C "$ROOT" checkout -q -- evidence 2>/dev/null || true
