#!/bin/bash
# Every property must be decided "holds" on the unchanged tree in EVERY analysis mode (plain, combinators, inline_private, both): a rule
# that only works on the plain reading turns into a false alarm as soon as some other rule of the same property needs a retry.
cd "$(dirname "$0")/.."
bad=0
for m in "" combinators inline_private combinators,inline_private; do
  for i in $(seq -w 1 20); do
    r=$(python3 lib/mode_debug.py C$i $m 2>&1 | tail -1)
    case "$r" in *" 0 violated 0 unrecognised"*) ;; *) echo "mode[$m] C$i: $r"; bad=1;; esac
  done
done
[ $bad = 0 ] && echo "all 20 properties hold in all 4 modes"
exit $bad
