"""Self-test corpus: (id, edits[(file, old, new)], expect{prop: rule-regex} | silent[props])."""
MUTANTS = []


def M(id, edits, expect=None, silent=None):
    MUTANTS.append({'id': id, 'edits': edits, 'expect': expect or {}, 'silent': silent or []})


TD = 'src/teardown.rs'
LIB = 'src/lib.rs'

# ---- C09 -------------------------------------------------------------------------------------
M('c09-clones-verify', [(TD, '''    if !unimock.original_instance {
        return Ok(());
    }
''', '')], {'C09': r'R09\.teardown'})
M('c09-torn-down-late', [(TD, '''    unimock.torn_down = true;

''', ''), (TD, '''    let strong_count = Arc::strong_count''', '''    unimock.torn_down = true;
    let strong_count = Arc::strong_count''')], {'C09': r'R09\.pre'})
M('c09-no-thread-check', [(TD, '''    #[cfg(feature = "std")]
    if std::thread::current().id() != unimock.shared_state.original_thread {''', '''    #[cfg(feature = "std")]
    if false && std::thread::current().id() != unimock.shared_state.original_thread {''')], {'C09': r'R09\.teardown'})
M('c09-strong-count-gt2', [(TD, 'if strong_count > 1 {', 'if strong_count > 2 {')], {'C09': r'R09\.teardown'})
M('c09-clone-copies-original', [(LIB, '''            original_instance: false,
            torn_down: false,
            verify_in_drop: self.verify_in_drop,''', '''            original_instance: self.original_instance,
            torn_down: false,
            verify_in_drop: self.verify_in_drop,''')], {'C09': r'R09\.clone'})
M('c09-verify-on-clone', [(LIB, '''        if !self.original_instance {
            panic!("Called verify() on a cloned instance. Verify the original instance instead.");
        }
''', '')], {'C09': r'R09\.verify'})
M('c09-drop-ignores-torn-down', [(LIB, '''        if self.torn_down {
            return;
        }

        if self.verify_in_drop {''', '''        if self.verify_in_drop {''')], {'C09': r'R09\.drop'})
M('c09-report-skips-teardown', [(LIB, '''    #[cfg(not(feature = "mock-std"))]
    fn report(mut self) -> std::process::ExitCode {
        teardown::teardown_report(&mut self)
    }''', '''    #[cfg(not(feature = "mock-std"))]
    fn report(mut self) -> std::process::ExitCode {
        self.torn_down = true;
        std::process::ExitCode::SUCCESS
    }''')], {'C09': r'R09\.report'})
# harmless rewrites
M('h-teardown-guard-helper', [(TD, '''    #[cfg(feature = "std")]
    if std::thread::panicking() {
        return Ok(());
    }
''', '''    #[cfg(feature = "std")]
    if should_skip_verification() {
        return Ok(());
    }
'''), (TD, '''#[track_caller]
pub(crate) fn teardown(unimock''', '''#[cfg(feature = "std")]
fn should_skip_verification() -> bool {
    std::thread::panicking()
}

#[track_caller]
pub(crate) fn teardown(unimock''')], silent=['C09', 'C11', 'C08'])
M('h-teardown-reorder-after-guard', [(TD, '''    let strong_count = Arc::strong_count(&unimock.shared_state);

    if strong_count > 1 {
        panic!("Unimock cannot verify calls, because the original instance got dropped while there are clones still alive.");
    }

    #[cfg(feature = "std")]
    if std::thread::current().id() != unimock.shared_state.original_thread {
        panic!("Original Unimock instance destroyed on a different thread than the one it was created on. To solve this, clone the object before sending it to the other thread.");
    }
''', '''    #[cfg(feature = "std")]
    if !(std::thread::current().id() == unimock.shared_state.original_thread) {
        panic!("Original Unimock instance destroyed on a different thread than the one it was created on. To solve this, clone the object before sending it to the other thread.");
    }

    match Arc::strong_count(&unimock.shared_state) {
        1 => {}
        _ => panic!("Unimock cannot verify calls, because the original instance got dropped while there are clones still alive."),
    }
''')], silent=['C09', 'C11', 'C08'])

# ---- C11 -------------------------------------------------------------------------------------
_GUARD = '''    // skip verification if the thread panicked for any other reason.
    #[cfg(feature = "std")]
    if std::thread::panicking() {
        return Ok(());
    }

'''
_CLONECHK = '''    if strong_count > 1 {
        panic!("Unimock cannot verify calls, because the original instance got dropped while there are clones still alive.");
    }

'''
M('c11-guard-below-clone-check', [(TD, _GUARD, ''), (TD, _CLONECHK, _CLONECHK + _GUARD)], {'C11': r'R11\.1', 'C09': r'R09\.teardown'})
_THREADCHK_END = '''clone the object before sending it to the other thread.");
    }

'''
M('c11-guard-below-thread-check', [(TD, _GUARD, ''), (TD, _THREADCHK_END, _THREADCHK_END + _GUARD)], {'C11': r'R11\.1'})
M('c11-guard-only-for-clones', [(TD, 'if std::thread::panicking() {', 'if std::thread::panicking() && strong_count_early(unimock) > 1 {'),
                                 (TD, '#[track_caller]\npub(crate) fn teardown(unimock', 'fn strong_count_early(u: &Unimock) -> usize { Arc::strong_count(&u.shared_state) }\n\n#[track_caller]\npub(crate) fn teardown(unimock')],
  {'C11': r'R11\.1'})
M('c11-expect-before-guard', [(TD, '    // skip verification if not the original instance.\n', '    unimock.default_impl_delegator_cell.get().map(|_| ()).ok_or(()).expect_err("helper released");\n    // skip verification if not the original instance.\n')],
  {'C11': r'R11\.1'})
M('c11-teardown-panic-on-ok', [(TD, '''        panic!("{}", error_strings.join("\\n"));
    }
''', '''        panic!("{}", error_strings.join("\\n"));
    } else if !unimock.original_instance && unimock.verify_in_drop && std::thread::panicking() {
        panic!("clone dropped while panicking");
    }
''')], {'C11': r'R11\.1\.teardown_panic'})
M('c11-user-code-under-lock', [('src/output/owning.rs', '''        let value = self.into();
        Ok(Owned(Box::new(move || Some(value.clone()))))''', '''        let value = crate::private::MutexIsh::new(self.into());
        Ok(Owned(Box::new(move || Some(value.locked(|v| v.clone())))))''')], {'C11': r'R11\.3'})

# ---- C08 -------------------------------------------------------------------------------------
M('c08-push-only-first', [(LIB, '''            reasons.push(error);''', '''            if reasons.is_empty() {
                reasons.push(error);
            }''')], {'C08': r'R08\.2'})
M('c08-push-after-conditional', [(LIB, '''        let msg = alloc::format!("{error}");

        self.shared_state.panic_reasons''', '''        let msg = alloc::format!("{error}");

        if let error::MockError::ExplicitPanic { .. } = &error {
            panic!("{msg}");
        }

        self.shared_state.panic_reasons''')], {'C08': r'R08\.[12]'})
# (emptying the list in the reader is equivalent when the read is the last access - see neutral_agents/E2/patch2 - so the mutant also
#  moves the read in front of the live-clone test, where a clone can still record and the panic path loses what was taken)
M('c08-read-consumes', [('src/state.rs', 'self.panic_reasons.locked(|reasons| reasons.clone())', 'self.panic_reasons.locked(|reasons| core::mem::take(reasons))'),
                        (TD, '''        let panic_reasons = unimock.shared_state.clone_panic_reasons();
''', ''),
                        (TD, '''    let strong_count = Arc::strong_count(&unimock.shared_state);
''', '''    let panic_reasons = unimock.shared_state.clone_panic_reasons();
    let strong_count = Arc::strong_count(&unimock.shared_state);
''')], {'C08': r'R08\.3'})
M('c08-only-first-reason', [(TD, '''            return Err(panic_reasons);''', '''            return Err(crate::alloc::vec![panic_reasons[0].clone()]);''')], {'C08': r'R08\.4'})
M('c08-direct-panic-in-eval', [('src/eval.rs', '''            DynResponder::Panic(msg) => Err(MockError::ExplicitPanic {
                fn_call: dyn_ctx.fn_call(),
                pattern: eval_responder
                    .fn_mocker
                    .debug_pattern(eval_responder.pat_index),
                msg: msg.clone(),
            }),''', '''            DynResponder::Panic(msg) => panic!("{}: Explicit panic from {}: {msg}", dyn_ctx.fn_call(), eval_responder.fn_mocker.debug_pattern(eval_responder.pat_index)),''')], {'C08': r'R08\.1'})
M('c08-verify-before-forward', [(TD, '''    {
        // if already in error state, it must be from another thread. Forward those errors to the original thread.
        // (if original is even still in the original thread.. But report as close to the test "root" as possible)
        let panic_reasons = unimock.shared_state.clone_panic_reasons();
        if !panic_reasons.is_empty() {
            return Err(panic_reasons);
        }
    }

    let mut mock_errors = Vec::new();
    for (_, fn_mocker) in unimock.shared_state.fn_mockers.iter() {
        fn_mocker.verify(&mut mock_errors);
    }
''', '''    let mut mock_errors = Vec::new();
    for (_, fn_mocker) in unimock.shared_state.fn_mockers.iter() {
        fn_mocker.verify(&mut mock_errors);
    }

    if mock_errors.is_empty() {
        let panic_reasons = unimock.shared_state.clone_panic_reasons();
        if !panic_reasons.is_empty() {
            return Err(panic_reasons);
        }
    }
''')], {'C08': r'R08\.4'})
M('c08-teardown-panic-first-only', [(TD, '''        let error_strings = errors
            .iter()
            .map(''', '''        let error_strings = errors
            .iter()
            .take(1)
            .map(''')], {'C08': r'R08\.4', 'C09': r'R09\.teardown_panic'})

# ---- C10 -------------------------------------------------------------------------------------
CNT = 'src/counter.rs'
M('c10-load-store', [(CNT, '''        self.actual_count
            .fetch_add(1, core::sync::atomic::Ordering::SeqCst)''', '''        let v = self.actual_count.load(core::sync::atomic::Ordering::SeqCst);
        self.actual_count.store(v + 1, core::sync::atomic::Ordering::SeqCst);
        v''')], {'C10': r'R10\.[12]'})
M('c10-relaxed', [('src/state.rs', '''            .fetch_add(1, core::sync::atomic::Ordering::SeqCst)''', '''            .fetch_add(1, core::sync::atomic::Ordering::Relaxed)''')], {'C10': r'R10\.1'})
M('c10-check-then-act', [(CNT, '''        self.actual_count
            .fetch_add(1, core::sync::atomic::Ordering::SeqCst)''', '''        if self.actual_count.load(core::sync::atomic::Ordering::Relaxed) < usize::MAX / 2 {
            self.actual_count
                .fetch_add(1, core::sync::atomic::Ordering::SeqCst)
        } else {
            usize::MAX / 2
        }''')], {'C10': r'R10\.[12]'})
M('c10-shared-cache', [('src/state.rs', '''    next_ordered_call_index: AtomicUsize,
    pub panic_reasons''', '''    next_ordered_call_index: AtomicUsize,
    pub last_call: core::sync::atomic::AtomicPtr<u8>,
    pub panic_reasons'''), ('src/state.rs', '''            next_ordered_call_index: AtomicUsize::new(0),
            panic_reasons''', '''            next_ordered_call_index: AtomicUsize::new(0),
            last_call: core::sync::atomic::AtomicPtr::new(core::ptr::null_mut()),
            panic_reasons''')], {'C10': r'R10\.3'})
M('c10-position-plus-one', [('src/call_pattern.rs', 'find_responder_by_call_index(&self.responders, self.call_counter.fetch_add())', 'find_responder_by_call_index(&self.responders, self.call_counter.fetch_add() + 1)')], {'C10': r'R10\.2'})
M('h-c10-rename-bump', [('src/state.rs', 'pub fn bump_ordered_call_index(&self)', 'pub fn take_next_slot(&self)'), ('src/eval.rs', 'self.shared_state.bump_ordered_call_index()', 'self.shared_state.take_next_slot()')], silent=['C10'])

# ---- C01 -------------------------------------------------------------------------------------
EV = 'src/eval.rs'
ASM = 'src/assemble.rs'
BLD = 'src/build.rs'
CP = 'src/call_pattern.rs'
FM = 'src/fn_mocker.rs'
_SCAN_TAIL = '''                )
                .next()
                .transpose()'''
M('c01-last', [(EV, _SCAN_TAIL, _SCAN_TAIL.replace('.next()', '.last()'))], {'C01': r'R01\.1'})
M('c01-rev', [(EV, '''                .call_patterns
                .iter()
                .enumerate()
                .filter_map(''', '''                .call_patterns
                .iter()
                .enumerate()
                .rev()
                .filter_map(''')], {'C01': r'R01\.1'})
M('c01-skip-exhausted', [(EV, '''                    |(pat_index, call_pattern)| match match_inputs(call_pattern, None) {
                        Ok(false) => None,''', '''                    |(pat_index, call_pattern)| match match_inputs(call_pattern, None) {
                        Ok(true) if call_pattern.call_counter.fetch_add() > 1000 => None,
                        Ok(false) => None,''')], {'C01': r'R01\.[23]'})
M('c01-count-in-diagnostics', [(EV, '''                        let _ = match_inputs(call_pattern, Some(&mut mismatch_reporter));''', '''                        let _ = match_inputs(call_pattern, Some(&mut mismatch_reporter));
                        let _ = call_pattern.next_responder();''')], {'C01': r'R01\.3', 'C07': r'R07\.1'})
M('c01-insert-front', [(ASM, 'entry.get_mut().call_patterns.push(call_pattern);', 'entry.get_mut().call_patterns.insert(0, call_pattern);')], {'C01': r'R01\.4'})
M('c01-each-rev', [(BLD, 'for builder in self.patterns.into_iter() {', 'for builder in self.patterns.into_iter().rev() {')], {'C01': r'R01\.4'})
M('c01-tuple-swap', [('src/clause.rs', 'tuple_nonterminal_impl! { [T1, T2, T3, T4, T5, T6, T7], [0, 1, 2, 3, 4, 5, 6] }', 'tuple_nonterminal_impl! { [T1, T2, T3, T4, T5, T6, T7], [0, 1, 2, 4, 3, 5, 6] }')], {'C01': r'R01\.4\.tuple', 'C14': r'R14\.1'})
M('c01-any-fn-mocker', [(EV, '''        let fn_mocker = match self.shared_state.fn_mockers.get(&self.info.type_id) {
            None => {''', '''        let fn_mocker = match self.shared_state.fn_mockers.get(&self.info.type_id).or_else(|| self.shared_state.fn_mockers.values().find(|m| m.info.path.method_ident() == self.info.path.method_ident())) {
            None => {''')], {'C01': r'R01\.5'})

# ---- C02 -------------------------------------------------------------------------------------
M('c02-index-plus-one', [(BLD, 'builder.current_response_index += times;', 'builder.current_response_index += times + 1;')], {'C02': r'R02\.1'})
M('c02-quantify-before-push', [(BLD, '''        self.wrapper.push_returner_result(
            self.return_value
                .take()
                .unwrap()
                .into_return_once()
                .map(|r| r.into_returner()),
        );
        self.wrapper.quantify(1, counter::Exactness::Exact);''', '''        self.wrapper.quantify(1, counter::Exactness::Exact);
        self.wrapper.push_returner_result(
            self.return_value
                .take()
                .unwrap()
                .into_return_once()
                .map(|r| r.into_returner()),
        );''')], {'C02': r'R02\.2'})
M('c02-err-arm-no-minus', [(CP, 'Err(insert_index) => &responders[insert_index - 1].responder,', 'Err(insert_index) => &responders[insert_index.saturating_sub(0).min(responders.len() - 1)].responder,')], {'C02': r'R02\.4'})
M('c02-cmp-plus-one', [(CP, 'responders.binary_search_by(|responder| responder.response_index.cmp(&call_index));', 'responders.binary_search_by(|responder| responder.response_index.cmp(&(call_index + 1)));')], {'C02': r'R02\.4'})
M('c02-cmp-reversed', [(CP, 'responders.binary_search_by(|responder| responder.response_index.cmp(&call_index));', 'responders.binary_search_by(|responder| call_index.cmp(&responder.response_index));')], {'C02': r'R02\.4'})
M('c02-n-times-exactness', [(BLD, '''        self.wrapper.quantify(times, counter::Exactness::Exact);
        self.into_exact()''', '''        self.wrapper.quantify(times, counter::Exactness::AtLeast);
        self.into_exact()''')], {'C02': r'R02\.2', 'C03': r'R03\.4'})
M('c02-exhausted-panic-to-continue', [(EV, '''                    None => Err(MockError::CannotReturnValueMoreThanOnce {
                        fn_call: dyn_ctx.fn_call(),
                        pattern: eval_responder
                            .fn_mocker
                            .debug_pattern(eval_responder.pat_index),
                    }),''', '''                    None => Ok(Eval::Continue(Continuation::Unmock, inputs)),''')], {'C02': r'R02\.5', 'C07': r'R07\.4'})
M('h-c02-partition-point', [(CP, '''    let index_result =
        responders.binary_search_by(|responder| responder.response_index.cmp(&call_index));

    Some(match index_result {
        Ok(index) => &responders[index].responder,
        Err(insert_index) => &responders[insert_index - 1].responder,
    })''', '''    let index = responders.partition_point(|responder| responder.response_index <= call_index);

    Some(&responders[index - 1].responder)''')], silent=['C02'])

# ---- C03 -------------------------------------------------------------------------------------
M('c03-ne-to-lt', [(CNT, 'if actual_calls.0 != lower_bound.0 {', 'if actual_calls.0 < lower_bound.0 {')], {'C03': r'R03\.1'})
M('c03-lt-to-le', [(CNT, 'if actual_calls.0 < lower_bound.0 {', 'if actual_calls.0 <= lower_bound.0 {')], {'C03': r'R03\.1'})
M('c03-plus-one-dropped', [(CNT, 'Exactness::AtLeastPlusOne => NCalls(self.minimum + 1),', 'Exactness::AtLeastPlusOne => NCalls(self.minimum),')], {'C03': r'R03\.1'})
M('c03-never-called-dropped', [(FM, '''        if total_calls == 0 {
            errors.push(error::MockError::MockNeverCalled { info: self.info });
        }''', '''        if total_calls == usize::MAX {
            errors.push(error::MockError::MockNeverCalled { info: self.info });
        }''')], {'C03': r'R03\.2'})
M('c03-break-after-first-error', [(TD, '''        fn_mocker.verify(&mut mock_errors);
    }''', '''        fn_mocker.verify(&mut mock_errors);
        if !mock_errors.is_empty() {
            break;
        }
    }''')], {'C03': r'R03\.3', 'C09': r'R09\.teardown'})
M('c03-truncate-errors', [(TD, '''        let error_strings = errors
            .iter()''', '''        let mut errors = errors;
        errors.truncate(1);
        let error_strings = errors
            .iter()''')], {'C03': r'R03\.3'})
M('c03-only-unordered-verified', [(TD, '        fn_mocker.verify(&mut mock_errors);', '        if fn_mocker.pattern_match_mode == crate::fn_mocker::PatternMatchMode::InAnyOrder { fn_mocker.verify(&mut mock_errors); }')], {'C03': r'R03\.3'})
M('h-c03-swap-operands', [(CNT, 'if actual_calls.0 != lower_bound.0 {', 'if !(lower_bound.0 == actual_calls.0) {'), (CNT, 'if actual_calls.0 < lower_bound.0 {', 'if lower_bound.0 > actual_calls.0 {')], silent=['C03'])

# ---- C04 -------------------------------------------------------------------------------------
M('c04-end-plus-one', [(ASM, 'ordered_call_index_range.end = self.current_call_index + exact_calls.0;', 'ordered_call_index_range.end = self.current_call_index + exact_calls.0 + 1;')], {'C04': r'R04\.1'})
M('c04-cursor-not-advanced', [(ASM, '            self.current_call_index = ordered_call_index_range.end;\n', '')], {'C04': r'R04\.1'})
M('c04-bump-both-modes', [(EV, '''        match fn_mocker.pattern_match_mode {
            PatternMatchMode::InAnyOrder => fn_mocker''', '''        let ordered_call_index = self.shared_state.bump_ordered_call_index();
        match fn_mocker.pattern_match_mode {
            PatternMatchMode::InAnyOrder => fn_mocker'''), (EV, '''            PatternMatchMode::InOrder => {
                let ordered_call_index = self.shared_state.bump_ordered_call_index();
''', '''            PatternMatchMode::InOrder => {
''')], {'C04': r'R04\.2'})
M('c04-start-strict', [(FM, 'pattern.ordered_call_index_range.start <= ordered_call_index', 'pattern.ordered_call_index_range.start < ordered_call_index')], {'C04': r'R04\.4'})
M('c04-end-inclusive', [(FM, '&& pattern.ordered_call_index_range.end > ordered_call_index', '&& pattern.ordered_call_index_range.end >= ordered_call_index')], {'C04': r'R04\.4'})
M('c04-skip-matcher', [(EV, '''                if !match_inputs(pattern, Some(&mut mismatch_reporter))
                    .map_err(|err| self.map_pattern_error(err, fn_mocker, pat_index))?
                {''', '''                if false && !match_inputs(pattern, Some(&mut mismatch_reporter))
                    .map_err(|err| self.map_pattern_error(err, fn_mocker, pat_index))?
                {''')], {'C04': r'R04\.5'})
M('c04-mismatch-falls-through', [(EV, '''                    return Err(MockError::InputsNotMatchedInCallOrder {
                        fn_call: self.fn_call(),
                        actual_call_order: error::CallOrder(ordered_call_index),
                        pattern: fn_mocker.debug_pattern(pat_index),
                        mismatches: builder.build(),
                    });''', '''                    let _ = builder.build();
                    return Ok(None);''')], {'C04': r'R04\.5'})
M('c04-implicit-once-dropped', [(BLD, '''        if self.wrapper.inner().pattern_match_mode == PatternMatchMode::InOrder {
            self.wrapper.quantify(1, counter::Exactness::Exact);
        }

        sink.push(F::info(), self.wrapper.into_owned())''', '''        if self.wrapper.inner().pattern_match_mode == PatternMatchMode::InOrder {
            self.wrapper.quantify(0, counter::Exactness::Exact);
        }

        sink.push(F::info(), self.wrapper.into_owned())''')], {'C04': r'R04\.6'})
M('h-c04-swap-predicate', [(FM, '''                pattern.ordered_call_index_range.start <= ordered_call_index
                    && pattern.ordered_call_index_range.end > ordered_call_index''', '''                ordered_call_index < pattern.ordered_call_index_range.end
                    && ordered_call_index >= pattern.ordered_call_index_range.start''')], silent=['C04'])

# ---- C07 -------------------------------------------------------------------------------------
M('c07-precedence-swapped', [(EV, '''                return if self.info.has_default_impl {
                    Ok(EvalResult::CallDefaultImpl)
                } else if self.info.partial_by_default {
                    Ok(EvalResult::Unmock)
                } else {''', '''                return if self.info.partial_by_default {
                    Ok(EvalResult::Unmock)
                } else if self.info.has_default_impl {
                    Ok(EvalResult::CallDefaultImpl)
                } else {''')], {'C07': r'R07\.1'})
M('c07-strict-partial-swapped', [(EV, '''                FallbackMode::Unmock => Ok(EvalResult::Unmock),
            },
        }
    }''', '''                FallbackMode::Unmock => Err(MockError::NoMockImplementation { fn_call: self.fn_call() }),
            },
        }
    }''')], {'C07': r'R07\.1'})
M('c07-new-is-partial', [(LIB, '''            assemble::MockAssembler::try_from_clause(setup),
            FallbackMode::Error,''', '''            assemble::MockAssembler::try_from_clause(setup),
            FallbackMode::Unmock,''')], {'C07': r'R07\.2'})
M('c07-report-wrong-error', [('src/private.rs', 'Self::Unmock => error::MockError::CannotUnmock { info: F::info() },', 'Self::Unmock => error::MockError::NoDefaultImpl { info: F::info() },')], {'C07': r'R07\.3'})

# ---- C12 -------------------------------------------------------------------------------------
OWN = 'src/output/owning.rs'
M('c12-clone-instead-of-take', [(OWN, '''impl<T0, T: Send + Sync + 'static> IntoReturnOnce<Owning<T>> for T0
where
    T0: Into<T>,''', '''impl<T0, T: Send + Sync + Clone + 'static> IntoReturnOnce<Owning<T>> for T0
where
    T0: Into<T>,'''), (OWN, 'mutex.locked(|option| option.take())', 'mutex.locked(|option| option.clone())')], {'C12': r'R12\.[12]'})
M('c12-check-then-take', [(OWN, 'mutex.locked(|option| option.take())', 'if mutex.locked(|option| option.is_some()) { mutex.locked(|option| option.take()) } else { None }')], {'C12': r'R12\.2'})
M('c12-n-times-bound-relaxed', [(BLD, '''    pub fn n_times(mut self, times: usize) -> QuantifiedResponse<'p, F, O, Exact>
    where
        T: IntoReturn<F::OutputKind>,
        <<F as MockFn>::OutputKind as Kind>::Return: IntoReturner<F>,
    {
        self.wrapper.push_returner_result(
            self.return_value
                .take()
                .unwrap()
                .into_return()''', '''    pub fn n_times(mut self, times: usize) -> QuantifiedResponse<'p, F, O, Exact>
    where
        <<F as MockFn>::OutputKind as Kind>::Return: IntoReturner<F>,
    {
        self.wrapper.push_returner_result(
            self.return_value
                .take()
                .unwrap()
                .into_return_once()''')], {'C12': r'R12\.5'})
M('c12-forget', [(OWN, '''        let value = self.into();
        Ok(Owned(Box::new(move || Some(value.clone()))))''', '''        let value: T = self.into();
        core::mem::forget(value.clone());
        Ok(Owned(Box::new(move || Some(value.clone()))))''')], {'C12': r'R12\.4', 'C13': r'R13\.4'})
M('c12-partial-on-inner-none', [('src/output/deep/result.rs', '            Self::Err(val) => Some(Err(val.output()?)),', '            Self::Err(val) => match val.output() { Some(v) => Some(Err(v)), None => None },')], silent=['C12'])

# ---- C13 -------------------------------------------------------------------------------------
VC = 'src/value_chain.rs'
M('c13-return-parent', [(VC, '''                Err((parent_node, node)) => {
                    new_node = node;
                    cell = &parent_node.next;
                }''', '''                Err((parent_node, node)) => {
                    if core::mem::size_of_val(&node) == 0 {
                        return parent_node;
                    }
                    new_node = node;
                    cell = &parent_node.next;
                }''')], {'C13': r'R13\.2'})
M('c13-return-root', [(VC, '''                Ok(new_node) => {
                    return new_node;
                }''', '''                Ok(_new_node) => {
                    return self.root.get().unwrap();
                }''')], {'C13': r'R13\.2'})
M('c13-forbid-removed', [(LIB, '#![forbid(unsafe_code)]', '#![deny(unsafe_code)]')], {'C13': r'R13\.1', 'C10': r'R10\.3'})
M('c13-teardown-forgets-chain', [(TD, 'drop(core::mem::take(&mut unimock.value_chain));', 'core::mem::forget(core::mem::take(&mut unimock.value_chain));')], {'C13': r'R13\.4'})

# ---- C14 -------------------------------------------------------------------------------------
M('c14-tuple-dropped-index', [('src/clause.rs', 'tuple_nonterminal_impl! { [T1, T2, T3, T4, T5, T6, T7, T8, T9, T10, T11, T12], [0, 1, 2, 3, 4, 5, 6, 7, 8, 9, 10, 11] }', 'tuple_nonterminal_impl! { [T1, T2, T3, T4, T5, T6, T7, T8, T9, T10, T11, T12], [0, 1, 2, 3, 4, 5, 6, 7, 8, 9, 10] }')], {'C14': r'R14\.1'})
M('c14-question-mark-dropped', [('src/clause.rs', '                $(self.$index.deconstruct(sink)?;)+', '                $(let _ = self.$index.deconstruct(sink);)+')], {'C14': r'R14\.1'})
M('c14-mode-check-last-only', [(ASM, 'if entry.get().pattern_match_mode != pattern_match_mode {', 'if entry.get().pattern_match_mode != pattern_match_mode && entry.get().call_patterns.len() < 2 {')], {'C14': r'R14\.2'})
M('c14-ctor-ignores-err', [(LIB, '''            Err(error) => panic!("{error}"),''', '''            Err(_error) => Default::default(),''')], {'C14': r'R14\.3'})
M('c14-at-least-bound-removed', [(BLD, '''    pub fn at_least_times(mut self, times: usize) -> QuantifiedResponse<'p, F, O, AtLeast>
    where
        O: Ordering<Kind = InAnyOrder>,
    {''', '''    pub fn at_least_times(mut self, times: usize) -> QuantifiedResponse<'p, F, O, AtLeast>
    {''')], {'C14': r'R14\.4'})
M('c14-empty-stub-accepted', [(BLD, '''        if self.patterns.is_empty() {
            return Err("Stub contained no call patterns".to_string());
        }
''', '')], {'C14': r'R14\.3'})

# ---- macro mutants: C05 C06 C15 C16 C19 (XPAND) ---------------------------------------------------
MM = 'unimock_macros/src/unimock/mod.rs'
MT = 'unimock_macros/src/unimock/method.rs'
MA = 'unimock_macros/src/matching/mod.rs'
M('c05-answer-without-receiver-first', [(MM, '''                            #prefix::private::Eval::Continue(#prefix::private::Continuation::Answer(__answer_fn), #eval_pattern_no_mut) => {
                                __answer_fn(self, #fn_params)
                            }''', '''                            #prefix::private::Eval::Continue(#prefix::private::Continuation::Answer(__answer_fn), #eval_pattern_no_mut) => {
                                let _ = (#fn_params);
                                return #prefix::private::Continuation::<#mock_fn_path #eval_generic_args>::Answer(__answer_fn).report(#self_ref)
                            }''')], {'C05': r'R05\.3'})
M('c05-return-arm-reports', [(MM, '''                            #prefix::private::Eval::Return(output) => output,
                            #prefix::private::Eval::Continue(#prefix::private::Continuation::Answer''', '''                            #prefix::private::Eval::Return(output) => { let _ = output; #prefix::private::Continuation::<#mock_fn_path #eval_generic_args>::Unmock.report(#self_ref) }
                            #prefix::private::Eval::Continue(#prefix::private::Continuation::Answer''')], {'C05': r'R05\.2|XPAND\.accept'})
M('c05-eval-twice', [(MM, '''                    quote_spanned! { span=>
                        match #prefix::private::eval::<#mock_fn_path #eval_generic_args>(#self_ref, #inputs_eval_params) {
                            #prefix::private::Eval::Return(output) => output,''', '''                    quote_spanned! { span=>
                        match #prefix::private::eval::<#mock_fn_path #eval_generic_args>(#self_ref, #inputs_eval_params) {
                            #prefix::private::Eval::Return(output) if false => output,
                            #prefix::private::Eval::Return(output) => output,''')], silent=['C05'])
M('c15-default-arm-dropped-for-ref', [(MM, '''                    let default_impl_delegate_arm = if method.method.default.is_some() {
                        Some(quote! {''', '''                    let default_impl_delegate_arm = if method.method.default.is_some() && method.non_receiver_arg_count != 2 {
                        Some(quote! {''')], {'C15': r'R15\.1'})
M('c15-delegator-includes-provided', [(MM, '''            .filter(|(_, method)| method.method.default.is_none())
            .map(|(index, method)| {''', '''            .filter(|(_, method)| method.method.default.is_none() || method.non_receiver_arg_count == 0)
            .map(|(index, method)| {''')], {'C15': r'R15\.2|XPAND\.accept'})
M('c16-unmock-index-plus-one', [(MM, '            let unmock_arm = attr.get_unmock_fn(index).map(', '            let unmock_arm = attr.get_unmock_fn(if index > 0 { index - 1 } else { index }).map(')], {'C16': r'R16\.[13]|XPAND\.accept'})
M('c19-pat-fail-index-shift', [(MA, '                                reporter.pat_fail(#index, #mismatch_debug, Some(#doc_lit));', '                                reporter.pat_fail(#index + 1, #mismatch_debug, Some(#doc_lit));')], {'C19': r'R19\.4'})
M('c19-diagnostics-skip-first', [(MA, '''                    .filter_map(|(index, arg_matcher)| {
                        arg_matcher.render_diagnostics_stmt(index, &args[index])
                    });''', '''                    .filter_map(|(index, arg_matcher)| {
                        if index == 0 && args.len() > 2 { return None; }
                        arg_matcher.render_diagnostics_stmt(index, &args[index])
                    });''')], {'C19': r'R19\.4'})
M('c19-line-zero', [(MA, '            _m.pat_debug(#pattern_debug_lit_str, file!(), line!());\n        }\n    }\n}', '            _m.pat_debug(#pattern_debug_lit_str, file!(), 0);\n        }\n    }\n}')], {'C19': r'R19\.4'})
M('c06-or-guards', [(MA, '            Some(quote! { if #(#concatenated_guards)&&* })', '            Some(quote! { if #(#concatenated_guards)||* })')], {'C06': r'R06\.2'})
M('c06-ne-becomes-eq', [(MA, '''                        CompareMacro::Eq => "eq_fail",
                        CompareMacro::Ne => "ne_fail",''', '''                        CompareMacro::Eq => "eq_fail",
                        CompareMacro::Ne => "eq_fail",''')], silent=['C06'])
M('c06-diag-arm-first', [(MA, '''                        #(#success_arms)*
                        #diagnostics_arm
                        _ => false''', '''                        #diagnostics_arm
                        #(#success_arms)*
                        _ => false''')], {'C06': r'R06\.[23]'})
M('c06-catch-all-true', [(MA, '''                        #diagnostics_arm
                        _ => false
                    }''', '''                        #diagnostics_arm
                        _ => !reporter.enabled()
                    }''')], {'C06': r'R06\.[23]'})
M('c06-operator-swapped', [(MA, '''            Self::Eq => quote_spanned! { span=> == },
            Self::Ne => quote_spanned! { span=> != },''', '''            Self::Eq => quote_spanned! { span=> == },
            Self::Ne => quote_spanned! { span=> == },''')], {'C06': r'R06\.2'})
M('c05-inputs-reversed', [(MT, '''            let last_index = self.method.method.sig.inputs.len() - 1;
            for (index, pair) in self.method.method.sig.inputs.pairs().enumerate() {''', '''            let last_index = self.method.method.sig.inputs.len() - 1;
            let reversed_eval = matches!(self.syntax, InputsSyntax::EvalParams) && self.method.non_receiver_arg_count == 2 && self.method.method.sig.inputs.iter().skip(1).all(|a| matches!(a, syn::FnArg::Typed(t) if matches!(&*t.ty, syn::Type::Path(_))));
            let _ = reversed_eval;
            for (index, pair) in self.method.method.sig.inputs.pairs().enumerate() {''')], silent=['C05'])

# ---- constructors and stores (ctor.py) ----------------------------------------------------------
BUILD = 'src/build.rs'
PRIV = 'src/private.rs'
M('ctor-next-call-unordered', [(LIB, '''            fn_mocker::PatternMatchMode::InOrder,
            property::InOrder,''', '''            fn_mocker::PatternMatchMode::InAnyOrder,
            property::InOrder,''')], {'C04': r'R04\.0', 'C01': r'R01\.0'})
M('ctor-builder-new-index1', [(BUILD, '''                count_expectation: Default::default(),
                current_response_index: 0,''', '''                count_expectation: Default::default(),
                current_response_index: 1,''')], {'C02': r'R02\.0', 'C03': r'R03\.4'})
M('ctor-each-call-first-mut', [(BUILD, 'wrapper: dyn_builder::DynBuilderWrapper::Borrowed(self.patterns.last_mut().unwrap()),', 'wrapper: dyn_builder::DynBuilderWrapper::Borrowed(self.patterns.first_mut().unwrap()),')], {'C01': r'R01\.0'})
M('ctor-matching-func-keeps-first', [(PRIV, '        self.matching_fn = Some(MatchingFn(Box::new(matching_fn)));', '        if self.matching_fn.is_none() { self.matching_fn = Some(MatchingFn(Box::new(matching_fn))); }')], {'C06': r'R06\.5'})
M('ctor-pat-fail-kind-eq', [(PRIV, '''                kind: MismatchKind::Pattern,
                actual: actual.map(|dbg| dbg.into()),''', '''                kind: MismatchKind::Eq,
                actual: actual.map(|dbg| dbg.into()),''')], {'C19': r'R19\.6'})
M('ctor-collect-skips-first', [('src/mismatch.rs', '        for (input_index, mismatch) in reporter.mismatches {', '        for (input_index, mismatch) in reporter.mismatches.into_iter().skip(1) {')], {'C19': r'R19\.6'})
M('ctor-push-value-mut-keeps-chain', [('src/value_chain.rs', '''        self.root = Node::new(value).into();

        &mut self.root.get_mut().unwrap().value''', '''        if self.root.get().is_none() { self.root = Node::new(value).into(); }

        &mut self.root.get_mut().unwrap().value''')], {'C13': r'R13\.2'})
M('c15-from-delegator-clones-after-unwrap', [('src/default_impl_delegator.rs', '''        let unimock = match Arc::try_unwrap(delegator) {
            Ok(delegator) => delegator.unimock,
            Err(shared) => shared.unimock.clone(),
        };
        Arc::new(unimock)''', '''        let delegator = Arc::try_unwrap(delegator).unwrap_or_else(|shared| (*shared).clone());
        Arc::new(delegator.unimock.clone())''')], {'C15': r'R15\.5', 'C09': r'R09\.handles'})

EV = 'src/eval.rs'

# ---- loop-form of the unordered scan (the neutral refactoring `scan-as-for-loop`), broken in three ways -------------------
_SCAN_OLD = '            PatternMatchMode::InAnyOrder => fn_mocker\n                .call_patterns\n                .iter()\n                .enumerate()\n                .filter_map(\n                    |(pat_index, call_pattern)| match match_inputs(call_pattern, None) {\n                        Ok(false) => None,\n                        Ok(true) => Some(Ok((PatIndex(pat_index), call_pattern))),\n                        Err(err) => Some(Err((PatIndex(pat_index), err))),\n                    },\n                )\n                .next()\n                .transpose()\n                .map_err(|(pat_index, err)| self.map_pattern_error(err, fn_mocker, pat_index)),'
_SCAN_LOOP = '            PatternMatchMode::InAnyOrder => {\n                for (pat_index, call_pattern) in fn_mocker.call_patterns.iter().enumerate() {\n                    match match_inputs(call_pattern, None) {\n                        Ok(false) => {}\n                        Ok(true) => return Ok(Some((PatIndex(pat_index), call_pattern))),\n                        Err(err) => return Err(self.map_pattern_error(err, fn_mocker, PatIndex(pat_index))),\n                    }\n                }\n                Ok(None)\n            }'
M('c01-loopscan-rev', [(EV, _SCAN_OLD, _SCAN_LOOP.replace('.iter().enumerate() {', '.iter().enumerate().rev() {'))], {'C01': r'R01\.1'})
M('c01-loopscan-stop-at-reject', [(EV, _SCAN_OLD, _SCAN_LOOP.replace('Ok(false) => {}', 'Ok(false) => return Ok(None),'))], {'C01': r'R01\.1'})
M('c01-loopscan-last-wins', [(EV, _SCAN_OLD, _SCAN_LOOP.replace('for (pat_index', 'let mut found = None;\n                for (pat_index').replace('Ok(true) => return Ok(Some((PatIndex(pat_index), call_pattern))),', 'Ok(true) => { found = Some((PatIndex(pat_index), call_pattern)); }').replace('Ok(None)\n            }', 'Ok(found)\n            }'))], {'C01': r'R01\.1'})

# ---- rules added for the second round of seeds -------------------------------------------------------------------------------
M('c05-eager-debug-inputs', [(EV, '''    let dyn_ctx = DynCtx {
        info: F::info(),''', '''    let _rendered = F::debug_inputs(&inputs);
    let dyn_ctx = DynCtx {
        info: F::info(),''')], {'C05': r'R05\.7'})
M('c12-at-least-once-flavour', [('src/build.rs', '''        self.wrapper.push_returner_result(
            self.return_value
                .take()
                .unwrap()
                .into_return()
                .map(|r| r.into_returner()),
        );
        self.wrapper.quantify(times, counter::Exactness::AtLeast);''', '''        let value = self.return_value.take().unwrap();
        let converted = if times == 1 { value.into_return_once() } else { value.into_return() };
        self.wrapper.push_returner_result(converted.map(|r| r.into_returner()));
        self.wrapper.quantify(times, counter::Exactness::AtLeast);''')], {'C12': r'R12\.7'})
M('c13-helper-cell-replaced', [(LIB, '''        self.default_impl_delegator_cell
            .get_or_init(|| alloc::Box::new(DefaultImplDelegator::__from_unimock(self.clone())));
        self.default_impl_delegator_cell.get_mut().unwrap()''', '''        let delegator = DefaultImplDelegator::__from_unimock(self.clone());
        self.default_impl_delegator_cell = alloc::Box::new(delegator).into();
        self.default_impl_delegator_cell.get_mut().unwrap()''')], {'C13': r'R13\.6'})
M('c19-expected-pattern-first-of-method', [('src/state.rs', '''            let (pat_index, _) = fn_mocker.find_call_pattern_for_call_order(ordered_call_index)?;

            Some(fn_mocker.debug_pattern(pat_index))''', '''            let (_, _) = fn_mocker.find_call_pattern_for_call_order(ordered_call_index)?;

            Some(fn_mocker.debug_pattern(crate::call_pattern::PatIndex(0)))''')], {'C19': r'R19\.7'})
M('c11-count-before-match', [(EV, '''                let mut mismatch_reporter = MismatchReporter::new_enabled();

                if !match_inputs(pattern, Some(&mut mismatch_reporter))''', '''                let _ = pattern.next_responder();
                let mut mismatch_reporter = MismatchReporter::new_enabled();

                if !match_inputs(pattern, Some(&mut mismatch_reporter))''')], {'C11': r'R11\.4', 'C03': r'R03\.5', 'C04': r'R04\.7'})

# ---- loop form of the panic-message construction (neutral `teardown-panic-join`), broken in three ways ---------------------------
_TPJ_OLD = '        let error_strings = errors\n            .iter()\n            .map(<MockError as ToString>::to_string)\n            .collect::<Vec<_>>();\n        panic!("{}", error_strings.join("\\n"));'
_TPJ_LOOP = '        let mut message = crate::alloc::String::new();\n        for (index, error) in errors.iter().enumerate() {\n            if index > 0 {\n                message.push(\'\\n\');\n            }\n            message.push_str(&error.to_string());\n        }\n        panic!("{}", message);'
M('c03-msgloop-skip-first', [(TD, _TPJ_OLD, _TPJ_LOOP.replace('errors.iter().enumerate()', 'errors.iter().enumerate().skip(1)'))], {'C03': r'R03\.3', 'C08': r'R08\.4'})
M('c03-msgloop-break', [(TD, _TPJ_OLD, _TPJ_LOOP.replace("message.push_str(&error.to_string());", "message.push_str(&error.to_string());\n            break;"))], {'C03': r'R03\.3', 'C08': r'R08\.4'})
M('c03-msgloop-first-only', [(TD, _TPJ_OLD, _TPJ_LOOP.replace("message.push_str(&error.to_string());", "if index == 0 { message.push_str(&error.to_string()); }"))], {'C03': r'R03\.3', 'C08': r'R08\.4'})

# ---- rules added for the third round of seeds ---------------------------------------------------------------------------------
M('c13-chain-drop-in-place', [('src/value_chain.rs', '''        if let Some(node) = self.root.take() {
            drop(node.value);
            let mut cell = node.next;

            while let Some(node) = cell.take() {
                drop(node.value);
                cell = node.next;
            }
        }''', '''        let mut cell = &mut self.root;

        while let Some(node) = cell.get_mut() {
            node.value = Value::Send(Box::new(()));
            cell = &mut node.next;
        }''')], {'C13': r'R13\.7'})
M('c12-tuple-eager-outputs', [('src/output/deep/tuples.rs', '''                    Some(($(self.$i.output()?),+,))''', '''                    let outputs = ($(self.$i.output()),+,);
                    Some(($(outputs.$i?),+,))''')], {'C12': r'R12\.8', 'C17': r'R17\.3'})
M('c05-handle-error-stale', [(LIB, '''        match result {
            Ok(value) => value,
            Err(error) => self.induce_panic(error),''', '''        match self.shared_state.clone_panic_reasons().into_iter().next().map_or(result, Err) {
            Ok(value) => value,
            Err(error) => self.induce_panic(error),''')], {'C05': r'R05\.8', 'C08': r'R08\.1'})
M('c09-record-only-clones', [(LIB, '''    fn induce_panic(&self, error: error::MockError) -> ! {''', '''    fn induce_panic(&self, error: error::MockError) -> ! {
        if self.original_instance {
            panic!("{error}");
        }''')], {'C09': r'R09\.recorded', 'C08': r'R08\.[12]'})

# ---- round-4 rule mutants ----------------------------------------------------------------------
M('r4-info-flag-always', [(MM, '''    let info_set_default_impl = if method.has_default_impl {''', '''    let info_set_default_impl = if method.has_default_impl || trait_info.has_default_impls {''')],
  {'C07': r'R07\.5', 'C15': r'R15\.1', 'C16': r'R16\.3'})
M('r4-info-flag-never', [(MM, '''    let info_set_default_impl = if method.has_default_impl {''', '''    let info_set_default_impl = if method.has_default_impl && method.non_generic_mock_entry_ident.is_some() {''')],
  {'C15': r'R15\.1'})
M('r4-chain-drop-after-count', [(TD, '''    drop(core::mem::take(&mut unimock.value_chain));

''', ''), (TD, '''    if strong_count > 1 {''', '''    drop(core::mem::take(&mut unimock.value_chain));
    if strong_count > 1 {''')], {'C18': r'R18\.6', 'C09': r'R09\.pre'})

# ---- round-5 rule mutants ----------------------------------------------------------------------
M('r5-match-inputs-no-matcher-accepts', [('src/call_pattern.rs', '''            (None, _) => Err(PatternError::NoMatcherFunction),''', '''            (None, _) => Ok(true),''')],
  {'C01': r'R01\.6', 'C04': r'R04\.8', 'C06': r'R06\.5'})
M('r5-never-called-total-overwritten', [('src/fn_mocker.rs', '''            total_calls += pattern''', '''            total_calls = pattern''')], {'C03': r'R03\.2'})
M('r6-assembler-cursor-starts-at-one', [('src/assemble.rs', '''            current_call_index: 0,''', '''            current_call_index: 1,''')], {'C04': r'R04\.1', 'C18': r'R18\.4'})
M('r8-contains-shifted', [(FM, '''                pattern.ordered_call_index_range.start <= ordered_call_index
                    && pattern.ordered_call_index_range.end > ordered_call_index''', '''                pattern.ordered_call_index_range.contains(&(ordered_call_index + 1))''')], {'C04': r'R04\.4'})
M('r8-returner-dropped', [('src/build.rs', '''                Ok(responder) => self.push_responder(responder.into_dyn_responder()),''', '''                Ok(responder) => { let _ = responder; }''')],
  {'C02': r'R02\.10', 'C12': r'R12\.10', 'C14': r'R14\.5', 'C17': r'R17\.7'})
M('r9-hygiene-reverted', [(MA, '''                        span.resolved_at(proc_macro2::Span::mixed_site()),''', '''                        span,''')], {'C06': r'R06\.2'})
