"""Pattern grammar for matching!: each case is a mocked method with typed arguments, a matching! invocation, and
reference functions written by this generator from the grammar point (independently of the macro):

  fn ref_k(inputs: &(T0, .., Tn)) -> bool { let (a0, .., an) = inputs; [let l_i = e_i;] match (c0(a0), .., cn(an)) { alt if guard => true, .. _ => false } }
  fn pos_k_i(inputs: &(T0, .., Tn)) -> bool   -- argument i alone against its sub-pattern (guard-free single-alternative cases)

c_i = unimock::private::as_str_ref for positions that hold a string-literal pattern in some alternative,
      unimock::private::as_slice   for positions that hold a slice pattern, identity otherwise
(the property: "string-literal and slice patterns being compared through AsRef<str>/AsRef<[T]>").
"""
import json
import random

# argument kinds: type, list of (pattern text, class) where class in {lit, str, slice, wild, bind, refutable...}
ARGS = {
    'i32': ('i32', ['1', '1 | 2', '3..=5', '_', 'x', 'x @ 1..=9', '-1', '5..', '..=4', '2..7', 'y @ 3..']),
    'bool': ('bool', ['true', 'false', '_']),
    'char': ('char', ["'a'", "'a'..='z'", '_']),
    'str': ('&str', ['"x"', '"x" | "y"', '_', 's', '""']),
    'string': ('String', ['"x"', '"a" | "b"', '_']),
    'newtype': ('NameT', ['"x"', '_']),
    'opt': ('Option<u8>', ['None', 'Some(1)', 'Some(3..=5)', 'Some(_)', '_', 'Some(n)', 'Some(1 | 2)']),
    'enum': ('E', ['E::A', 'E::B(1)', 'E::B(_)', 'E::C { x: 1, .. }', 'E::C { x, y: true }', '_', 'E::A | E::B(2)']),
    'tuple': ('(u8, bool)', ['(1, true)', '(_, false)', '(n, _)', '_']),
    'struct': ('S', ['S { a: 1, b: _ }', 'S { a, .. }', '_']),
    'slice': ('&[u8]', ['[]', '[1, 2]', '[1, ..]', '[.., 9]', '[a, b]', '[first, .., last]', '_']),
    'vec': ('Vec<u8>', ['[]', '[1, ..]', '[_, _]', '_']),
    'optref': ('Option<&str>', ['None', 'Some("x")', 'Some(_)', '_']),
    'unit': ('U', ['U', '_']),
}
STR_LIT_KINDS = {'str', 'string', 'newtype'}
SLICE_KINDS = {'slice', 'vec'}

PRELUDE = '''
    #[derive(Debug, Clone, PartialEq)] pub enum E { A, B(u8), C { x: u8, y: bool } }
    #[derive(Debug, Clone, PartialEq)] pub struct S { pub a: u8, pub b: bool }
    #[derive(Debug, Clone, PartialEq)] pub struct NameT(pub String);
    #[derive(Debug, Clone, PartialEq)] pub struct U;
    impl AsRef<str> for NameT { fn as_ref(&self) -> &str { &self.0 } }
    pub static GATE: core::sync::atomic::AtomicBool = core::sync::atomic::AtomicBool::new(true);
    #[inline(never)] pub fn gate() -> bool { GATE.load(core::sync::atomic::Ordering::Relaxed) }
    #[inline(never)] pub fn gate2() -> bool { !GATE.load(core::sync::atomic::Ordering::Relaxed) }
'''

EQ_OPERANDS = {'i32': '&7', 'bool': '&true', 'char': "&'q'", 'opt': '&Some(1)', 'enum': '&E::A', 'tuple': '&(1, true)', 'struct': '&S { a: 1, b: true }', 'string': '&String::from("z")'}


def is_strlit(p):
    return p.lstrip().startswith('"')


def is_slicepat(p):
    return p.lstrip().startswith('[')


def bindings_of(p):
    import re
    # identifiers that are bindings in our grammar's patterns
    names = []
    for m in re.finditer(r'\b([a-z][a-z0-9_]*)\b', p):
        w = m.group(1)
        if w in ('true', 'false', 'x' if False else '___'):
            continue
        names.append(w)
    return [n for n in names if n not in ('true', 'false', 'i32')]


def generate(tier, seed):
    rnd = random.Random(seed * 104729 + 5)
    off = seed * 7      # the seed rotates which kinds / sub-patterns are combined in the multi-argument cases
    kinds = list(ARGS)
    cases = []
    # (1) every kind x every pattern as a 1-argument simple case
    for k in kinds:
        for p in ARGS[k][1]:
            cases.append(dict(kinds=[k], alts=[[p]], guard=None, form='simple'))
    # (2) multi-argument simple cases (arity 2..4), rotating
    n2 = 40 if tier == 'quick' else 300
    for i in range(n2):
        arity = 2 + i % 3
        ks = [kinds[(i * 3 + j * 5 + off) % len(kinds)] for j in range(arity)]
        ps = [ARGS[k][1][(i + j * 7 + off) % len(ARGS[k][1])] for j, k in enumerate(ks)]
        cases.append(dict(kinds=ks, alts=[ps], guard=None, form='simple'))
    # (3) disjunctive form with 2-3 alternatives, optional guard over a binding of an i32 position
    n3 = 30 if tier == 'quick' else 200
    for i in range(n3):
        arity = 2 + i % 3
        ks = ['i32'] + [kinds[(i * 5 + j * 3 + 1 + off) % len(kinds)] for j in range(arity - 1)]
        nalt = 2   # the macro's grammar rejects 3+ parenthesised alternatives (`Expected tuple`): see DESIGN.md
        alts = []
        for a in range(nalt):
            ps = []
            for j, k in enumerate(ks):
                if j == 0:
                    ps.append('g' if i % 2 == 0 else ['1', '_', '2 | 3'][(a + i) % 3])
                else:
                    nb = [q for q in ARGS[k][1] if not __import__('re').search(r'\b(x|s|n|a|b|first|last)\b(?!\s*:)', __import__('re').sub(r'"[^"]*"|\'[^\']*\'', '', q)) or q.startswith('S {') and 'a,' not in q]
                    nb = [q for q in nb if q not in ('E::C { x, y: true }', 'S { a, .. }')]
                    ps.append(nb[(i + a * 3 + j + off) % len(nb)])
            # bindings other than g must not differ between alternatives: replace bindings by wildcards in non-first positions
            alts.append(ps)
        guard = '*g > %d' % (i % 5) if i % 2 == 0 else None
        cases.append(dict(kinds=ks, alts=alts, guard=guard, form='disj'))
    # (3b) alternatives that *look* irrefutable to a syntactic test (only `_` and bare identifiers) but are not: unit variants
    #      (`None`) and unit structs are `Pat::Ident` too. Later alternatives must still be reachable.
    look = [
        (['opt'], [['None'], ['Some(1)']]),
        (['opt', 'i32'], [['None', '_'], ['Some(_)', '3..=5']]),
        (['i32', 'optref'], [['_', 'None'], ['1', 'Some("x")']]),
        (['unit', 'i32'], [['U', '_'], ['_', '1']]),
        (['unit', 'opt'], [['U', 'None'], ['_', 'Some(1 | 2)']]),
        (['opt', 'opt'], [['None', 'None'], ['Some(1)', '_']]),
    ]
    for ks, alts in look:
        cases.append(dict(kinds=ks, alts=alts, guard=None, form='disj'))
    # (4) eq!/ne! operands
    n4 = 16 if tier == 'quick' else 60
    eqk = list(EQ_OPERANDS)
    for i in range(n4):
        arity = 1 + i % 3
        ks = [eqk[(i + j * 3 + off) % len(eqk)] for j in range(arity)]
        ps = []
        for j, k in enumerate(ks):
            mode = (i + j) % 3
            if mode == 0:
                ps.append('eq!(%s)' % EQ_OPERANDS[k])
            elif mode == 1:
                ps.append('ne!(%s)' % EQ_OPERANDS[k])
            else:
                ps.append(ARGS[k][1][0] if k in ARGS else '_')
        cases.append(dict(kinds=ks, alts=[ps], guard=None, form='simple'))
    # (4b) eq!/ne! operands together with a guard over a binding, including guards whose top-level operator is `||`
    guards = ['*g > 10', '*g > 10 || *g == 0', '*g == 1 || *g == 2 || *g == 3', '*g > 10 && *g < 20', '!(*g > 3) || *g == 7']
    n4b = 10 if tier == 'quick' else 40
    for i in range(n4b):
        k = eqk[(i + off) % len(eqk)]
        mode = 'eq' if i % 2 == 0 else 'ne'
        ps = ['%s!(%s)' % (mode, EQ_OPERANDS[k]), 'g']
        ks = [k, 'i32']
        if i % 3 == 0:
            ps = ['g', '%s!(%s)' % (mode, EQ_OPERANDS[k])]
            ks = ['i32', k]
        cases.append(dict(kinds=ks, alts=[ps], guard=guards[i % len(guards)], form='disj'))
    # (4d) several ne! (and eq!/ne! mixes) in one arm: each operand is its own `!=` / `==` term of a conjunction
    multi = [
        (['i32', 'i32'], ['ne!(&7)', 'ne!(&9)']),
        (['i32', 'char'], ['ne!(&7)', "ne!(&'q')"]),
        (['i32', 'i32', 'i32'], ['ne!(&1)', 'ne!(&2)', 'ne!(&3)']),
        (['opt', 'i32'], ['ne!(&Some(1))', 'ne!(&7)']),
        (['i32', 'i32', 'bool'], ['ne!(&7)', 'eq!(&9)', 'ne!(&true)']),
        (['tuple', 'tuple'], ['ne!(&(1, true))', 'ne!(&(2, false))']),
    ]
    for ks, ps in (multi if tier != 'quick' else multi[:4]):
        cases.append(dict(kinds=ks, alts=[ps], guard=None, form='simple'))
    # (4c) eq!/ne! operands in different alternatives (same operand type, different values), with and without a shared position
    eq2 = {'i32': ('&7', '&9'), 'char': ("&'q'", "&'r'"), 'opt': ('&Some(1)', '&Some(2)'), 'tuple': ('&(1, true)', '&(2, false)')}
    combos = [(3, 2, 0), (3, 0, 2), (3, 1, 1), (2, 0, 1), (2, 1, 0), (3, 1, 2), (3, 2, 1), (2, 0, 0)]
    n4c = 8 if tier == 'quick' else 32
    eq2k = list(eq2)
    for i in range(n4c):
        arity, p0, p1 = combos[i % len(combos)]
        k = eq2k[(i // len(combos) + i) % len(eq2k)]
        m0 = 'eq' if i % 2 == 0 else 'ne'
        m1 = 'eq' if (i // 2) % 2 == 0 else 'ne'
        a0 = ['_'] * arity
        a1 = ['_'] * arity
        a0[p0] = '%s!(%s)' % (m0, eq2[k][0])
        a1[p1] = '%s!(%s)' % (m1, eq2[k][1])
        cases.append(dict(kinds=[k] * arity, alts=[a0, a1], guard=None, form='disj'))
    # (4d) hygiene: bindings named like the identifiers the macro generates for its own use (argument `a{i}`, operand local `l{n}`) next to
    #      eq!/ne! operands at the position such a name would refer to - the user's binding must not capture what the comparison reads
    cases.append(dict(kinds=['i32', 'i32'], alts=[['a1', 'eq!(&7)']], guard=None, form='simple'))
    cases.append(dict(kinds=['i32', 'i32'], alts=[['ne!(&7)', 'a0']], guard=None, form='simple'))
    cases.append(dict(kinds=['i32', 'i32', 'i32'], alts=[['a2', '_', 'eq!(&7)'], ['a2', '6', '_']], guard=None, form='disj'))
    cases.append(dict(kinds=['i32', 'i32'], alts=[['l0', 'eq!(&7)']], guard='*l0 > 3', form='disj'))
    # (4e) alternatives of which only some carry eq!/ne! operands, under a guard whose top-level operator binds weaker than `&&`
    cases.append(dict(kinds=['i32', 'i32'], alts=[['eq!(&1)', 'b'], ['2', 'b']], guard='*b == 0 || *b == 7', form='disj'))
    cases.append(dict(kinds=['i32', 'i32'], alts=[['2', 'b'], ['ne!(&1)', 'b']], guard='*b == 0 || *b == 7', form='disj'))
    # (5) empty matcher
    cases.append(dict(kinds=[], alts=[[]], guard=None, form='empty'))
    # (5b) a function without arguments still has a pattern - the empty tuple - and may carry a guard (one and two alternatives)
    cases.append(dict(kinds=[], alts=[[]], guard='gate()', form='unitguard'))
    cases.append(dict(kinds=[], alts=[[], []], guard='gate() && !gate2()', form='unitguard'))

    lines = ['pub mod pats {', '    use unimock::*;', PRELUDE]
    descs = []
    for idx, c in enumerate(cases):
        ks = c['kinds']
        tys = [ARGS[k][0] for k in ks]
        n = len(ks)
        tname = 'P%d' % idx
        params = ', '.join('a%d: %s' % (i, t) for i, t in enumerate(tys))
        lines.append('    #[unimock(api=%sMock)] pub trait %s { fn f(&self%s) -> u8; }' % (tname, tname, (', ' + params) if params else ''))
        # coercions
        coerce = []
        for i, k in enumerate(ks):
            strl = any(is_strlit(a[i]) for a in c['alts'])
            slc = any(is_slicepat(a[i]) for a in c['alts'])
            coerce.append('str' if strl else ('slice' if slc else None))
        # macro invocation
        if c['form'] == 'empty':
            inv = 'matching!()'
        elif c['form'] == 'simple':
            inv = 'matching!(%s)' % ', '.join(c['alts'][0])
        else:
            alts = ' | '.join('(%s)' % ', '.join(a) for a in c['alts'])
            inv = 'matching!(%s%s)' % (alts, (' if %s' % c['guard']) if c['guard'] else '')
        inv_src = inv
        if n >= 1 and idx % 3 == 1:
            # a multi-line invocation as rustfmt lays long ones out: the recorded line must still be that of `matching!(` itself
            inv_src = 'matching!(\n            %s\n        )' % inv[len('matching!('):-1]
        lines.append('    pub fn m%d() -> impl Clause { %sMock::f.each_call(%s).returns(1u8) }' % (idx, tname, inv_src))
        # reference
        if n == 0:
            inputs_ty = '()'
        elif n == 1:
            inputs_ty = tys[0]
        else:
            inputs_ty = '(%s)' % ', '.join(tys)
        lets = []
        destructure = ''
        if n == 1:
            destructure = 'let a0 = inputs;'
        elif n > 1:
            destructure = 'let (%s) = inputs;' % ', '.join('a%d' % i for i in range(n))
        scrut = []
        for i in range(n):
            if coerce[i] == 'str':
                scrut.append('unimock::private::as_str_ref(a%d)' % i)
            elif coerce[i] == 'slice':
                scrut.append('unimock::private::as_slice(a%d)' % i)
            else:
                scrut.append('a%d' % i)
        arms = []
        for ai, a in enumerate(c['alts']):
            pats = []
            guards = []
            if c['guard']:
                guards.append('(%s)' % c['guard'])
            for i, p in enumerate(a):
                if p.startswith('eq!(') or p.startswith('ne!('):
                    operand = p[4:-1]
                    lets.append('let l%d_%d = %s;' % (ai, i, operand))
                    pats.append('m%d' % i)
                    guards.append('(m%d %s l%d_%d)' % (i, '==' if p.startswith('eq!') else '!=', ai, i))
                else:
                    pats.append(p)
            pat = pats[0] if n == 1 else '(%s)' % ', '.join(pats)
            arms.append('%s%s => true,' % (pat, (' if ' + ' && '.join(guards)) if guards else ''))
        if n == 0 and c['guard']:
            ref = 'pub fn ref_%d(inputs: &()) -> bool { let _ = inputs; match () { %s _ => false } }' % (idx, ' '.join(arms))
        elif n == 0:
            ref = 'pub fn ref_%d(inputs: &()) -> bool { true }' % idx
        else:
            sc = scrut[0] if n == 1 else '(%s)' % ', '.join(scrut)
            ref = 'pub fn ref_%d(inputs: &%s) -> bool { %s %s match %s { %s _ => false } }' % (idx, inputs_ty, destructure, ' '.join(lets), sc, ' '.join(arms))
        lines.append('    ' + ref)
        # per-position references for guard-free single-alternative cases without eq!/ne!
        pos_refs = []
        single = len(c['alts']) == 1 and not c['guard'] and c['form'] != 'empty'
        if single:
            for i, p in enumerate(c['alts'][0]):
                if p.startswith('eq!(') or p.startswith('ne!('):
                    pos_refs.append(dict(index=i, kind='eqne'))
                    continue
                lines.append('    pub fn pos_%d_%d(inputs: &%s) -> bool { %s match %s { %s => true, _ => false } }' % (idx, i, inputs_ty, destructure, scrut[i], p))
                pos_refs.append(dict(index=i, kind='pat', fn='pos_%d_%d' % (idx, i)))
        descs.append(dict(idx=idx, trait=tname, macro_fn='m%d' % idx, ref_fn='ref_%d' % idx, arity=n, kinds=ks, alts=c['alts'], guard=c['guard'], form=c['form'], coerce=coerce,
                          single=single, pos_refs=pos_refs, invocation=inv))
    lines.append('}')
    return '\n'.join(lines), descs
