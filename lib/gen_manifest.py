#!/usr/bin/env python3
"""Regenerates MANIFEST.json from the table below (keeps it valid; claimed = modules that exist)."""
import json, os
HERE = os.path.dirname(os.path.abspath(__file__))
VERIF = os.path.dirname(HERE)
props = [json.loads(l) for l in open(os.path.join(VERIF, 'properties.jsonl'))]

CLAIMS = {
 'C09': dict(cat='other', tech='decision-table extraction over MIR (path-sensitive abstract interpretation) vs lifecycle oracle tables',
   text='Decides the structural clauses R09.*: the decision tables of teardown, Drop::drop, verify(), no_verify_in_drop(), teardown_panic, teardown_report, Termination::report, and the field values produced by Clone::clone / from_assembler / new / new_partial, extracted from MIR on all paths, equal the lifecycle tables transcribed from the property; torn_down is set and helpers released before the first branch. Quantifies over every path of these functions (every lifecycle history reaching them), which tests cannot.',
   note='Not decided: sequences of lifecycle events are not executed; the behavioural statement follows from the tables by the argument in DESIGN.md section 4 (C09). Trusted: rustc MIR, the exporter and rule engine, std contracts (Arc::strong_count, thread::panicking, ThreadId equality).'),
 'C11': dict(cat='other', tech='dominance / path-sensitive who-may-panic census over MIR + lock-closure call census',
   text='Decides R11.1-R11.3: on every path of teardown that has not established thread::panicking()==false the result is Ok and no explicit panic entry (nor a local function reaching one) is called; teardown_panic panics only in the Err arm; Drop::drop has no own panic site; closures run under MutexIsh::locked call only mock-internal std code (no user code under a lock, so no poisoning). A double panic aborts the process and cannot be expressed as a test; as a path rule it is one query.',
   note='Not decided: panics raised by Drop impls of user values lent through make_ref (user code); no crash point is executed. Trusted: rustc MIR, exporter, rule engine, std contract of thread::panicking.'),

 'C08': dict(cat='other', tech='who-may-panic census over the call graph + must-pass-through (record before panic) via path-sensitive MIR interpretation + append-only census',
   text='Decides R08.1-R08.5: every explicit panic site reachable from the mocked-call entry points is induce_panic\'s final panic (or the lock-poison unwrap); on every path of induce_panic (lock wrapper and closure inlined) the error parameter itself is pushed to the shared panic_reasons list under the lock before the diverging call; the list is append-only (construction, that push, a full clone on read); teardown returns the recorded errors before reading any counter and teardown_panic / teardown_report render every element; nothing intercepts panics. Holds for every history and thread placement because it is a property of all paths, not of sampled runs.',
   note='Not decided: thread schedules are not enumerated (the list sits behind MutexIsh, see C10/C11); user-code panics are by construction not recorded. Trusted: rustc MIR, exporter, rule engine, std contracts (Mutex::lock exclusivity, Vec::push/clone).'),

 'C10': dict(cat='other', tech='atomic-operation census + provenance of positions + interior-mutability census of the type tree (type-level query) + lock-closure census',
   text='Decides R10.1-R10.5: each position (per-pattern match index, global ordered slot) is the return value of exactly one SeqCst/AcqRel fetch_add(1) on a dedicated atomic and reaches the lookup unchanged; no load/store/CAS on those atomics on the call path (no check-then-act); the only interior mutability reachable from the mock is the two atomics, the MutexIsh lock, the per-instance OnceCells and Send+Sync type-erased boxes; nobody gets &mut to the Arc-shared state; no user code runs under a lock. These are the mechanism that makes every interleaving assign distinct consecutive positions; the suite never runs two threads on one pattern.',
   note='Not decided: interleavings are not enumerated and no thread is run - the claim is the atomicity mechanism plus the std contract that fetch_add returns each previous value exactly once. Trusted: rustc type information and MIR, exporter, rule engine, std atomics/Mutex contracts.'),

 'C01': dict(cat='other', tech='traversal-class analysis of the selector pipeline + decision table of the accept closure + who-may-call/provenance census of the match counter + append-only census of pattern lists',
   text='Decides R01.1-R01.5: the unordered arm of the selector is a forward first-hit iterator pipeline over the called method\'s own pattern list; the accept closure consults only the matcher (Ok(true) select, Ok(false) skip, Err error) and reads no pattern state; the match counter is bumped from one site, exactly once, on exactly the selected pattern; pattern lists are append-only and built in clause order (assembler push table, Each::call/deconstruct, tuple impls 2..16 left to right); the list consulted is the one filed under TypeId::of::<F>() of the called MockFn. Together: the answer is the least declared index whose matcher accepts, independent of history.',
   note='Not decided: no history is executed; an explicit-loop rewrite of the scan is reported as UNRECOGNISED (fail closed). Trusted: rustc MIR, exporter, rule engine, std iterator adaptor contracts.'),
 'C02': dict(cat='other', tech='linear-offset analysis of the builder arithmetic + call-site table of the builder API + provenance of the call index + normal-form match of the segment lookup + decision table of eval::eval',
   text='Decides R02.1-R02.5: quantify advances the running response index and the minimum by exactly the repeat count, push_responder records at the running index; every builder API function pushes before quantifying and passes the documented (count, exactness); the call index is the pre-increment fetch_add value with offset 0; the segment lookup is in the normal form greatest-start<=k (binary_search_by with element-vs-target comparator, Ok(i)->i, Err(p)->p-1; or partition_point(start<=k)-1); eval::eval maps each responder kind to its outcome, an exhausted single-use value to CannotReturnValueMoreThanOnce, and never fabricates a value. Off-by-one and boundary faults are separate rows here; no test sits on them.',
   note='Not decided: a lookup algorithm outside the recognised idioms is UNRECOGNISED (fail closed); for equal segment starts (zero-count segment) binary_search_by is documented to return any match - accepted as an assumption recorded in the evidence. Trusted: rustc MIR, exporter, rule engine, std contracts (binary_search_by, partition_point, fetch_add).'),
 'C03': dict(cat='other', tech='decision table over exactness x order partition of (actual - minimum) extracted from MIR + loop-completeness (traversal class) + provenance of accumulators and messages',
   text='Decides R03.1-R03.5: CallCounter::verify pushes exactly one error iff the quantifier is violated, on every region of the partition d = actual - minimum in {-2..2} for each exactness (Exact: d!=0, AtLeast: d<0, AtLeastPlusOne: d<=0); FnMocker::verify visits every pattern once with the caller\'s error vector, sums the returned counts with offset 0 and pushes MockNeverCalled iff the sum is 0; teardown visits every method and returns exactly that vector; teardown_panic / teardown_report render every element; the builder stores the documented (minimum, exactness) pairs, which reach the counter unchanged; each error line carries path, pattern, bound and actual count.',
   note='Not decided: wording/layout of the message. Trusted: rustc MIR, exporter, rule engine, std contracts.'),
 'C04': dict(cat='other', tech='linear-offset equations of slot assignment + who-may-call and dominance of the slot bump + order-partition evaluation of the slot predicate + decision table of the ordered selector arm',
   text='Decides R04.1-R04.6: ordered patterns get consecutive ranges (start = cursor, end = cursor + exact count, cursor\' = end), unordered ones none; the global slot counter is advanced by one atomic RMW from one site inside the ordered arm, unordered calls never reach it; the RMW result is the index used for lookup and in error payloads; the slot predicate is start <= i < end on every region of the partition, evaluated in the called method\'s own list; the ordered arm runs the matcher once on exactly the slot owner and turns every deviation (no owner, matcher error, rejected arguments) into an error; unquantified ordered clauses are exactly-once; the response inside a slot range is chosen by the pattern\'s own counter.',
   note='Not decided: nothing is run. Trusted: rustc MIR, exporter, rule engine, std contracts (fetch_add, Iterator::find).'),
 'C07': dict(cat='other', tech='decision-table extraction over MIR (eval_dyn, eval::eval, Continuation::report, constructors) + effect constraints on counters',
   text='Decides R07.1-R07.4: the decision table of eval_dyn over (mentioned, default body, partial-by-default, fallback mode, selector result, responder) equals the documented resolution order (default impl > partial-by-default > fallback mode; unmatched: strict error / partial unmock); counters are untouched on every path that selects no pattern and the diagnostics loop only runs the matcher; new/new_partial pass Error/Unmock and fallback_mode is never written afterwards; Continuation::report maps each unanswered continuation to its error via induce_panic; eval::eval never constructs a return value except from a stored output.',
   note='Not decided: the generated Unmock/CallDefaultImpl arms of #[unimock] impls are validated under C05/C15/C16, not here. Trusted: rustc MIR, exporter, rule engine.'),

 'C12': dict(cat='other', tech='type-level query on impl bounds (parametricity) + provenance of the stored closures + lock-closure census + variant-map tables + leak-primitive census + compile-fail witnesses with compiling twins',
   text='Decides R12.1-R12.5: the single-use conversion impl has no Clone/Copy bound (so it cannot duplicate the value) while the multi-use one demands T: Clone; the stored single-use closure returns exactly the result of Option::take executed under MutexIsh::locked on a slot built from Some(value.into()) - no clone, no check-then-act; the multi-use closure returns Some(value.clone()) and never writes the original; an exhausted value is an error in eval::eval and composite kinds fail as a whole; no leak primitive exists in the crate; 21 witness programs (11 must be rejected with E0277 mentioning IntoReturn/Clone, each with a compiling twin) show the builder refuses multi-use quantifiers for non-Clone values. Races and drop counts cannot be sampled by tests; here they follow from take-under-lock plus ownership typing.',
   note='Not decided: drop counts are implied by ownership typing (no leak primitives, forbid(unsafe_code)), not measured; interleavings are not enumerated. Witnesses are compiled (--emit=metadata), never run. Trusted: rustc type checker and MIR, exporter, rule engine, std contracts (Option::take, Mutex).', engine='FACTS+TYWIT'),
 'C13': dict(cat='other', tech='provenance analysis of ValueChain::push_node over MIR paths + who-may-write census of chain cells by receiver mutability + lint-level query + leak-primitive census',
   text='Decides R13.1-R13.4: unsafe_code is forbidden in both crates (validity and non-aliasing of handed-out references are then the compiler\'s guarantee); on every path push_node returns exactly the reference OnceCell::try_insert returned in its Ok arm for the node built from this call\'s value, advancing only through `.next` of the occupying node; through &self the chain cells are only extended (try_insert) or read, replacement/clearing needs &mut self or happens in teardown/Drop; lent boxes are written only at configuration time and output() only borrows; no leak primitives. A check-then-insert rewrite (get + get_or_init) that only misbehaves under a race is rejected structurally.',
   note='Not decided: no thread is run; drop-exactly-once follows from ownership typing. Trusted: rustc, exporter, rule engine, once_cell contract (try_insert returns Ok(&inserted) or Err((&existing, value))).'),
 'C14': dict(cat='other', tech='traversal/order analysis of the 16 tuple Clause impls + decision tables of every function that registers patterns, Each::deconstruct, try_from_clause, from_assembler + bounds query + compile-fail witnesses with twins',
   text='Decides R14.1-R14.4: each tuple impl (arity 2..16) deconstructs fields 0..n-1 once each, in order, into the same sink and stops at the first error; every function that mutates the assembler\'s method table obeys the registration table (unproducible output or mode conflict => Err before anything is registered; same mode => append; new method => insert); an empty stub is rejected before any push; try_from_clause propagates the error and from_assembler panics on it at construction; at_least_times carries Ordering<Kind=InAnyOrder> and then() carries Repetition<Kind=Exact>, confirmed by 11 witnesses (5 rejected with E0271/E0277, twins compile); 17-tuples are not clauses.',
   note='Arity 1: `(T,)` has no Clause impl (recorded as a fact by witness c14_tuple1_fact); the property\'s arity 1 is read as the bare clause. Trusted: rustc, exporter, rule engine.', engine='FACTS+TYWIT'),

 'C17': dict(cat='other', tech='variant-map decision tables over MIR of every container conversion + traversal-class analysis of Vec kinds + slot provenance of tuple kinds',
   text='Decides R17.1-R17.4 for every IntoReturnOnce / IntoReturn / GetOutput impl under src/output: variant k of the configured value maps to variant k of the produced value (Some/None, Ok/Err, Ready/Pending) with the payload converted from that arm\'s own payload, or the whole value fails (exhausted single-use leaf, or &mut kinds that cannot lend); Vec kinds traverse forward producing one element per stored element; tuple slot i is converted from slot i; lent leaves borrow the box stored in the mock, static leaves are the stored reference, owned leaves are the stored closure\'s result. Each variant and each impl is a separate obligation; the suite covers a handful.',
   note='Not decided: the macro\'s choice of output kind from the return type syntax is compiler-checked (Output<\'u> must equal the declared return type) and exercised by the C05 grammar, not re-derived here; values are not compared at run time. Trusted: rustc, exporter, rule engine, std contracts (Option::map/as_ref variant-preserving, collect order-preserving).'),
 'C18': dict(cat='other', tech='statics census (type-level) + provenance of constructor/clone fields + field-use census on the call path + slot-cursor who-may-write',
   text='Decides R18.1-R18.4: neither crate has mutable, interior-mutable or thread-local statics; a new mock is built around a fresh Arc<SharedState> (counter 0, empty error list, own fn table) and clone shares exactly that Arc; the mocked-call path reads no per-instance field of Unimock, only shared_state, so routing a call through the original or any clone is indistinguishable; the slot cursor is touched only by ordered patterns, per-method lists are separate map entries under TypeId::of::<F>() and registration never looks at other entries.',
   note='Not decided: no pair of runs is executed (the metamorphic statement follows from the absence of any other state or order dependence). The generic-instantiation clause (distinct TypeIds for distinct type arguments) additionally relies on the generated MockFn types carrying all type parameters, validated in the C05 grammar (R18.5). Trusted: rustc, exporter, rule engine.'),
}

checks = []
for p in props:
    c = CLAIMS.get(p['id'])
    if not c or not os.path.exists(os.path.join(VERIF, 'engines', 'rules', 'props', p['id'].lower() + '.py')):
        continue
    checks.append({
        'property_id': p['id'],
        'quick_cmd': './check %s --tier quick' % p['id'],
        'thorough_cmd': './check %s --tier thorough' % p['id'],
        'evidence_file': 'evidence/%s.json' % p['id'],
        'replay_cmd_template': './check %s --explain {path}' % p['id'],
        'engine': c.get('engine', 'FACTS'),
        'level_claimed': {'category': c['cat'], 'text': c['text'], 'design_ref': 'DESIGN.md section 4, %s' % p['id']},
        'level_note': c['note'],
        'technique': c['tech'],
    })
claimed = {c['property_id'] for c in checks}
NA = {}
m = {
 'version': 1,
 'setup_cmd': './setup.sh',
 'hooks': {'guard': 'unimock_verif', 'enable': 'none needed: static analysis reads /repo through the compiler; no instrumentation commits',
           'baseline_off_cmd': 'cd /repo && cargo test --workspace --no-fail-fast --offline', 'source_commits': [], 'add_only': True},
 'engines': [
   {'name': 'TYWIT', 'path': 'engines/tywit + engines/rules/tywit.py', 'serves_properties': ['C12', 'C14'], 'kind_free_text': 'compile-fail witnesses with compiling twins, compiled with rustc --emit=metadata against the rlib built from /repo\'s current tree; never executed'},
   {'name': 'FACTS', 'path': 'engines/mirfacts + engines/rules', 'serves_properties': sorted(c['property_id'] for c in checks if 'FACTS' in c['engine']),
    'kind_free_text': 'rustc_private driver exporting MIR/type facts of /repo per feature configuration; python rules: path-sensitive abstract interpretation, decision tables, dominance, who-may-call, provenance'},
 ],
 'checks': checks,
 'notes': 'Static analysis only (see DESIGN.md). Every check re-extracts facts from /repo\'s current working tree (cache keyed by a hash of the tree).',
 'not_applicable': [{'property_id': p['id'], 'reason': NA.get(p['id'], 'check not built yet (build in progress); planned static rule in DESIGN.md section 4')} for p in props if p['id'] not in claimed],
}
json.dump(m, open(os.path.join(VERIF, 'MANIFEST.json'), 'w'), indent=1)
print('claimed:', sorted(claimed))
