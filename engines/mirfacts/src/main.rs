//! mirfacts: a rustc_private driver that exports the type-checked program (MIR bodies with
//! resolved callees, ADTs, impls, statics, lint levels) of the crate being compiled as one
//! JSON file. Used as RUSTC_WORKSPACE_WRAPPER under `cargo +nightly check`.
//!
//! Environment:
//!   VERIF_FACTS_DIR  directory to write <crate>.json into (required to export)
//!   VERIF_NONCE      copied into the file (freshness check by the caller)
//!   VERIF_CONFIG     copied into the file (feature-configuration name)
#![feature(rustc_private)]
#![allow(clippy::all)]

extern crate rustc_abi;
extern crate rustc_data_structures;
extern crate rustc_driver;
extern crate rustc_hir;
extern crate rustc_interface;
extern crate rustc_lint;
extern crate rustc_middle;
extern crate rustc_session;
extern crate rustc_span;

mod json;
use json::J;

use rustc_driver::{Callbacks, Compilation};
use rustc_hir::def::DefKind;
use rustc_hir::def_id::{DefId, LocalDefId, LOCAL_CRATE};
use rustc_interface::interface::Compiler;
use rustc_middle::mir::{self, *};
use rustc_middle::ty::print::with_no_trimmed_paths;
use rustc_middle::ty::{self, Instance, InstanceKind, Ty, TyCtxt, TypingEnv};
use rustc_span::Span;
use std::collections::{BTreeMap, BTreeSet};

struct Exporter;

impl Callbacks for Exporter {
    fn after_analysis<'tcx>(&mut self, _c: &Compiler, tcx: TyCtxt<'tcx>) -> Compilation {
        if let Ok(dir) = std::env::var("VERIF_FACTS_DIR") {
            let krate = tcx.crate_name(LOCAL_CRATE).to_string();
            let only = std::env::var("VERIF_CRATES").unwrap_or_default();
            if only.is_empty() || only.split(',').any(|c| c == krate) {
                let mut cx = Cx { tcx, imut_direct: false, adts: BTreeMap::new(), adt_queue: Vec::new() };
                let j = cx.export_crate();
                let mut out = String::new();
                j.write(&mut out);
                let kind = if tcx.sess.opts.test { "test" } else { "lib" };
                let path = format!("{}/{}.{}.json", dir, krate, kind);
                std::fs::write(&path, out).expect("write facts");
            }
        }
        Compilation::Continue
    }
}

struct Cx<'tcx> {
    tcx: TyCtxt<'tcx>,
    imut_direct: bool,
    adts: BTreeMap<String, J>,
    adt_queue: Vec<DefId>,
}

fn ty_s<'tcx>(ty: Ty<'tcx>) -> String {
    with_no_trimmed_paths!(format!("{}", ty))
}

impl<'tcx> Cx<'tcx> {
    fn dp(&self, d: DefId) -> String {
        with_no_trimmed_paths!(self.tcx.def_path_str(d))
    }

    fn uid(&self, d: DefId) -> String {
        format!("{}:{}", self.tcx.crate_name(d.krate), self.tcx.def_path(d).to_string_no_crate_verbose())
    }

    fn span_j(&self, sp: Span) -> J {
        let sm = self.tcx.sess.source_map();
        let lo = sm.lookup_char_pos(sp.lo());
        let file = format!("{}", lo.file.name.prefer_local_unconditionally());
        J::obj().f("file", J::s(file)).f("line", J::Int(lo.line as i128)).done()
    }

    fn line(&self, sp: Span) -> J {
        let sm = self.tcx.sess.source_map();
        J::Int(sm.lookup_char_pos(sp.lo()).line as i128)
    }

    fn macros(&self, sp: Span) -> J {
        let mut v = Vec::new();
        for e in sp.macro_backtrace() {
            v.push(J::s(format!("{}", e.kind.descr())));
            if v.len() > 6 {
                break;
            }
        }
        J::Arr(v)
    }

    fn export_crate(&mut self) -> J {
        let tcx = self.tcx;
        let mut fns = Vec::new();
        for ldid in tcx.hir_body_owners() {
            let kind = tcx.def_kind(ldid);
            match kind {
                DefKind::Fn | DefKind::AssocFn | DefKind::Closure => {
                    if tcx.is_constructor(ldid.to_def_id()) {
                        continue;
                    }
                    // coroutine bodies (async blocks) are closures with coroutine kind
                    fns.push(self.export_fn(ldid, kind));
                }
                _ => {}
            }
        }
        // local ADTs
        for id in tcx.hir_free_items() {
            let did = id.owner_id.to_def_id();
            match tcx.def_kind(did) {
                DefKind::Struct | DefKind::Enum | DefKind::Union => {
                    self.want_adt(did);
                }
                _ => {}
            }
        }
        let impls = self.export_impls();
        let statics = self.export_statics();
        while let Some(d) = self.adt_queue.pop() {
            self.export_adt(d);
        }
        let adts = J::Obj(std::mem::take(&mut self.adts).into_iter().collect());

        let (lvl, _) = {
            let store = rustc_lint::unerased_lint_store(tcx.sess);
            let ids = store.find_lints("unsafe_code").expect("unsafe_code lint");
            let l = tcx.lint_level_at_node(ids[0].lint, rustc_hir::CRATE_HIR_ID);
            (format!("{:?}", l.level), 0)
        };
        let features: Vec<J> = tcx
            .sess
            .config
            .iter()
            .map(|(k, v)| J::s(match v { Some(v) => format!("{}={}", k, v), None => k.to_string() }))
            .collect();

        J::obj()
            .f("nonce", J::s(std::env::var("VERIF_NONCE").unwrap_or_default()))
            .f("config", J::s(std::env::var("VERIF_CONFIG").unwrap_or_default()))
            .f("crate", J::s(tcx.crate_name(LOCAL_CRATE).to_string()))
            .f("is_test", J::Bool(tcx.sess.opts.test))
            .f("cfg", J::Arr(features))
            .f("unsafe_code_lint", J::s(lvl))
            .f("fns", J::Arr(fns))
            .f("adts", adts)
            .f("impls", impls)
            .f("statics", statics)
            .done()
    }

    fn want_adt(&mut self, d: DefId) {
        let p = self.dp(d);
        if !self.adts.contains_key(&p) {
            self.adts.insert(p, J::Null);
            self.adt_queue.push(d);
        }
    }

    fn export_adt(&mut self, d: DefId) {
        let tcx = self.tcx;
        let adt = tcx.adt_def(d);
        let p = self.dp(d);
        let local = d.is_local();
        let mut variants = Vec::new();
        for (vidx, v) in adt.variants().iter_enumerated() {
            let discr = if adt.is_enum() {
                J::UInt(adt.discriminant_for_variant(tcx, vidx).val)
            } else {
                J::Int(0)
            };
            let mut fields = Vec::new();
            for f in v.fields.iter() {
                let fty = tcx.type_of(f.did).instantiate_identity().skip_norm_wip();
                let mut fo = J::obj().f("name", J::s(f.name.to_string())).f("ty", J::s(ty_s(fty)));
                if local {
                    let mut leaves = BTreeSet::new();
                    let mut seen = BTreeSet::new();
                    self.imut_walk(fty, &mut leaves, &mut seen, 0);
                    fo = fo.f("imut", J::Arr(leaves.into_iter().map(J::s).collect()));
                    let mut dl = BTreeSet::new();
                    let mut seen2 = BTreeSet::new();
                    self.imut_direct = true;
                    // depth starts at 1 so that a field whose type *is* a local ADT is reported as a link
                    self.imut_walk(fty, &mut dl, &mut seen2, 1);
                    self.imut_direct = false;
                    fo = fo.f("imut_direct", J::Arr(dl.into_iter().map(J::s).collect()));
                    fo = fo.f("vis", J::s(format!("{:?}", f.vis)));
                }
                fields.push(fo.done());
            }
            variants.push(
                J::obj()
                    .f("name", J::s(v.name.to_string()))
                    .f("discr", discr)
                    .f("fields", J::Arr(fields))
                    .done(),
            );
        }
        let kind = if adt.is_enum() {
            "enum"
        } else if adt.is_union() {
            "union"
        } else {
            "struct"
        };
        let mut o = J::obj()
            .f("kind", J::s(kind))
            .f("local", J::Bool(local))
            .f("crate", J::s(tcx.crate_name(d.krate).to_string()))
            .f("variants", J::Arr(variants));
        if local {
            o = o.f("span", self.span_j(tcx.def_span(d)));
            o = o.f("non_exhaustive", J::Bool(adt.is_variant_list_non_exhaustive()));
        }
        self.adts.insert(p, o.done());
    }

    /// Interior-mutability census of a type: walks the complete field tree (local and extern ADTs,
    /// through pointers) and collects, for every reachable `UnsafeCell`, the outermost extern ADT
    /// that contains it (e.g. `std::sync::Mutex`, `core::sync::atomic::Atomic`); `dyn`, type
    /// parameters, aliases and closures are reported as opaque leaves.
    fn imut_walk(&mut self, ty: Ty<'tcx>, leaves: &mut BTreeSet<String>, seen: &mut BTreeSet<String>, depth: usize) {
        self.imut_walk2(ty, None, leaves, seen, depth)
    }

    fn imut_walk2(
        &mut self,
        ty: Ty<'tcx>,
        outer: Option<String>,
        leaves: &mut BTreeSet<String>,
        seen: &mut BTreeSet<String>,
        depth: usize,
    ) {
        let tcx = self.tcx;
        if depth > 40 {
            leaves.insert(format!("depth-limit:{}", ty_s(ty)));
            return;
        }
        let key = format!("{}|{}", ty_s(ty), outer.clone().unwrap_or_default());
        if !seen.insert(key) {
            return;
        }
        match ty.kind() {
            ty::Adt(def, args) => {
                let did = def.did();
                if def.is_unsafe_cell() {
                    leaves.insert(outer.unwrap_or_else(|| "core::cell::UnsafeCell".to_string()));
                    return;
                }
                if did.is_local() && self.imut_direct && depth > 0 {
                    leaves.insert(format!("local:{}", self.dp(did)));
                    return;
                }
                let next_outer = if did.is_local() {
                    None
                } else if outer.is_some() {
                    outer.clone()
                } else {
                    // plain owning containers are transparent: the leaf is named after the first
                    // extern ADT inside them that is not a container
                    let mut p = self.dp(did).replace("alloc::alloc::", "std::");
                    if tcx.crate_name(did.krate).as_str() == "alloc" && !p.starts_with("std::") && !p.starts_with("alloc::") {
                        // the alloc crate linked under another name (`extern crate alloc as x`): named as std builds name it
                        if let Some(i) = p.find("::") {
                            p = format!("std{}", &p[i..]);
                        }
                    }
                    let transparent = p == "std::boxed::Box"
                        || p == "std::vec::Vec"
                        || p == "core::option::Option"
                        || p == "core::result::Result"
                        || p == "core::marker::PhantomData"
                        || p.starts_with("alloc::raw_vec::")
                        || p.starts_with("core::ptr::")
                        || p.starts_with("core::mem::")
                        || p.starts_with("std::collections::")
                        || p.starts_with("alloc::collections::");
                    if transparent { None } else { Some(p) }
                };
                for v in def.variants().iter() {
                    for f in v.fields.iter() {
                        let fty = f.ty(tcx, args);
                        self.imut_walk2(fty, next_outer.clone(), leaves, seen, depth + 1);
                    }
                }
                // type-erased containers (Vec's RawVecInner, PhantomData<T>) own their type
                // arguments without a field of that type: walk the arguments as well
                for a in args.iter() {
                    if let Some(t) = a.as_type() {
                        self.imut_walk2(t, next_outer.clone(), leaves, seen, depth + 1);
                    }
                }
            }
            ty::Ref(_, t, _) | ty::RawPtr(t, _) | ty::Slice(t) | ty::Array(t, _) | ty::Pat(t, _) => {
                self.imut_walk2(*t, outer, leaves, seen, depth + 1)
            }
            ty::Tuple(ts) => {
                for t in ts.iter() {
                    self.imut_walk2(t, outer.clone(), leaves, seen, depth + 1)
                }
            }
            ty::Dynamic(..) => {
                leaves.insert(format!("dyn:{}", ty_s(ty)));
            }
            ty::Param(_) => {
                leaves.insert(format!("param:{}", ty_s(ty)));
            }
            ty::Alias(..) => {
                leaves.insert(format!("alias:{}", ty_s(ty)));
            }
            ty::Closure(..) | ty::Coroutine(..) | ty::CoroutineClosure(..) => {
                leaves.insert(format!("closure:{}", ty_s(ty)));
            }
            _ => {}
        }
    }

    fn export_impls(&mut self) -> J {
        let tcx = self.tcx;
        let mut out = Vec::new();
        for id in tcx.hir_free_items() {
            let did = id.owner_id.to_def_id();
            if let DefKind::Impl { of_trait } = tcx.def_kind(did) {
                let self_ty = tcx.type_of(did).instantiate_identity().skip_norm_wip();
                let mut o = J::obj().f("def", J::s(self.dp(did))).f("self_ty", J::s(ty_s(self_ty)));
                if let ty::Adt(a, _) = self_ty.kind() {
                    o = o.f("self_adt", J::s(self.dp(a.did())));
                }
                let mut provided = Vec::new();
                let mut required = Vec::new();
                if of_trait {
                    let tr = tcx.impl_trait_ref(did).instantiate_identity().skip_norm_wip();
                    o = o
                        .f("trait", J::s(self.dp(tr.def_id)))
                        .f("trait_ref", J::s(with_no_trimmed_paths!(format!("{}", tr))))
                        .f("trait_crate", J::s(tcx.crate_name(tr.def_id.krate).to_string()))
                        .f("trait_local", J::Bool(tr.def_id.is_local()))
                        .f("trait_unsafe", J::Bool(tcx.trait_def(tr.def_id).safety.is_unsafe()))
                        .f("trait_auto", J::Bool(tcx.trait_is_auto(tr.def_id)));
                    for it in tcx.associated_items(tr.def_id).in_definition_order() {
                        if it.is_fn() && it.opt_name().is_some() {
                            if it.defaultness(tcx).has_value() {
                                provided.push(J::s(it.name().to_string()));
                            } else {
                                required.push(J::s(it.name().to_string()));
                            }
                        }
                    }
                    o = o.f("polarity", J::s(format!("{:?}", tcx.impl_polarity(did))));
                } else {
                    o = o.f("trait", J::Null);
                }
                let preds = tcx.predicates_of(did);
                let mut ps = Vec::new();
                for (p, _) in preds.predicates.iter() {
                    ps.push(J::s(with_no_trimmed_paths!(format!("{}", p))));
                }
                let mut items = Vec::new();
                for it in tcx.associated_items(did).in_definition_order() {
                    if it.opt_name().is_none() {
                        continue;
                    }
                    items.push(
                        J::obj()
                            .f("name", J::s(it.name().to_string()))
                            .f("def", J::s(self.dp(it.def_id)))
                            .f("uid", J::s(self.uid(it.def_id)))
                            .f("is_fn", J::Bool(it.is_fn()))
                            .done(),
                    );
                }
                out.push(
                    o.f("predicates", J::Arr(ps))
                        .f("items", J::Arr(items))
                        .f("trait_provided", J::Arr(provided))
                        .f("trait_required", J::Arr(required))
                        .f("span", self.span_j(tcx.def_span(did)))
                        .f("macros", self.macros(tcx.def_span(did)))
                        .done(),
                );
            }
        }
        J::Arr(out)
    }

    fn export_statics(&mut self) -> J {
        let tcx = self.tcx;
        let mut out = Vec::new();
        for ldid in tcx.hir_body_owners() {
            let did = ldid.to_def_id();
            if let DefKind::Static { mutability, nested, .. } = tcx.def_kind(did) {
                let ty = tcx.type_of(did).instantiate_identity().skip_norm_wip();
                let env = TypingEnv::non_body_analysis(tcx, did);
                let mut leaves = BTreeSet::new();
                let mut seen = BTreeSet::new();
                self.imut_walk(ty, &mut leaves, &mut seen, 0);
                out.push(
                    J::obj()
                        .f("def", J::s(self.dp(did)))
                        .f("ty", J::s(ty_s(ty)))
                        .f("mut", J::Bool(mutability.is_mut()))
                        .f("nested", J::Bool(nested))
                        .f("freeze", J::Bool(ty.is_freeze(tcx, env)))
                        .f("imut", J::Arr(leaves.into_iter().map(J::s).collect()))
                        .f("thread_local", J::Bool(tcx.is_thread_local_static(did)))
                        .f("span", self.span_j(tcx.def_span(did)))
                        .done(),
                );
            }
        }
        J::Arr(out)
    }

    fn export_fn(&mut self, ldid: LocalDefId, kind: DefKind) -> J {
        let tcx = self.tcx;
        let did = ldid.to_def_id();
        let mut o = J::obj().f("def", J::s(self.dp(did))).f("uid", J::s(self.uid(did)));
        let name = tcx.opt_item_name(did).map(|s| s.to_string()).unwrap_or_else(|| "{closure}".into());
        o = o.f("name", J::s(name));
        let kind_s = match kind {
            DefKind::Fn => "fn",
            DefKind::AssocFn => "assoc",
            DefKind::Closure => {
                if tcx.is_coroutine(did) {
                    "coroutine"
                } else {
                    "closure"
                }
            }
            _ => "other",
        };
        o = o.f("kind", J::s(kind_s));
        if kind == DefKind::Closure {
            let parent = tcx.typeck_root_def_id(did);
            o = o.f("root", J::s(self.dp(parent))).f("root_uid", J::s(self.uid(parent)));
            o = o.f("parent", J::s(self.dp(tcx.parent(did)))).f("parent_uid", J::s(self.uid(tcx.parent(did))));
            let names: Vec<J> = tcx
                .closure_saved_names_of_captured_variables(did)
                .iter()
                .map(|s| J::s(s.to_string()))
                .collect();
            o = o.f("upvars", J::Arr(names));
        }
        if kind == DefKind::AssocFn {
            let parent = tcx.parent(did);
            match tcx.def_kind(parent) {
                DefKind::Impl { of_trait } => {
                    let self_ty = tcx.type_of(parent).instantiate_identity().skip_norm_wip();
                    let mut io = J::obj().f("self_ty", J::s(ty_s(self_ty))).f("impl_def", J::s(self.dp(parent)));
                    if let ty::Adt(a, _) = self_ty.kind() {
                        io = io.f("self_adt", J::s(self.dp(a.did()))).f("self_adt_uid", J::s(self.uid(a.did())));
                    }
                    if of_trait {
                        let tr = tcx.impl_trait_ref(parent).instantiate_identity().skip_norm_wip();
                        io = io
                            .f("trait", J::s(self.dp(tr.def_id)))
                            .f("trait_ref", J::s(with_no_trimmed_paths!(format!("{}", tr))))
                            .f("trait_crate", J::s(tcx.crate_name(tr.def_id.krate).to_string()));
                    }
                    o = o.f("impl_of", io.done());
                }
                DefKind::Trait => {
                    o = o.f("trait_default_of", J::s(self.dp(parent)));
                }
                _ => {}
            }
        }
        if matches!(kind, DefKind::Fn | DefKind::AssocFn) {
            o = o.f("vis", J::s(format!("{:?}", tcx.visibility(did))));
            let attrs = tcx.codegen_fn_attrs(did);
            o = o.f(
                "track_caller",
                J::Bool(attrs.flags.contains(rustc_middle::middle::codegen_fn_attrs::CodegenFnAttrFlags::TRACK_CALLER)),
            );
            let preds = tcx.predicates_of(did);
            let mut ps = Vec::new();
            for (p, _) in preds.predicates.iter() {
                ps.push(J::s(with_no_trimmed_paths!(format!("{}", p))));
            }
            o = o.f("predicates", J::Arr(ps));
            let sig = tcx.fn_sig(did).instantiate_identity().skip_norm_wip();
            o = o.f("sig", J::s(with_no_trimmed_paths!(format!("{}", sig))));
        }
        let generics = tcx.generics_of(did);
        let mut gs = Vec::new();
        for i in 0..generics.count() {
            let p = generics.param_at(i, tcx);
            gs.push(J::s(p.name.to_string()));
        }
        o = o.f("generics", J::Arr(gs));
        o = o.f("span", self.span_j(tcx.def_span(did)));
        o = o.f("macros", self.macros(tcx.def_span(did)));

        let body: &Body<'tcx> = tcx.optimized_mir(did);
        o = o.f("body", self.export_body(body, did));
        let promoted = tcx.promoted_mir(did);
        let mut pv = Vec::new();
        for pb in promoted.iter() {
            pv.push(self.export_body(pb, did));
        }
        o = o.f("promoted", J::Arr(pv));
        o.done()
    }

    fn export_body(&mut self, body: &Body<'tcx>, owner: DefId) -> J {
        let mut locals = Vec::new();
        let mut names: BTreeMap<usize, String> = BTreeMap::new();
        for vdi in body.var_debug_info.iter() {
            if let VarDebugInfoContents::Place(p) = &vdi.value {
                if p.projection.is_empty() {
                    names.entry(p.local.as_usize()).or_insert(vdi.name.to_string());
                }
            }
        }
        for (i, l) in body.local_decls.iter_enumerated() {
            let mut lo = J::obj().f("ty", J::s(ty_s(l.ty)));
            if let Some(n) = names.get(&i.as_usize()) {
                lo = lo.f("name", J::s(n.clone()));
            }
            if let ty::Adt(a, _) = l.ty.peel_refs().kind() {
                lo = lo.f("adt", J::s(self.dp(a.did())));
            }
            locals.push(lo.done());
        }
        let mut blocks = Vec::new();
        for (_bb, data) in body.basic_blocks.iter_enumerated() {
            let mut stmts = Vec::new();
            for st in data.statements.iter() {
                match &st.kind {
                    StatementKind::Assign(b) => {
                        let (p, rv) = &**b;
                        stmts.push(
                            J::obj()
                                .f("k", J::s("assign"))
                                .f("p", self.place(body, p))
                                .f("rv", self.rvalue(body, owner, rv))
                                .f("line", self.line(st.source_info.span))
                                .f("exp", J::Bool(st.source_info.span.from_expansion()))
                                .done(),
                        );
                    }
                    StatementKind::SetDiscriminant { place, variant_index } => {
                        let pty = place.ty(body, self.tcx).ty;
                        let vname = match pty.kind() {
                            ty::Adt(a, _) => a.variant(*variant_index).name.to_string(),
                            _ => format!("{}", variant_index.as_usize()),
                        };
                        stmts.push(
                            J::obj()
                                .f("k", J::s("setdiscr"))
                                .f("p", self.place(body, place))
                                .f("variant", J::s(vname))
                                .done(),
                        );
                    }
                    StatementKind::Intrinsic(i) => {
                        stmts.push(J::obj().f("k", J::s("intrinsic")).f("repr", J::s(format!("{:?}", i))).done());
                    }
                    _ => {}
                }
            }
            let term = data.terminator();
            blocks.push(
                J::obj()
                    .f("cleanup", J::Bool(data.is_cleanup))
                    .f("stmts", J::Arr(stmts))
                    .f("term", self.terminator(body, owner, term))
                    .done(),
            );
        }
        J::obj()
            .f("arg_count", J::Int(body.arg_count as i128))
            .f("locals", J::Arr(locals))
            .f("blocks", J::Arr(blocks))
            .done()
    }

    fn unwind(&self, u: &UnwindAction) -> J {
        match u {
            UnwindAction::Continue => J::s("continue"),
            UnwindAction::Unreachable => J::s("unreachable"),
            UnwindAction::Terminate(_) => J::s("terminate"),
            UnwindAction::Cleanup(bb) => J::Int(bb.as_usize() as i128),
        }
    }

    fn terminator(&mut self, body: &Body<'tcx>, owner: DefId, t: &Terminator<'tcx>) -> J {
        let tcx = self.tcx;
        let line = self.line(t.source_info.span);
        match &t.kind {
            TerminatorKind::Goto { target } => {
                J::obj().f("k", J::s("goto")).f("target", J::Int(target.as_usize() as i128)).done()
            }
            TerminatorKind::SwitchInt { discr, targets } => {
                let mut ts = Vec::new();
                for (v, bb) in targets.iter() {
                    ts.push(J::Arr(vec![J::UInt(v), J::Int(bb.as_usize() as i128)]));
                }
                J::obj()
                    .f("k", J::s("switch"))
                    .f("on", self.operand(body, owner, discr))
                    .f("on_ty", J::s(ty_s(discr.ty(body, tcx))))
                    .f("targets", J::Arr(ts))
                    .f("otherwise", J::Int(targets.otherwise().as_usize() as i128))
                    .f("line", line)
                    .done()
            }
            TerminatorKind::UnwindResume => J::obj().f("k", J::s("resume")).done(),
            TerminatorKind::UnwindTerminate(_) => J::obj().f("k", J::s("terminate")).done(),
            TerminatorKind::Return => J::obj().f("k", J::s("return")).f("line", line).done(),
            TerminatorKind::Unreachable => J::obj().f("k", J::s("unreachable")).done(),
            TerminatorKind::Drop { place, target, unwind, .. } => J::obj()
                .f("k", J::s("drop"))
                .f("p", self.place(body, place))
                .f("ty", J::s(ty_s(place.ty(body, tcx).ty)))
                .f("target", J::Int(target.as_usize() as i128))
                .f("unwind", self.unwind(unwind))
                .f("line", line)
                .done(),
            TerminatorKind::Call { func, args, destination, target, unwind, fn_span, .. } => {
                let mut o = J::obj().f("k", J::s("call"));
                o = o.f("func", self.operand(body, owner, func));
                o = o.f("callee", self.callee(body, owner, func));
                let mut av = Vec::new();
                for a in args.iter() {
                    av.push(self.operand(body, owner, &a.node));
                }
                o = o.f("args", J::Arr(av));
                o = o.f("dest", self.place(body, destination));
                o = o.f(
                    "target",
                    match target {
                        Some(bb) => J::Int(bb.as_usize() as i128),
                        None => J::Null,
                    },
                );
                o = o.f("unwind", self.unwind(unwind));
                o = o.f("line", self.line(*fn_span));
                o = o.f("exp", J::Bool(t.source_info.span.from_expansion()));
                o = o.f("macros", self.macros(t.source_info.span));
                o.done()
            }
            TerminatorKind::TailCall { func, args, .. } => {
                let mut av = Vec::new();
                for a in args.iter() {
                    av.push(self.operand(body, owner, &a.node));
                }
                J::obj()
                    .f("k", J::s("tailcall"))
                    .f("func", self.operand(body, owner, func))
                    .f("callee", self.callee(body, owner, func))
                    .f("args", J::Arr(av))
                    .done()
            }
            TerminatorKind::Assert { cond, expected, msg, target, unwind } => {
                let kind = match &**msg {
                    AssertKind::BoundsCheck { .. } => "bounds",
                    AssertKind::Overflow(..) => "overflow",
                    AssertKind::OverflowNeg(..) => "overflow_neg",
                    AssertKind::DivisionByZero(..) => "div_zero",
                    AssertKind::RemainderByZero(..) => "rem_zero",
                    AssertKind::MisalignedPointerDereference { .. } => "misaligned",
                    AssertKind::NullPointerDereference => "null_deref",
                    AssertKind::InvalidEnumConstruction(..) => "invalid_enum",
                    _ => "other",
                };
                J::obj()
                    .f("k", J::s("assert"))
                    .f("cond", self.operand(body, owner, cond))
                    .f("expected", J::Bool(*expected))
                    .f("msg", J::s(kind))
                    .f("target", J::Int(target.as_usize() as i128))
                    .f("unwind", self.unwind(unwind))
                    .f("line", line)
                    .done()
            }
            TerminatorKind::Yield { value, resume, drop, .. } => J::obj()
                .f("k", J::s("yield"))
                .f("value", self.operand(body, owner, value))
                .f("resume", J::Int(resume.as_usize() as i128))
                .f(
                    "drop",
                    match drop {
                        Some(b) => J::Int(b.as_usize() as i128),
                        None => J::Null,
                    },
                )
                .done(),
            TerminatorKind::CoroutineDrop => J::obj().f("k", J::s("coroutine_drop")).done(),
            TerminatorKind::FalseEdge { real_target, .. } => {
                J::obj().f("k", J::s("goto")).f("target", J::Int(real_target.as_usize() as i128)).done()
            }
            TerminatorKind::FalseUnwind { real_target, .. } => {
                J::obj().f("k", J::s("goto")).f("target", J::Int(real_target.as_usize() as i128)).done()
            }
            TerminatorKind::InlineAsm { .. } => J::obj().f("k", J::s("asm")).done(),
        }
    }

    fn callee(&mut self, body: &Body<'tcx>, owner: DefId, func: &Operand<'tcx>) -> J {
        let tcx = self.tcx;
        let fty = func.ty(body, tcx);
        match fty.kind() {
            ty::FnDef(def_id, args) => {
                let mut o = J::obj()
                    .f("def", J::s(self.dp(*def_id)))
                    .f("uid", J::s(self.uid(*def_id)))
                    .f("name", J::s(tcx.opt_item_name(*def_id).map(|s| s.to_string()).unwrap_or_default()))
                    .f("crate", J::s(tcx.crate_name(def_id.krate).to_string()))
                    .f("local", J::Bool(def_id.is_local()));
                let mut av = Vec::new();
                let mut au = Vec::new();
                for a in args.iter() {
                    av.push(J::s(with_no_trimmed_paths!(format!("{}", a))));
                    au.push(match a.as_type().map(|t| t.kind()) {
                        Some(ty::Adt(ad, _)) => J::s(self.uid(ad.did())),
                        _ => J::Null,
                    });
                }
                o = o.f("args", J::Arr(av)).f("args_uid", J::Arr(au));
                // trait method?
                if let Some(assoc) = tcx.opt_associated_item(*def_id) {
                    if let Some(tr) = assoc.trait_container(tcx) {
                        o = o.f("trait", J::s(self.dp(tr)));
                        if let Some(self_ty) = args.types().next() {
                            o = o.f("self_ty", J::s(ty_s(self_ty)));
                        }
                    } else if let Some(im) = assoc.impl_container(tcx) {
                        let st = tcx.type_of(im).instantiate_identity().skip_norm_wip();
                        o = o.f("impl_self_ty", J::s(ty_s(st)));
                        if let ty::Adt(a, _) = st.kind() {
                            o = o.f("impl_self_adt", J::s(self.dp(a.did())));
                        }
                    }
                }
                let env = TypingEnv::post_analysis(tcx, owner);
                let resolved = match tcx.def_kind(*def_id) {
                    DefKind::Fn | DefKind::AssocFn | DefKind::Ctor(..) | DefKind::Closure => {
                        match Instance::try_resolve(tcx, env, *def_id, args) {
                            Ok(Some(inst)) => {
                                let rid = inst.def_id();
                                let k = match inst.def {
                                    InstanceKind::Item(_) => "item",
                                    InstanceKind::Intrinsic(_) => "intrinsic",
                                    InstanceKind::Virtual(..) => "virtual",
                                    InstanceKind::ClosureOnceShim { .. } => "closure_once_shim",
                                    InstanceKind::FnPtrShim(..) => "fn_ptr_shim",
                                    InstanceKind::CloneShim(..) => "clone_shim",
                                    InstanceKind::DropGlue(..) => "drop_glue",
                                    InstanceKind::ReifyShim(..) => "reify_shim",
                                    InstanceKind::VTableShim(..) => "vtable_shim",
                                    _ => "other",
                                };
                                let mut ro = J::obj()
                                    .f("def", J::s(self.dp(rid)))
                                    .f("uid", J::s(self.uid(rid)))
                                    .f("kind", J::s(k))
                                    .f("crate", J::s(tcx.crate_name(rid.krate).to_string()))
                                    .f("local", J::Bool(rid.is_local()));
                                if let Some(assoc) = tcx.opt_associated_item(rid) {
                                    if let Some(im) = assoc.impl_container(tcx) {
                                        let st = tcx.type_of(im).instantiate_identity().skip_norm_wip();
                                        ro = ro.f("impl_self_ty", J::s(ty_s(st)));
                                        ro = ro.f("impl_def", J::s(self.dp(im)));
                                    } else if let Some(tr) = assoc.trait_container(tcx) {
                                        ro = ro.f("trait_default", J::s(self.dp(tr)));
                                    }
                                }
                                ro.done()
                            }
                            _ => J::Null,
                        }
                    }
                    _ => J::Null,
                };
                o = o.f("resolved", resolved);
                o.done()
            }
            _ => J::obj().f("indirect", J::s(ty_s(fty))).done(),
        }
    }

    fn place(&mut self, body: &Body<'tcx>, p: &Place<'tcx>) -> J {
        let tcx = self.tcx;
        let mut pr = Vec::new();
        let mut cur = mir::PlaceTy::from_ty(body.local_decls[p.local].ty);
        for elem in p.projection.iter() {
            match elem {
                ProjectionElem::Deref => pr.push(J::s("deref")),
                ProjectionElem::Field(f, fty) => {
                    let mut fo = J::obj().f("f", J::Int(f.as_usize() as i128));
                    match cur.ty.kind() {
                        ty::Adt(a, _) => {
                            let vidx = cur.variant_index.unwrap_or(rustc_abi::FIRST_VARIANT);
                            let v = a.variant(vidx);
                            fo = fo
                                .f("name", J::s(v.fields[f].name.to_string()))
                                .f("adt", J::s(self.dp(a.did())))
                                .f("variant", J::s(v.name.to_string()));
                            self.want_adt(a.did());
                        }
                        ty::Closure(cdid, _) | ty::Coroutine(cdid, _) => {
                            let names = tcx.closure_saved_names_of_captured_variables(*cdid);
                            if let Some(n) = names.get(f) {
                                fo = fo.f("name", J::s(n.to_string())).f("upvar", J::Bool(true));
                            }
                        }
                        ty::Tuple(_) => {
                            fo = fo.f("tuple", J::Bool(true));
                        }
                        _ => {}
                    }
                    fo = fo.f("ty", J::s(ty_s(fty)));
                    pr.push(fo.done());
                }
                ProjectionElem::Index(l) => pr.push(J::obj().f("index", J::Int(l.as_usize() as i128)).done()),
                ProjectionElem::ConstantIndex { offset, from_end, .. } => pr.push(
                    J::obj().f("cidx", J::UInt(offset as u128)).f("from_end", J::Bool(from_end)).done(),
                ),
                ProjectionElem::Subslice { from, to, from_end } => pr.push(
                    J::obj()
                        .f("subslice", J::Arr(vec![J::UInt(from as u128), J::UInt(to as u128)]))
                        .f("from_end", J::Bool(from_end))
                        .done(),
                ),
                ProjectionElem::Downcast(name, vidx) => {
                    let n = match name {
                        Some(s) => s.to_string(),
                        None => match cur.ty.kind() {
                            ty::Adt(a, _) => a.variant(vidx).name.to_string(),
                            _ => format!("{}", vidx.as_usize()),
                        },
                    };
                    pr.push(J::obj().f("downcast", J::s(n)).done())
                }
                ProjectionElem::OpaqueCast(_) => pr.push(J::s("opaque")),
                ProjectionElem::UnwrapUnsafeBinder(_) => pr.push(J::s("unwrap_binder")),
            }
            cur = cur.projection_ty(tcx, elem);
        }
        J::obj().f("l", J::Int(p.local.as_usize() as i128)).f("pr", J::Arr(pr)).done()
    }

    fn operand(&mut self, body: &Body<'tcx>, owner: DefId, op: &Operand<'tcx>) -> J {
        match op {
            Operand::Copy(p) => J::obj().f("cp", self.place(body, p)).done(),
            Operand::Move(p) => J::obj().f("mv", self.place(body, p)).done(),
            Operand::Constant(c) => J::obj().f("c", self.constant(body, owner, c)).done(),
            #[allow(unreachable_patterns)]
            _ => J::obj().f("c", J::obj().f("repr", J::s(format!("{:?}", op))).done()).done(),
        }
    }

    fn constant(&mut self, _body: &Body<'tcx>, owner: DefId, c: &ConstOperand<'tcx>) -> J {
        let tcx = self.tcx;
        let ty = c.const_.ty();
        let mut o = J::obj().f("ty", J::s(ty_s(ty)));
        match ty.kind() {
            ty::FnDef(d, args) => {
                let mut av = Vec::new();
                for a in args.iter() {
                    av.push(J::s(with_no_trimmed_paths!(format!("{}", a))));
                }
                o = o.f("fn", J::s(self.dp(*d))).f("fn_args", J::Arr(av));
                return o.done();
            }
            _ => {}
        }
        if let Const::Unevaluated(uv, _) = &c.const_ {
            if let Some(p) = uv.promoted {
                o = o.f("promoted", J::Int(p.as_usize() as i128));
                return o.done();
            }
            o = o.f("unevaluated", J::s(self.dp(uv.def)));
        }
        let env = TypingEnv::post_analysis(tcx, owner);
        if ty.is_integral() || ty.is_bool() || ty.is_char() {
            if let Some(si) = c.const_.try_eval_scalar_int(tcx, env) {
                if ty.is_bool() {
                    o = o.f("bool", J::Bool(si.try_to_bool().unwrap_or(false)));
                } else if ty.is_signed() {
                    let sz = si.size();
                    o = o.f("int", J::Int(si.to_int(sz)));
                } else {
                    let sz = si.size();
                    o = o.f("int", J::UInt(si.to_uint(sz)));
                }
                return o.done();
            }
        }
        if let ty::Adt(a, _) = ty.kind() {
            o = o.f("adt", J::s(self.dp(a.did())));
            self.want_adt(a.did());
        }
        o = o.f("repr", J::s(with_no_trimmed_paths!(format!("{}", c.const_))));
        o.done()
    }

    fn rvalue(&mut self, body: &Body<'tcx>, owner: DefId, rv: &Rvalue<'tcx>) -> J {
        let tcx = self.tcx;
        match rv {
            Rvalue::Use(op, ..) => J::obj().f("use", self.operand(body, owner, op)).done(),
            Rvalue::Ref(_, bk, p) => J::obj()
                .f("ref", self.place(body, p))
                .f("mut", J::Bool(matches!(bk, BorrowKind::Mut { .. })))
                .done(),
            Rvalue::RawPtr(k, p) => J::obj()
                .f("rawptr", self.place(body, p))
                .f("mut", J::Bool(matches!(k, RawPtrKind::Mut)))
                .done(),
            Rvalue::CopyForDeref(p) => J::obj().f("use", J::obj().f("cp", self.place(body, p)).done()).done(),
            Rvalue::Cast(k, op, ty) => J::obj()
                .f("cast", J::s(format!("{:?}", k)))
                .f("x", self.operand(body, owner, op))
                .f("ty", J::s(ty_s(*ty)))
                .done(),
            Rvalue::BinaryOp(op, b) => {
                let (l, r) = &**b;
                J::obj()
                    .f("bin", J::s(format!("{:?}", op)))
                    .f("l", self.operand(body, owner, l))
                    .f("r", self.operand(body, owner, r))
                    .done()
            }
            Rvalue::UnaryOp(op, x) => {
                J::obj().f("un", J::s(format!("{:?}", op))).f("x", self.operand(body, owner, x)).done()
            }
            Rvalue::Discriminant(p) => {
                let pty = p.ty(body, tcx).ty;
                let mut o = J::obj().f("discr", self.place(body, p));
                if let ty::Adt(a, _) = pty.kind() {
                    o = o.f("adt", J::s(self.dp(a.did())));
                    self.want_adt(a.did());
                }
                o.done()
            }
            Rvalue::Aggregate(kind, ops) => {
                let mut ov = Vec::new();
                for x in ops.iter() {
                    ov.push(self.operand(body, owner, x));
                }
                let mut o = J::obj();
                match &**kind {
                    AggregateKind::Array(_) => o = o.f("agg", J::s("array")),
                    AggregateKind::Tuple => o = o.f("agg", J::s("tuple")),
                    AggregateKind::Adt(d, vidx, _, _, _) => {
                        let a = tcx.adt_def(*d);
                        let v = a.variant(*vidx);
                        self.want_adt(*d);
                        let fnames: Vec<J> = v.fields.iter().map(|f| J::s(f.name.to_string())).collect();
                        o = o
                            .f("agg", J::s("adt"))
                            .f("adt", J::s(self.dp(*d)))
                            .f("variant", J::s(v.name.to_string()))
                            .f("fields", J::Arr(fnames));
                    }
                    AggregateKind::Closure(d, _) => {
                        o = o.f("agg", J::s("closure")).f("closure", J::s(self.dp(*d))).f("closure_uid", J::s(self.uid(*d)));
                        let names: Vec<J> = tcx
                            .closure_saved_names_of_captured_variables(*d)
                            .iter()
                            .map(|s| J::s(s.to_string()))
                            .collect();
                        o = o.f("fields", J::Arr(names));
                    }
                    AggregateKind::Coroutine(d, _) => {
                        o = o.f("agg", J::s("coroutine")).f("closure", J::s(self.dp(*d))).f("closure_uid", J::s(self.uid(*d)));
                    }
                    AggregateKind::CoroutineClosure(d, _) => {
                        o = o.f("agg", J::s("coroutine_closure")).f("closure", J::s(self.dp(*d)));
                    }
                    AggregateKind::RawPtr(..) => o = o.f("agg", J::s("rawptr")),
                }
                o.f("ops", J::Arr(ov)).done()
            }
            Rvalue::Repeat(op, _) => J::obj().f("repeat", self.operand(body, owner, op)).done(),
            Rvalue::ThreadLocalRef(d) => J::obj().f("thread_local_ref", J::s(self.dp(*d))).done(),
            _ => J::obj().f("other", J::s(format!("{:?}", rv))).done(),
        }
    }
}

fn main() -> std::process::ExitCode {
    let mut args: Vec<String> = std::env::args().collect();
    // RUSTC_WORKSPACE_WRAPPER invocation: argv[1] is the real rustc path
    if args.len() > 1 && (args[1].ends_with("rustc") || args[1].contains("/rustc")) {
        args.remove(1);
    }
    let mut cb = Exporter;
    rustc_driver::catch_with_exit_code(move || rustc_driver::run_compiler(&args, &mut cb))
}
