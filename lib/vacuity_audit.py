#!/usr/bin/env python3
"""vacuity_audit.py: after lib/try_neutral.sh (which leaves per-check (rule, site kind) instance counts under /tmp/neutral-keys), lists for
every behaviour-preserving patch the (rule, site kind) pairs that have instances on the unchanged tree but none on the patched one while
the check stayed silent: candidates for rules that pass vacuously when the code is spelled differently. Each has to be read by hand:
either the site kind legitimately does not exist in the rewritten code, or the rule needs a floor."""
import glob, json, os, subprocess, sys
HERE = os.path.dirname(os.path.dirname(os.path.abspath(__file__)))
base = {}
os.makedirs('/tmp/neutral-keys/base', exist_ok=True)
for i in range(1, 21):
    pid = 'C%02d' % i
    f = '/tmp/neutral-keys/base/%s.json' % pid
    if not os.path.exists(f) or '--rebase' in sys.argv:
        subprocess.run([os.path.join(HERE, 'check'), pid, '--tier', 'quick'], env=dict(os.environ, VERIF_DUMP_KEYS=f), capture_output=True, cwd=HERE)
    base[pid] = json.load(open(f))['counts']
agg = {}
for f in sorted(glob.glob('/tmp/neutral-keys/*.json')):
    j = json.load(open(f))
    pid = j['property']
    tag = os.path.basename(f).rsplit('.', 2)[0]
    gone = [k for k, n in base[pid].items() if n and not j['counts'].get(k) and not k.startswith('anchor')]
    for k in gone:
        agg.setdefault((pid, k), []).append(tag)
for (pid, k), tags in sorted(agg.items()):
    print('%s %-40s vanished in %d patches: %s' % (pid, k, len(tags), ' '.join(t.replace('selftest_neutral_agents_', '').replace('.diff', '') for t in tags[:8])))
