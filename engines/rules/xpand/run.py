"""Generate + compile the XPAND harness against /repo's current tree and load its facts."""
import hashlib
import json
import os
import subprocess
import sys
import time

import facts as factsmod

VERIF = factsmod.VERIF
_cache = {}


def harness(tier, seed):
    key = (tier, seed)
    if key in _cache:
        return _cache[key]
    th = factsmod.tree_hash()
    gh = hashlib.sha256()
    for f in ('gen.py', 'patterns.py'):
        gh.update(open(os.path.join(VERIF, 'engines', 'xpand', f), 'rb').read())
    tag = '%s-%s-%s-%d' % (th, gh.hexdigest()[:10], tier, seed)
    d = os.path.join(VERIF, '.cache', 'xpand', tag)
    out = os.path.join(d, 'out')
    fjson = os.path.join(out, 'xpand_harness.lib.json')
    if os.environ.get('VERIF_NOCACHE') == '1' or not (os.path.exists(fjson) and os.path.exists(os.path.join(out, 'nonce'))):
        _build_locked(d, tier, seed)
    try:
        os.utime(d, None)
    except OSError:
        pass
    F = factsmod.Facts(fjson)
    sc = json.load(open(os.path.join(d, 'sidecar.json')))
    _cache[key] = (F, sc, d)
    return _cache[key]


def _build_locked(d, tier, seed):
    """one builder at a time (the harness target directory and the cache entry are shared between concurrently running
    checks); the entry is generated in a private directory and renamed into place once complete"""
    import fcntl
    import shutil
    base = os.path.join(VERIF, '.cache', 'xpand')
    os.makedirs(base, exist_ok=True)
    with open(os.path.join(base, 'lock'), 'w') as lf:
        fcntl.flock(lf, fcntl.LOCK_EX)
        try:
            out = os.path.join(d, 'out')
            if os.environ.get('VERIF_NOCACHE') != '1' and os.path.exists(os.path.join(out, 'xpand_harness.lib.json')) and os.path.exists(os.path.join(out, 'nonce')):
                return
            shutil.rmtree(d, ignore_errors=True)
            os.makedirs(d)
            repo = os.environ.get('VERIF_REPO', '/repo')
            r = subprocess.run([sys.executable, os.path.join(VERIF, 'engines', 'xpand', 'gen.py'), d, repo, tier, str(seed)], capture_output=True, text=True)
            if r.returncode != 0:
                raise factsmod.FactsError('harness generation failed: %s' % r.stderr[-2000:])
            nonce = '%d-%d' % (time.time_ns(), os.getpid())
            r = subprocess.run([os.path.join(VERIF, 'lib', 'extract_harness.sh'), d, out], env=dict(os.environ, VERIF_NONCE=nonce), capture_output=True, text=True)
            if r.returncode != 0:
                shutil.rmtree(out, ignore_errors=True)
                raise HarnessRejected(r.stderr[-6000:])
            _gc(keep=os.path.basename(d))
        finally:
            fcntl.flock(lf, fcntl.LOCK_UN)


class HarnessRejected(Exception):
    """the compiler rejected a grammar point of the harness on this tree"""


def _gc(keep=None):
    """called with the lock held: drop cache entries not used for an hour (beyond the 6 newest), and the shared harness target
    directory once it has grown past 4 GB (every scratch tree adds a build of unimock to it)"""
    import shutil
    base = os.path.join(VERIF, '.cache', 'xpand')
    ents = sorted((e for e in os.listdir(base) if os.path.isdir(os.path.join(base, e))), key=lambda e: os.path.getmtime(os.path.join(base, e)))
    now = time.time()
    while len(ents) > 6:
        e = ents.pop(0)
        if e == keep or now - os.path.getmtime(os.path.join(base, e)) < 3600:
            continue
        shutil.rmtree(os.path.join(base, e), ignore_errors=True)
    td = os.path.join(VERIF, '.cache', 'target', 'xpand')
    try:
        r = subprocess.run(['du', '-sm', td], capture_output=True, text=True)
        if r.returncode == 0 and int(r.stdout.split()[0]) > 4096:
            shutil.rmtree(td, ignore_errors=True)
    except (OSError, ValueError, IndexError):
        pass
