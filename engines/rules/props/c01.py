"""C01 — unordered calls are answered by the first declared pattern that matches."""
import re
import symex
from symex import strip, show, is_call, field_path, mentions
from props import evalcore as E, lifecycle as L, assembly as A
from props.util import configs, load

LEVEL = 'other'


def run(chk, tier):
    chk.explain('K5: the unordered arm of the selector is a forward first-hit pipeline over the called method\'s own pattern list; '
                'K3/K1: the accept closure only consults the matcher (Ok(true) select / Ok(false) skip / Err error) and reads no '
                'pattern state; K1/K6: the match counter is bumped from one site, once, on the selected pattern only; K5: pattern '
                'lists are append-only and built in clause order (assembler push, Each::call/deconstruct, tuple order); K6: the list '
                'consulted is the one stored under TypeId::of::<F>() of the called method.')
    for cfg in configs(tier, quick=('std',), thorough=('std', 'mocks', 'nostd-spin', 'nostd')):
        F = load(chk, cfg)
        E.selector_rules(chk, F, cfg, r_scan='R01.1', r_pure='R01.2', r_ord=None, r_bump=None)
        fn, paths, rows = E.eval_dyn_table(chk, F, 'R01.3.table', cfg)
        E.counting_discipline(chk, F, 'R01.3', cfg, fn, rows)
        A.append_only_lists(chk, F, 'R01.4', cfg)
        A.tuple_order(chk, F, 'R01.4.tuple', cfg)
        E.method_isolation(chk, F, 'R01.5', cfg, paths)
        A.terminal_clauses_use_own_info(chk, F, 'R01.5', cfg)
        from props import ctor
        ctor.builder_constructors(chk, F, 'R01.0', cfg)
        E.index_is_position(chk, F, 'R01.1.index', cfg)
        # R01.6 what the accept closure gets from match_inputs is the stored matcher's own verdict on this call's inputs
        from props.c06 import match_inputs
        match_inputs(chk, F, 'R01.6', cfg)
        # R01.7 'patterns of other methods never influence the answer and are never counted as matched': answering a call runs no user code
        # besides the matchers and the answer - in particular no Debug impl of an argument (which may call back into the mock and be
        # counted against another method's patterns); arguments are rendered on error paths only (shared with C05 R05.7)
        E.lazy_rendering(chk, F, 'R01.7', cfg)
