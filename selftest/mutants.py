"""Self-test corpus: (id, edits[(file, old, new)], expect{prop: rule-regex} | silent[props])."""
MUTANTS = []


def M(id, edits, expect=None, silent=None):
    MUTANTS.append({'id': id, 'edits': edits, 'expect': expect or {}, 'silent': silent or []})


TD = 'src/teardown.rs'
LIB = 'src/lib.rs'

# ---- C09 -------------------------------------------------------------------------------------
M('c09-clones-verify', [(TD, '''    if !unimock.original_instance {
        return Ok(());
    }
''', '')], {'C09': r'R09\.teardown'})
M('c09-torn-down-late', [(TD, '''    unimock.torn_down = true;

''', ''), (TD, '''    let strong_count = Arc::strong_count''', '''    unimock.torn_down = true;
    let strong_count = Arc::strong_count''')], {'C09': r'R09\.pre'})
M('c09-no-thread-check', [(TD, '''    #[cfg(feature = "std")]
    if std::thread::current().id() != unimock.shared_state.original_thread {''', '''    #[cfg(feature = "std")]
    if false && std::thread::current().id() != unimock.shared_state.original_thread {''')], {'C09': r'R09\.teardown'})
M('c09-strong-count-gt2', [(TD, 'if strong_count > 1 {', 'if strong_count > 2 {')], {'C09': r'R09\.teardown'})
M('c09-clone-copies-original', [(LIB, '''            original_instance: false,
            torn_down: false,
            verify_in_drop: self.verify_in_drop,''', '''            original_instance: self.original_instance,
            torn_down: false,
            verify_in_drop: self.verify_in_drop,''')], {'C09': r'R09\.clone'})
M('c09-verify-on-clone', [(LIB, '''        if !self.original_instance {
            panic!("Called verify() on a cloned instance. Verify the original instance instead.");
        }
''', '')], {'C09': r'R09\.verify'})
M('c09-drop-ignores-torn-down', [(LIB, '''        if self.torn_down {
            return;
        }

        if self.verify_in_drop {''', '''        if self.verify_in_drop {''')], {'C09': r'R09\.drop'})
M('c09-report-skips-teardown', [(LIB, '''    #[cfg(not(feature = "mock-std"))]
    fn report(mut self) -> std::process::ExitCode {
        teardown::teardown_report(&mut self)
    }''', '''    #[cfg(not(feature = "mock-std"))]
    fn report(mut self) -> std::process::ExitCode {
        self.torn_down = true;
        std::process::ExitCode::SUCCESS
    }''')], {'C09': r'R09\.report'})
# harmless rewrites
M('h-teardown-guard-helper', [(TD, '''    #[cfg(feature = "std")]
    if std::thread::panicking() {
        return Ok(());
    }
''', '''    #[cfg(feature = "std")]
    if should_skip_verification() {
        return Ok(());
    }
'''), (TD, '''#[track_caller]
pub(crate) fn teardown(unimock''', '''#[cfg(feature = "std")]
fn should_skip_verification() -> bool {
    std::thread::panicking()
}

#[track_caller]
pub(crate) fn teardown(unimock''')], silent=['C09', 'C11', 'C08'])
M('h-teardown-reorder-after-guard', [(TD, '''    let strong_count = Arc::strong_count(&unimock.shared_state);

    if strong_count > 1 {
        panic!("Unimock cannot verify calls, because the original instance got dropped while there are clones still alive.");
    }

    #[cfg(feature = "std")]
    if std::thread::current().id() != unimock.shared_state.original_thread {
        panic!("Original Unimock instance destroyed on a different thread than the one it was created on. To solve this, clone the object before sending it to the other thread.");
    }
''', '''    #[cfg(feature = "std")]
    if !(std::thread::current().id() == unimock.shared_state.original_thread) {
        panic!("Original Unimock instance destroyed on a different thread than the one it was created on. To solve this, clone the object before sending it to the other thread.");
    }

    match Arc::strong_count(&unimock.shared_state) {
        1 => {}
        _ => panic!("Unimock cannot verify calls, because the original instance got dropped while there are clones still alive."),
    }
''')], silent=['C09', 'C11', 'C08'])

# ---- C11 -------------------------------------------------------------------------------------
_GUARD = '''    // skip verification if the thread panicked for any other reason.
    #[cfg(feature = "std")]
    if std::thread::panicking() {
        return Ok(());
    }

'''
_CLONECHK = '''    if strong_count > 1 {
        panic!("Unimock cannot verify calls, because the original instance got dropped while there are clones still alive.");
    }

'''
M('c11-guard-below-clone-check', [(TD, _GUARD, ''), (TD, _CLONECHK, _CLONECHK + _GUARD)], {'C11': r'R11\.1', 'C09': r'R09\.teardown'})
_THREADCHK_END = '''clone the object before sending it to the other thread.");
    }

'''
M('c11-guard-below-thread-check', [(TD, _GUARD, ''), (TD, _THREADCHK_END, _THREADCHK_END + _GUARD)], {'C11': r'R11\.1'})
M('c11-guard-only-for-clones', [(TD, 'if std::thread::panicking() {', 'if std::thread::panicking() && strong_count_early(unimock) > 1 {'),
                                 (TD, '#[track_caller]\npub(crate) fn teardown(unimock', 'fn strong_count_early(u: &Unimock) -> usize { Arc::strong_count(&u.shared_state) }\n\n#[track_caller]\npub(crate) fn teardown(unimock')],
  {'C11': r'R11\.1'})
M('c11-expect-before-guard', [(TD, '    // skip verification if not the original instance.\n', '    unimock.default_impl_delegator_cell.get().map(|_| ()).ok_or(()).expect_err("helper released");\n    // skip verification if not the original instance.\n')],
  {'C11': r'R11\.1'})
M('c11-teardown-panic-on-ok', [(TD, '''        panic!("{}", error_strings.join("\\n"));
    }
''', '''        panic!("{}", error_strings.join("\\n"));
    } else if !unimock.original_instance && unimock.verify_in_drop && std::thread::panicking() {
        panic!("clone dropped while panicking");
    }
''')], {'C11': r'R11\.1\.teardown_panic'})
M('c11-user-code-under-lock', [('src/output/owning.rs', '''        let value = self.into();
        Ok(Owned(Box::new(move || Some(value.clone()))))''', '''        let value = crate::private::MutexIsh::new(self.into());
        Ok(Owned(Box::new(move || Some(value.locked(|v| v.clone())))))''')], {'C11': r'R11\.3'})

# ---- C08 -------------------------------------------------------------------------------------
M('c08-push-only-first', [(LIB, '''            reasons.push(error);''', '''            if reasons.is_empty() {
                reasons.push(error);
            }''')], {'C08': r'R08\.2'})
M('c08-push-after-conditional', [(LIB, '''        let msg = alloc::format!("{error}");

        self.shared_state.panic_reasons''', '''        let msg = alloc::format!("{error}");

        if let error::MockError::ExplicitPanic { .. } = &error {
            panic!("{msg}");
        }

        self.shared_state.panic_reasons''')], {'C08': r'R08\.[12]'})
M('c08-read-consumes', [('src/state.rs', 'self.panic_reasons.locked(|reasons| reasons.clone())', 'self.panic_reasons.locked(|reasons| core::mem::take(reasons))')], {'C08': r'R08\.3'})
M('c08-only-first-reason', [(TD, '''            return Err(panic_reasons);''', '''            return Err(crate::alloc::vec![panic_reasons[0].clone()]);''')], {'C08': r'R08\.4'})
M('c08-direct-panic-in-eval', [('src/eval.rs', '''            DynResponder::Panic(msg) => Err(MockError::ExplicitPanic {
                fn_call: dyn_ctx.fn_call(),
                pattern: eval_responder
                    .fn_mocker
                    .debug_pattern(eval_responder.pat_index),
                msg: msg.clone(),
            }),''', '''            DynResponder::Panic(msg) => panic!("{}: Explicit panic from {}: {msg}", dyn_ctx.fn_call(), eval_responder.fn_mocker.debug_pattern(eval_responder.pat_index)),''')], {'C08': r'R08\.1'})
M('c08-verify-before-forward', [(TD, '''    {
        // if already in error state, it must be from another thread. Forward those errors to the original thread.
        // (if original is even still in the original thread.. But report as close to the test "root" as possible)
        let panic_reasons = unimock.shared_state.clone_panic_reasons();
        if !panic_reasons.is_empty() {
            return Err(panic_reasons);
        }
    }

    let mut mock_errors = Vec::new();
    for (_, fn_mocker) in unimock.shared_state.fn_mockers.iter() {
        fn_mocker.verify(&mut mock_errors);
    }
''', '''    let mut mock_errors = Vec::new();
    for (_, fn_mocker) in unimock.shared_state.fn_mockers.iter() {
        fn_mocker.verify(&mut mock_errors);
    }

    if mock_errors.is_empty() {
        let panic_reasons = unimock.shared_state.clone_panic_reasons();
        if !panic_reasons.is_empty() {
            return Err(panic_reasons);
        }
    }
''')], {'C08': r'R08\.4'})
M('c08-teardown-panic-first-only', [(TD, '''        let error_strings = errors
            .iter()
            .map(''', '''        let error_strings = errors
            .iter()
            .take(1)
            .map(''')], {'C08': r'R08\.4', 'C09': r'R09\.teardown_panic'})

# ---- C10 -------------------------------------------------------------------------------------
CNT = 'src/counter.rs'
M('c10-load-store', [(CNT, '''        self.actual_count
            .fetch_add(1, core::sync::atomic::Ordering::SeqCst)''', '''        let v = self.actual_count.load(core::sync::atomic::Ordering::SeqCst);
        self.actual_count.store(v + 1, core::sync::atomic::Ordering::SeqCst);
        v''')], {'C10': r'R10\.[12]'})
M('c10-relaxed', [('src/state.rs', '''            .fetch_add(1, core::sync::atomic::Ordering::SeqCst)''', '''            .fetch_add(1, core::sync::atomic::Ordering::Relaxed)''')], {'C10': r'R10\.1'})
M('c10-check-then-act', [(CNT, '''        self.actual_count
            .fetch_add(1, core::sync::atomic::Ordering::SeqCst)''', '''        if self.actual_count.load(core::sync::atomic::Ordering::Relaxed) < usize::MAX / 2 {
            self.actual_count
                .fetch_add(1, core::sync::atomic::Ordering::SeqCst)
        } else {
            usize::MAX / 2
        }''')], {'C10': r'R10\.[12]'})
M('c10-shared-cache', [('src/state.rs', '''    next_ordered_call_index: AtomicUsize,
    pub panic_reasons''', '''    next_ordered_call_index: AtomicUsize,
    pub last_call: std::sync::Mutex<Option<TypeId>>,
    pub panic_reasons'''), ('src/state.rs', '''            next_ordered_call_index: AtomicUsize::new(0),
            panic_reasons''', '''            next_ordered_call_index: AtomicUsize::new(0),
            last_call: std::sync::Mutex::new(None),
            panic_reasons''')], {'C10': r'R10\.3'})
M('c10-position-plus-one', [('src/call_pattern.rs', 'find_responder_by_call_index(&self.responders, self.call_counter.fetch_add())', 'find_responder_by_call_index(&self.responders, self.call_counter.fetch_add() + 1)')], {'C10': r'R10\.2'})
M('h-c10-rename-bump', [('src/state.rs', 'pub fn bump_ordered_call_index(&self)', 'pub fn take_next_slot(&self)'), ('src/eval.rs', 'self.shared_state.bump_ordered_call_index()', 'self.shared_state.take_next_slot()')], silent=['C10'])
