"""C07 — calls without an applicable pattern fail loudly or fall through as documented."""
import symex
from symex import strip
from props import evalcore as E, lifecycle as L
from props.util import configs, load
import tables

LEVEL = 'other'


def run(chk, tier):
    chk.explain('K3: the decision table of DynCtx::eval_dyn over (mentioned, default body, partial-by-default, fallback mode, selector '
                'result, responder) extracted from MIR equals the documented resolution table; eval::eval maps the results to the '
                'same-named continuations and never fabricates a value; Continuation::report maps each unanswered continuation to its '
                'error through induce_panic; constructors pass the documented fallback mode, which is never written afterwards; the '
                'match counter is untouched on every path that selects no pattern.')
    from xpand import rules as X
    chk.explain('Generated half (R07.5, XPAND): on the generated trait grammar every method has an Unmock arm exactly when a real function is '
                'registered at its position and that arm calls that function; a default-impl arm exactly when it is provided; every other '
                'continuation is reported, never answered with a made-up value.')
    X.check_traits(chk, tier, chk.seed, {'C07'})
    for cfg in configs(tier, thorough=('std', 'mocks', 'nostd-spin', 'nostd')):
        F = load(chk, cfg)
        fn, paths, rows = E.eval_dyn_table(chk, F, 'R07.1', cfg)
        E.counting_discipline(chk, F, 'R07.1.count', cfg, fn, rows)
        E.eval_table(chk, F, 'R07.4', cfg)
        # R07.7 'panics naming the call': the text the mock panics with is the rendering of this call's own error
        from props.c08 import panic_message_is_the_error
        panic_message_is_the_error(chk, F, 'R07.7', cfg)
        # R07.8 'calls without an applicable pattern fail loudly or fall through as documented': fall-through needs every pattern to have
        # *rejected* the arguments - a pattern that cannot be evaluated (matcher error) is an error, never a rejection
        E.selector_rules(chk, F, cfg, r_scan='R07.8', r_pure='R07.8.pure', r_ord='R07.8.ord', r_bump=None)
        # R07.11 'patterns that all reject the arguments': whether a pattern rejects is the matching! semantics (guard applies to every
        # alternative) - the translation validation of C06, reported here under its own rule ids (R06.x)
        if cfg == 'std':
            X.check_patterns(chk, tier, chk.seed, {'C06'})
        # R07.10 a call made by a default body through the delegation helper is a call to that very method of the mock: the helper's
        # hand-written supertrait impls forward to the same trait's same method (an unmentioned `Debug::fmt` must fail, not be answered
        # by `Display::fmt` patterns) - mock-core configuration
        if cfg == 'std':
            from props import c20 as c20_
            c20_.supertrait_forwarders(chk, load(chk, 'mocks'), 'R07.10', 'mocks')
        # R07.9 'fail loudly': the failure of a call without an applicable pattern is remembered where every clone sees it, on whichever thread
        # it happens, before the panic - a panic that is caught must not leave a mock that verifies green (shared with C08)
        from props import c08 as c08_
        c08_.records_before_panic(chk, F, 'R07.9', cfg, 'nostd' in cfg)
        # R07.2 fallback mode: set by the constructors, never written
        L.clone_and_ctor(chk, F, 'R07.2', cfg)
        acc = L.field_accesses(F, 'state::SharedState', 'fallback_mode')
        writers = L.attributed(F, acc, kinds=('write', 'construct'))
        chk.ob('R07.2', 'fallback_mode is only written when the shared state is constructed', writers == ['state::SharedState::new'], config=cfg,
               site='field:fallback_mode', what='writers of fallback_mode', found=writers, expected=['state::SharedState::new'])
        # R07.3 Continuation::report
        rep = F.fn('private::Continuation::report')
        from symex import decision_variant
        rrows = tables.abstract(symex.Interp(F).run(rep),
                                lambda d, p: ('cont', {decision_variant(F, d)} if isinstance(decision_variant(F, d), str) else set(decision_variant(F, d)[1])) if strip(d.value)[0] == 'discr' and strip(strip(d.value)[1]) == ('param', 0, 1) else None,
                                lambda p: ('induce_panic(%s)' % strip(list(p.calls(r'^Unimock::induce_panic$'))[0].data[2][1])[3]) if p.called(r'^Unimock::induce_panic$') and p.outcome[0] == 'diverge' else str(p.outcome[0]))
        tables.check_table(chk, 'R07.3', rep, rrows, [
            ('Answer => NotAnswered', {'cont': {'Answer'}}, 'induce_panic(NotAnswered)'),
            ('Unmock => CannotUnmock', {'cont': {'Unmock'}}, 'induce_panic(CannotUnmock)'),
            ('CallDefaultImpl => NoDefaultImpl', {'cont': {'CallDefaultImpl'}}, 'induce_panic(NoDefaultImpl)'),
        ], config=cfg)
