#!/bin/sh
# builds the analysis tools offline; filled in as engines are added
set -e
cd "$(dirname "$0")"
exit 0
