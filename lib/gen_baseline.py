#!/usr/bin/env python3
"""Regenerates engines/rules/baseline.json (item inventory + vocabulary of the reference tree = /repo as it is now).
Run only when the rules have been re-confirmed against the tree: the inventory is what renamed items are mapped back to."""
import json, os, sys
sys.path.insert(0, os.path.join(os.path.dirname(os.path.abspath(__file__)), '..', 'engines', 'rules'))
import facts, names
out = {}
for crate in ('unimock', 'unimock_macros'):
    inv = {'fns': {}, 'adts': {}}
    vocab = set()
    for cfg in ('std', 'mocks', 'nostd-spin', 'nostd'):
        p = facts.raw_path(cfg, crate)
        txt = open(p).read().replace('alloc::alloc::', 'std::')
        i = names.inventory(json.loads(txt))
        for k in ('fns', 'adts'):
            for d, v in i[k].items():
                inv[k].setdefault(d, v)
        vocab |= names.vocabulary(txt)
    inv['vocab'] = sorted(vocab)
    out[crate] = inv
    print(crate, len(inv['fns']), 'fns', len(inv['adts']), 'adts', len(vocab), 'identifiers')
json.dump(out, open(names.BASELINE, 'w'), indent=0, sort_keys=True)
