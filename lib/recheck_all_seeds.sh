#!/bin/bash
# Re-runs, for every stored seeded change, the check of the property it was aimed at (scratch copy of /repo's current tree + the
# patch, removed afterwards) and prints one line per seed; every line must say exit=1. Used after changes to the engine (new
# analysis modes, recognisers) to make sure nothing that was caught is now let through.
ROOT="$(dirname "$(readlink -f "$0")")/.."; ROOT="$(readlink -f "$ROOT")"
cd "$ROOT"
for d in seeded/*/; do
  n=$(basename "$d"); id=${n%%-*}
  [ -f "$d/patch.diff" ] || continue
  out=$(./lib/try_seed.sh "$d/patch.diff" "$id" 2>&1 | tail -1)
  echo "$n: $out"
done
