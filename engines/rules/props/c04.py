"""C04 — next_call patterns are consumed strictly in declaration order across methods."""
import re
import symex
from symex import strip, show, is_call, field_path, mentions, linear, decision_variant
import tables
from props import evalcore as E, lifecycle as L, assembly as A, builder as B
from props.c10 import position_is_rmw
from props.util import configs, load

LEVEL = 'other'


def run(chk, tier):
    chk.explain('K4: MockAssembler::new_call_pattern assigns consecutive slot ranges (start = cur, end = cur + exact count, cur\' = end) '
                'only for ordered patterns; K1: the global slot counter is bumped by one atomic RMW from one site inside the ordered arm of '
                'the selector, unordered calls never reach it; K6: the RMW result is the index used for lookup; K3/K4: the slot predicate is '
                'start <= i < end (evaluated on every region of the partition), looked up in the called method\'s own list; K3: the ordered '
                'arm checks the arguments against exactly that pattern, once, and every deviation is an error; the response of an ordered '
                'pattern is chosen by its own match counter (R02.3).')
    for cfg in configs(tier, thorough=('std', 'mocks', 'nostd-spin', 'nostd')):
        F = load(chk, cfg)
        range_assignment(chk, F, 'R04.1', cfg)
        E.selector_rules(chk, F, cfg, r_scan=None, r_pure=None, r_ord='R04.5', r_bump='R04.2')
        position_is_rmw(chk, F, 'R04.3', cfg)
        E.slot_lookup(chk, F, 'R04.4', cfg)
        B.ordered_implicit_once(chk, F, 'R04.6', cfg)
        # R04.9 'each repeated by its exact count': every quantifier adds its count to what the chain has accumulated (the width of the slot range)
        B.quantify_arith(chk, F, 'R04.9', cfg)
        B.api_table(chk, F, 'R04.9.api', cfg)
        # R04.11 'next_call clauses flattened left to right': every tuple arity hands its elements to the assembler in index order (shared with C14)
        from props import assembly as A_
        A_.tuple_order(chk, F, 'R04.11', cfg)
        # R04.10 'and it then gets that slot's response': inside a pattern's slot range the response is the segment that owns the call's
        # position (greatest start <= k; a zero-count segment owns no slot) - the lookup shared with C02
        from props.c02 import segment_lookup
        segment_lookup(chk, F, 'R04.10', cfg)
        from props import ctor
        ctor.builder_constructors(chk, F, 'R04.0', cfg)
        efn, epaths, erows = E.eval_dyn_table(chk, F, 'R04.7.table', cfg)
        E.counting_discipline(chk, F, 'R04.7', cfg, efn, erows)
        # R04.8 'its arguments match that slot's pattern' = the stored matcher's own verdict on this call's inputs
        from props.c06 import match_inputs
        match_inputs(chk, F, 'R04.8', cfg)


def range_assignment(chk, F, rule, cfg):
    fn, BUILDER, builds = A.pattern_builds(F)
    paths = [p for p, _ in builds]
    built = {id(p): v for p, v in builds}
    chk.analysed(fn)

    def mode(p):
        for d in p.decisions:
            inner, t = L.truth_of(d)
            cmp = symex.as_comparison(inner) if t is not None else None
            if cmp and cmp[0] in ('Eq', 'Ne'):
                for a, b in ((cmp[1], cmp[2]), (cmp[2], cmp[1])):
                    a = strip(a)
                    if a[0] == 'discr' and field_path(a[1])[1][-1:] == ['pattern_match_mode'] and strip(b)[0] == 'c':
                        var = F.variant_by_discr('fn_mocker::PatternMatchMode', strip(b)[1])
                        eq = (cmp[0] == 'Eq') == t
                        return var if eq else ('InAnyOrder' if var == 'InOrder' else 'InOrder')
            v = strip(d.value)
            if v[0] == 'discr' and field_path(v[1])[1][-1:] == ['pattern_match_mode']:
                return decision_variant(F, d)
        return None

    def exactness(p):
        for d in p.decisions:
            v = strip(d.value)
            if v[0] == 'discr' and field_path(v[1])[1][-1:] == ['exactness']:
                return decision_variant(F, d)
        return None
    cur = ('field', ('deref', ('param', 0, 1)), 'current_call_index')
    n_ord = 0
    for p in paths:
        m = mode(p)
        chk.ob(rule, 'new_call_pattern branches on the pattern match mode', m in ('InOrder', 'InAnyOrder'), config=cfg, fn=fn, site='mode', unrecognised=True, what='mode switch not recognised',
               found=[show(d.value) for d in p.decisions])
        writes = [e for e in p.effects if e.kind == 'write' and e.data[0][1][-1:] == (('f', 'current_call_index'),)]
        if p.outcome[0] != 'return' and built.get(id(p)) is None:
            # the `expect` on inexact ordered patterns: allowed to diverge only for ordered + not exact
            ok = m == 'InOrder' and exactness(p) != 'Exact'
            chk.ob(rule, 'only an inexact ordered pattern may abort assembly', ok, config=cfg, fn=fn, site='abort', what='abort in %s/%s' % (m, exactness(p)), found=str(p.outcome[:2]))
            continue
        v = built.get(id(p)) or ('unk', '')
        d = dict(v[4]) if v[0] == 'agg' else {}
        rng = strip(d.get('ordered_call_index_range', ('unk', '')))
        if rng[0] == 'agg' and rng[2] == 'core::option::Option':
            # the slot range kept as Option<Range>: None = no slots (what the empty range says on the reference tree)
            if rng[3] == 'None':
                if m == 'InAnyOrder':
                    chk.ob(rule, 'unordered patterns get no slots and do not advance the cursor', not writes, config=cfg, fn=fn, site='unordered', what='unordered pattern touches slots',
                           found={'writes': len(writes), 'range': 'None'}, expected='no range, cursor untouched')
                    continue
                rng = ('unk', 'None for an ordered pattern')
            else:
                rng = strip(rng[4][0][1])
        if m == 'InAnyOrder':
            empty = (rng[0] == 'call' and bool(re.search(r'Default>?::default$', rng[1]))) or \
                    (rng[0] == 'agg' and dict(rng[4]).get('start') is not None and strip(dict(rng[4])['start']) == strip(dict(rng[4]).get('end', ('unk', ''))))     # (x..x is empty whatever x is)
            ok = not writes and empty
            chk.ob(rule, 'unordered patterns get no slots and do not advance the cursor', ok, config=cfg, fn=fn, site='unordered', what='unordered pattern touches slots',
                   found={'writes': len(writes), 'range': show(rng)}, expected='an empty range (Range::default() or x..x), cursor untouched')
            continue
        if exactness(p) not in ('Exact', None):
            chk.ob(rule, 'an ordered pattern that is not exactly quantified cannot be assembled', False, config=cfg, fn=fn, site='inexact', what='inexact ordered pattern accepted', found=exactness(p))
            continue
        n_ord += 1
        ov = dict(rng[2]) if rng[0] == 'overlay' else {}
        start = ov.get((('f', 'start'),))
        end = ov.get((('f', 'end'),))
        if rng[0] == 'agg':
            dd = dict(rng[4])
            start, end = dd.get('start'), dd.get('end')
        mini = None
        ok_start = start is not None and linear(start) == ({cur: 1}, 0)
        le = linear(end) if end is not None else None
        ok_end = False
        if le is not None and le[1] == 0 and le[0].get(cur) == 1 and len(le[0]) == 2:
            other = [s for s in le[0] if s != cur][0]
            root, ns = field_path(other)
            ok_end = le[0][other] == 1 and ns[-2:] == ['count_expectation', 'minimum']
        chk.ob(rule, 'ordered pattern: range.start = cursor', ok_start, config=cfg, fn=fn, site='start', what='start = %s' % (show(start) if start else None), found=show(start) if start else None, expected='self.current_call_index + 0')
        chk.ob(rule, 'ordered pattern: range.end = cursor + exact count', ok_end, config=cfg, fn=fn, site='end', what='end = %s' % (show(end)[:120] if end else None), found=show(end) if end else None,
               expected='self.current_call_index + count_expectation.minimum + 0')
        okw = len(writes) == 1 and end is not None and strip(writes[0].data[1]) == strip(end)
        chk.ob(rule, 'ordered pattern: cursor advances to range.end', okw, config=cfg, fn=fn, site='cursor', what='cursor\' = %s' % ([show(w.data[1])[:100] for w in writes]), found=[show(w.data[1]) for w in writes], expected='range.end')
        cc = strip(d.get('call_counter', ('unk', '')))
        exp_ok = mentions(cc, lambda x: field_path(x) == (('param', 0, BUILDER), ['count_expectation']))
        chk.ob(rule, 'the builder\'s count expectation moves into the pattern\'s counter unchanged', exp_ok, config=cfg, fn=fn, site='expectation', what='count expectation provenance', found=show(cc)[:200])
        for k in ('input_matcher', 'responders'):
            chk.ob(rule, 'pattern.%s is the builder\'s' % k, field_path(d.get(k, ('unk', ''))) == (('param', 0, BUILDER), [k]), config=cfg, fn=fn, site=k, what='%s provenance' % k, found=show(d.get(k, ('unk', ''))))
    chk.ob(rule, 'ordered arm of new_call_pattern analysed', n_ord >= 1, config=cfg, fn=fn, site='ordered', unrecognised=True, what='no ordered path')
    # R18.4: the cursor is used nowhere else
    acc = L.field_accesses(F, 'assemble::MockAssembler', 'current_call_index')
    # an assembler is born with the cursor at 0 (whoever builds one: `new`, a derived `Default`, a struct literal somewhere else)
    makers = sorted(set(b.defp for b, _, k, _ in acc if k == 'construct'))
    for mk in makers:
        mf = F.fns.get(mk)
        if mf is None:
            continue
        for p in symex.Interp(F).run(mf):
            for v_ in symex.subvalues(p.outcome[1] if p.outcome[0] == 'return' else ('unk', '')):
                if v_[0] == 'agg' and v_[1] == 'adt' and v_[2] == 'assemble::MockAssembler':
                    c0 = strip(dict(v_[4]).get('current_call_index', ('unk', '')))
                    chk.ob(rule, 'a new assembler starts with the slot cursor at 0', c0 == ('c', 0), config=cfg, fn=mf, site='cursor-init', what='initial cursor %s' % show(c0), found=show(c0), expected='0')
    chk.floor(rule, 'functions that build an assembler', len(makers), 1, config=cfg)
    users = L.attributed(F, [a for a in acc if not (a[2] == 'construct' and a[0].defp in makers)])
    chk.ob(rule, 'the slot cursor is only used by new_call_pattern (and initialised where an assembler is built)', set(users) <= {'assemble::MockAssembler::new_call_pattern', fn.defp}, config=cfg,
           site='field:current_call_index', what='users of the slot cursor', found=users)
    # exact_calls = Some(minimum) iff Exact
    ec = F.fn('counter::CallCountExpectation::exact_calls')
    for p in symex.Interp(F).run(ec):
        ex = exactness(p)
        v = strip(p.outcome[1])
        if ex == 'Exact':
            ok = v[0] == 'agg' and v[3] == 'Some' and linear(strip(dict(strip(v[4][0][1])[4])['0']) if strip(v[4][0][1])[0] == 'agg' else v)[1] == 0 and \
                mentions(v, lambda x: x[0] == 'field' and x[2] == 'minimum')
        else:
            ok = v[0] == 'agg' and v[3] == 'None'
        chk.ob(rule, 'exact_calls() is Some(minimum) exactly for Exact expectations (%s)' % (ex,), ok, config=cfg, fn=ec, site='exact_calls:%s' % (ex,), what='exact_calls(%s) = %s' % (ex, show(v)), found=show(v))
