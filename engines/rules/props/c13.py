"""C13 — references lent by the mock stay valid, distinct and unmodified while borrowed."""
import re
import symex
from symex import strip, show, is_call, field_path, mentions
from props import lifecycle as L, leaks
from props.util import configs, load
import facts as factsmod

LEVEL = 'other'

CELL_SHARED_OK = re.compile(r'once_cell::sync::OnceCell::(try_insert|get)$')


def run(chk, tier):
    chk.explain('K7: forbid(unsafe_code) in both crates (validity and aliasing are then the compiler\'s guarantee); K6: on every path '
                'ValueChain::push_node returns exactly the reference that OnceCell::try_insert handed back in its Ok arm for the node built '
                'from this call\'s value, walking only through `.next` of occupied cells; K1: through a shared reference the chain cells are '
                'only touched by try_insert/get, replacement and clearing need &mut self or happen at teardown/Drop; lent boxes are written '
                'only at construction and only borrowed by output(); no leak primitives.')
    for cfg in configs(tier, thorough=('std', 'mocks', 'nostd-spin', 'nostd')):
        F = load(chk, cfg)
        chk.ob('R13.1', 'unimock forbids unsafe code', F.unsafe_code_lint == 'Forbid', config=cfg, site='lint:unimock', what='lint %s' % F.unsafe_code_lint, found=F.unsafe_code_lint, expected='Forbid')
        M = factsmod.load(cfg, crate='unimock_macros')
        chk.ob('R13.1', 'unimock_macros forbids unsafe code', M.unsafe_code_lint == 'Forbid', config=cfg, site='lint:unimock_macros', what='lint %s' % M.unsafe_code_lint, found=M.unsafe_code_lint, expected='Forbid')
        push_node(chk, F, 'R13.2', cfg)
        # R13.7 the delegation helper is cached in its own cell for every receiver kind - never stored among (or in place of) the values the
        # instance has lent, which live until the instance is verified or dropped (shared with C15)
        from props import c15 as c15_
        c15_.delegator_runtime(chk, F, 'R13.7', cfg)
        chain_writers(chk, F, 'R13.3', cfg)
        from props import ctor
        ctor.push_value_mut(chk, F, 'R13.2.mut', cfg)
        helper_cell(chk, F, 'R13.6', cfg)
        chain_teardown(chk, F, 'R13.7', cfg)
        lent_boxes(chk, F, 'R13.3.lent', cfg)
        leaks.census(chk, F, 'R13.4', cfg)
        # the chain is released by teardown (pre-effect) and by Drop only
        fn, paths, rows = L.teardown_table(chk, F, 'R13.3.teardown', cfg)
        L.teardown_pre_effects(chk, F, 'R13.3.teardown', cfg, fn, paths)


def chain_cell(cell, depth=0):
    """`cell` is a position of this chain: the root cell, or the `next` cell of a node that occupies a position of this chain - a node
    seen there by a read (`get` -> Some) or handed back by a failed insertion (`try_insert` -> Err((occupant, _)))"""
    cell = strip(cell)
    root, names = field_path(cell)
    if root == ('param', 0, 1) and names == ['root']:
        return True
    r = strip(root)
    if depth > 8 or r[0] != 'call' or not r[2]:
        return False
    core = [n_ for n_ in names if n_ != 'pointer']
    if re.search(r'OnceCell::get$', r[1]) and core == ['0', 'next', '0'] and mentions(cell, lambda x: x[0] == 'as' and x[2] == 'Some'):
        return chain_cell(r[2][0], depth + 1)
    if re.search(r'OnceCell::try_insert$', r[1]) and core == ['0', '0', 'next', '0'] and mentions(cell, lambda x: x[0] == 'as' and x[2] == 'Err'):
        return chain_cell(r[2][0], depth + 1)
    return False


def push_node(chk, F, rule, cfg):
    fn = F.fn('value_chain::ValueChain::push_node')
    paths = symex.Interp(F, loop_bound=3).run(fn)
    chk.analysed(fn)
    rets = [p for p in paths if p.outcome[0] == 'return']
    chk.ob(rule, 'push_node has returning paths', len(rets) >= 2, config=cfg, fn=fn, site='paths', unrecognised=True, what='push_node paths', found=len(rets))
    for p in rets:
        ins = list(p.calls(r'OnceCell::try_insert$'))
        # (looking at a cell with `get` changes nothing: only try_insert puts a node into the chain)
        others = [e.data[1] for e in p.calls() if not re.search(r'(OnceCell::try_insert|OnceCell::get|Deref>?::deref|Box.*as_ref|AsRef>?::as_ref|^std::boxed::Box::new)$', e.data[1])]   # (the node may live in a Box of its own)
        r = strip(p.outcome[1])
        # &*(try_insert(..) as Ok).0
        # (possibly seen through the Box the node lives in: `&**ok.0`)
        last = ('call', ins[-1].data[1], ins[-1].data[2], ins[-1].data[3]) if ins else None
        ok_ret = bool(ins) and mentions(r, lambda x: x[0] == 'field' and x[2] == '0' and strip(x[1])[0] == 'as' and strip(x[1])[2] == 'Ok' and strip(strip(x[1])[1]) == last) and \
            not any(x[0] == 'call' and x != last for x in symex.subvalues(r) if x[0] == 'call' and not mentions(last, lambda y: y == x)) and \
            not any(x[0] == 'field' and x[2] not in ('0', 'pointer') for x in symex.subvalues(r) if x[0] == 'field' and not mentions(last, lambda y: y == x))
        chk.ob(rule, 'the reference returned is the one try_insert handed back (Ok arm) for the last insertion attempt', ok_ret and not others, config=cfg, fn=fn, site='return',
               what='push_node returns %s' % show(r)[:100], found={'returns': show(r)[:200], 'other_calls': others}, expected='&*(cell.try_insert(node) as Ok).0')
        # node argument chain: arg2, then payload .1 of the previous Err
        prev = None
        for i, e in enumerate(ins):
            cell, node = strip(e.data[2][0]), strip(e.data[2][1])
            if i == 0:
                okn = node == ('param', 0, 2) or (is_call(node, r'^std::boxed::Box::new$') and len(node[2]) == 1 and strip(node[2][0]) == ('param', 0, 2))
                okc = chain_cell(cell)
            else:
                pv = ('call', prev.data[1], prev.data[2], prev.data[3])
                okn = mentions(node, lambda x: x == pv) and field_path(node)[1][-1:] == ['1'] and mentions(node, lambda x: x[0] == 'as' and x[2] == 'Err')
                names = field_path(cell)[1]
                okc = mentions(cell, lambda x: x == pv) and 'next' in names and mentions(cell, lambda x: x[0] == 'as' and x[2] == 'Err')
            chk.ob(rule, 'attempt %d inserts this call\'s node into %s' % (i + 1, 'a cell of this chain (the root, or the `next` cell of a node found in it)' if i == 0 else 'the `next` cell of the occupying node'), okn and okc, config=cfg, fn=fn, site='attempt%d' % (i + 1),
                   what='attempt %d node=%s cell=%s' % (i + 1, okn, okc), found={'cell': show(cell)[:160], 'node': show(node)[:160]})
            prev = e
    # push / push_fragile as a whole (the private steps between them and push_node are part of them): what is handed out is the
    # downcast of the `.value` of exactly the node push_node returned for a node built from this call's value
    vc_inline = lambda f_, d_, n_: f_.defp.startswith('value_chain::') and f_.kind in ('fn', 'assoc') and not re.search(r'push_node$|Node::new$|Value::downcast_(ref|mut)$', f_.defp)  # noqa: E731
    for name in ('push',) + (('push_fragile',) if cfg == 'mocks' else ()):
        f = F.method('value_chain::ValueChain', name)
        for p in symex.Interp(F, inline=vc_inline).run(f):
            r = p.outcome[1] if p.outcome[0] == 'return' else ('unk', '')
            pn = [x for x in symex.subvalues(r) if is_call(x, r'ValueChain::push_node$')]
            ok = len(set(x[3] for x in pn)) == 1 and mentions(r, lambda x: is_call(x, r'Value::downcast_ref$'))
            if ok:
                x = pn[0]
                ok = mentions(x[2][0], lambda y: y == ('param', 0, 1)) and mentions(x[2][1], lambda y: is_call(y, r'Node::new$') and mentions(y, lambda z: z == ('param', 0, 2)))
                ok = ok and mentions(r, lambda y: (y[0] == 'field' and y[2] == 'value') or (y[0] == 'ref' and any(e == ('f', 'value') for e in y[1][1])))
            chk.ob(rule, '%s returns the downcast of the `.value` of the node push_node handed back for this call\'s value' % name, ok, config=cfg, fn=f, site=name, what='%s returns %s' % (name, show(r)[:100]), found=show(r)[:200])
    mr = F.method('Unimock', 'make_ref')
    for p in symex.Interp(F).run(mr):
        r = strip(p.outcome[1])
        ok = mentions(r, lambda x: is_call(x, r'ValueChain::push$') and field_path(x[2][0]) == (('param', 0, 1), ['value_chain']) and strip(x[2][1]) == ('param', 0, 2))
        chk.ob(rule, 'make_ref lends from this instance\'s own chain', ok, config=cfg, fn=mr, site='make_ref', what='make_ref %s' % show(r)[:100], found=show(r)[:200])


def chain_writers(chk, F, rule, cfg):
    n = 0
    for fn in F.fns.values():
        uses = L.field_accesses_fn(fn, 'value_chain::ValueChain', 'root') + L.field_accesses_fn(fn, 'value_chain::Node', 'next')
        if not uses:
            continue
        shared = fn.arg_count >= 1 and fn.locals[1]['ty'].startswith('&') and not fn.locals[1]['ty'].startswith('&mut')
        for p in symex.Interp(F, loop_bound=3).run(fn):
            for e in p.effects:
                if e.kind == 'call' and e.data[2]:
                    a0 = e.data[2][0]
                    names = field_path(a0)[1]
                    if not (('root' in names[-1:]) or ('next' in names) or ('root' in names)):
                        continue
                    nm = e.data[1]
                    if not re.search(r'OnceCell', nm):
                        continue
                    n += 1
                    if shared:
                        ok = bool(CELL_SHARED_OK.search(nm))
                        chk.ob(rule, 'through &self the chain cells are only extended (try_insert) or read', ok, config=cfg, fn=fn, site='cell-op:%s' % nm, what='cell op %s through &self' % nm.rsplit('::', 1)[-1],
                               found={'fn': fn.defp, 'op': nm}, expected='try_insert / get')
                if e.kind == 'write' and shared:
                    lv = e.data[0]
                    if any(x in (('f', 'root'), ('f', 'next')) for x in lv[1]):
                        chk.ob(rule, 'no assignment to chain cells through &self', False, config=cfg, fn=fn, site='write', what='cell assigned through &self', found=symex.show_lv(lv))
    chk.floor(rule, 'OnceCell operations on the value chain', n, 3, config=cfg)
    # writers of Unimock.value_chain
    users = L.attributed(F, L.field_accesses(F, 'Unimock', 'value_chain'))
    allow = {'Unimock::from_assembler', 'Unimock::new', 'Unimock::new_partial', '<Unimock as core::clone::Clone>::clone', 'teardown::teardown', 'Unimock::make_ref', 'Unimock::make_mut', 'Unimock::make_fragile_ref', 'Unimock::make_fragile_mut'}
    chk.ob(rule, 'the instance\'s chain is only touched by constructors, make_ref/make_mut and teardown', set(users) <= allow, config=cfg, site='field:value_chain', what='users of Unimock.value_chain %s' % sorted(set(users) - allow), found=users)
    mm = F.method('Unimock', 'make_mut')
    chk.ob(rule, 'make_mut (which releases earlier values) needs exclusive access', mm.locals[1]['ty'].startswith('&mut'), config=cfg, fn=mm, site='make_mut', what='make_mut receiver %s' % mm.locals[1]['ty'], found=mm.locals[1]['ty'])
    # whichever function of the chain replaces its root (the reference tree's `push_value_mut`) needs exclusive access
    nrep = 0
    for pvm in sorted(F.fns.values(), key=lambda f: f.defp):
        if pvm.kind != 'assoc' or (pvm.impl_of or {}).get('self_adt') != 'value_chain::ValueChain' or pvm.arg_count < 1 or (pvm.impl_of or {}).get('trait'):
            continue
        replaces = False
        for p in symex.Interp(F).run(pvm):
            for e in p.effects:
                if e.kind == 'write' and e.data[0][1][-1:] == (('f', 'root'),) and e.data[0][0] == ('ptr', ('param', 0, 1)):
                    replaces = True
                if e.kind == 'call' and re.search(r'core::mem::(replace|take|swap)$|OnceCell(<T>)?::take$', e.data[1]) and e.data[2] and field_path(e.data[2][0]) == (('param', 0, 1), ['root']):
                    replaces = True
        if replaces:
            nrep += 1
            chk.ob(rule, 'push_value_mut needs exclusive access', pvm.locals[1]['ty'].startswith('&mut'), config=cfg, fn=pvm, site='push_value_mut', what='receiver %s' % pvm.locals[1]['ty'], found=pvm.locals[1]['ty'])
    chk.floor(rule, 'functions of the chain that replace its root', nrep, 1, config=cfg)


HELPER_OK = re.compile(r'OnceCell(<T>)?::(set|try_insert|get_or_init|get_or_try_init|get|get_mut)$')


def helper_cell(chk, F, rule, cfg):
    """The delegation helper (which owns its own chain of lent values) lives in a write-once cell of the instance: it is created
    lazily (get_or_init), read, and released only by teardown. Replacing or clearing it earlier would release values lent through it
    while the instance is alive."""
    n = 0
    users = L.attributed(F, L.field_accesses(F, 'Unimock', 'default_impl_delegator_cell'), root=True)
    for d in users:
        fn = F.fns.get(d)
        if fn is None:
            continue
        for body in F.with_closures(fn):
            for p in symex.Interp(F, loop_bound=2).run(body):
                for e in p.effects:
                    if e.kind == 'call' and e.data[2]:
                        a0 = e.data[2][0]
                        if field_path(a0)[1][-1:] != ['default_impl_delegator_cell']:
                            continue
                        nm = e.data[1]
                        n += 1
                        ok = bool(HELPER_OK.search(nm)) or (body.defp == 'teardown::teardown' and re.search(r'OnceCell(<T>)?::take$', nm))
                        chk.ob(rule, 'the helper cell is only initialised once, read, or (in teardown) taken', ok, config=cfg, fn=body, site='helper-cell-op:%s' % nm.rsplit('::', 1)[-1],
                               what='helper cell operation %s in %s' % (nm.rsplit('::', 1)[-1], body.defp[-60:]), found=nm, expected='get_or_init / get / get_mut; take only in teardown')
                    if e.kind == 'write' and e.data[0][1][-1:] == (('f', 'default_impl_delegator_cell'),):
                        chk.ob(rule, 'the helper cell is never assigned (that would release values lent through the old helper early)', False, config=cfg, fn=body, site='helper-cell-write',
                               what='helper cell assigned in %s' % body.defp[-60:], found=symex.show_lv(e.data[0]))
                    if e.kind == 'drop' and field_path(e.data[0])[1][-1:] == ['default_impl_delegator_cell'] and body.defp != 'teardown::teardown':
                        chk.ob(rule, 'the helper cell is never dropped in place outside teardown', False, config=cfg, fn=body, site='helper-cell-drop', what='helper cell dropped in %s' % body.defp[-60:])
    chk.floor(rule, 'operations on the delegation helper cell', n, 4, config=cfg)


def chain_teardown(chk, F, rule, cfg):
    """Drop for ValueChain releases the chain iteratively: every cell it touches is emptied with `take` (the root first, then the
    `next` cell of the node just taken out), each taken node's value is dropped, and the walk only stops at an empty cell. A
    destructor that leaves nodes linked would hand the rest of the chain to the recursive drop glue - one stack frame group per
    lent value - so "however many values are lent" would stop being true at teardown."""
    fn = F.method('value_chain::ValueChain', 'drop', 'core::ops::Drop')
    paths = symex.Interp(F, loop_bound=3).run(fn)
    chk.analysed(fn)
    n = 0
    for p in paths:
        ops = [e for e in p.effects if e.kind == 'call' and re.search(r'OnceCell(<T>)?::\w+$', e.data[1])]
        n += len(ops)
        bad = [e.data[1] for e in ops if not re.search(r'OnceCell(<T>)?::take$', e.data[1])]
        chk.ob(rule, 'the chain destructor only unlinks (OnceCell::take) - it never walks the chain in place', not bad and bool(ops), config=cfg, fn=fn, site='chain-drop:ops',
               what='chain destructor cell operations %s' % sorted(set(x.rsplit('::', 1)[-1] for x in bad)), found=[e.data[1] for e in ops], expected='take only')
        prev = None
        ok = True
        for i, e in enumerate(ops):
            recv = e.data[2][0]
            if i == 0:
                # the root cell of this chain, in place or moved out of it first (mem::take / mem::replace leave an empty cell behind)
                moved = mentions(recv, lambda x: is_call(x, r'core::mem::(take|replace)$') and field_path(x[2][0]) == (('param', 0, 1), ['root']))
                ok = ok and (field_path(recv) == (('param', 0, 1), ['root']) or moved)
            else:
                # (the cell may have been moved into a local first: `let mut cell = node.next; cell.take()` - then the snapshot says where it came from)
                src = recv[3] if recv[0] == 'ref' and recv[1][0][0] == 'local' and len(recv) > 3 else recv
                ok = ok and prev is not None and mentions(recv, lambda x: x[0] == 'call' and x[3] == prev.data[3] and x[1] == prev.data[1]) and 'next' in field_path(src)[1]
            prev = e
        chk.ob(rule, 'the chain destructor takes the root, then the `next` cell of each node it took', ok, config=cfg, fn=fn, site='chain-drop:order', what='chain destructor take order',
               found=[show(e.data[2][0])[:80] for e in ops])
        # stops only at an empty cell
        last = None
        for d in p.decisions:
            v = strip(d.value)
            if v[0] == 'discr' and is_call(strip(v[1]), r'OnceCell(<T>)?::take$'):
                last = symex.decision_variant(F, d)
            elif v[0] == 'discr' and is_call(strip(v[1]), r'Option<T> as core::ops::Try>::branch$') and strip(v[1])[2] and is_call(strip(strip(v[1])[2][0]), r'OnceCell(<T>)?::take$'):
                # `cell.take()?`: Continue = a node was taken out, Break = the cell was empty
                last = {'Continue': 'Some', 'Break': 'None'}.get(symex.decision_variant(F, d), None)
        chk.ob(rule, 'the chain destructor stops only at an empty cell', last == 'None', config=cfg, fn=fn, site='chain-drop:complete', what='chain destructor exit after %s' % last, found=last)
        # every node taken has its value dropped
        takes_some = [strip(strip(d.value)[1]) for d in p.decisions if strip(d.value)[0] == 'discr' and is_call(strip(strip(d.value)[1]), r'OnceCell(<T>)?::take$') and symex.decision_variant(F, d) == 'Some']
        takes_some += [strip(strip(strip(d.value)[1])[2][0]) for d in p.decisions if strip(d.value)[0] == 'discr' and is_call(strip(strip(d.value)[1]), r'Option<T> as core::ops::Try>::branch$') and strip(strip(d.value)[1])[2] and
                       is_call(strip(strip(strip(d.value)[1])[2][0]), r'OnceCell(<T>)?::take$') and symex.decision_variant(F, d) == 'Continue']
        dropped = 0
        for t in takes_some:
            if any((e.kind == 'drop' and mentions(e.data[0], lambda x: x == t)) or (e.kind == 'call' and re.search(r'mem::drop$', e.data[1]) and mentions(e.data[2][0], lambda x: x == t)) for e in p.effects):
                dropped += 1
        chk.ob(rule, 'every node taken out is released', dropped == len(takes_some), config=cfg, fn=fn, site='chain-drop:values', what='values released %d/%d' % (dropped, len(takes_some)))
    chk.floor(rule, 'cell operations in the chain destructor', n, 3, config=cfg)


def lent_boxes(chk, F, rule, cfg):
    for adt, field in (('output::lending::Lent', '0'), ('output::static_ref::Reference', '0')):
        writes = [(b.defp, k) for b, _, k, _ in L.field_accesses(F, adt, field) if k in ('write', 'construct')]
        ok = all(re.search(r'into_return(_once)?$', d) and k == 'construct' for d, k in writes)
        chk.ob(rule, '%s is written only when the response is configured' % adt, ok and len(writes) >= 1, config=cfg, site='field:%s' % adt, what='writers of %s: %s' % (adt, writes), found=writes)
    for fn in F.methods_named('output', 'output::GetOutput'):
        if not fn.locals[1]['ty'].startswith('&') or fn.locals[1]['ty'].startswith('&mut'):
            chk.ob(rule, 'GetOutput::output only borrows the stored response', False, config=cfg, fn=fn, site='output-recv', what='output receiver %s' % fn.locals[1]['ty'])
        muts = [s for _, s in fn.stmts() if 'ref' in s.get('rv', {}) and s['rv'].get('mut') and any(isinstance(e, dict) and e.get('adt', '').startswith('output::') for e in s['rv']['ref']['pr'])]
        chk.ob(rule, '%s does not borrow the stored value mutably' % fn.defp[:60], not muts, config=cfg, fn=fn, site='output-mut', what='mutable borrow in output()')
