import facts


def configs(tier, quick=('std',), thorough=('std', 'mocks', 'nostd-spin', 'nostd')):
    """feature configurations a property is decided on. `full` = the default features plus every additive one (critical-section, spin-lock,
    fragile, all mock-* features): cargo features are additive, so code keyed on `critical-section` must also be right when `std` is on."""
    cs = list(quick if tier == 'quick' else thorough)
    if tier != 'quick' and 'full' not in cs and 'nostd' in cs:
        cs.append('full')
    return cs


def load(chk, config):
    F = facts.load(config)
    if config not in chk.configs:
        chk.configs.append(config)
    if getattr(F, 'rename_log', None):
        chk.extra['renamed_items'] = list(F.rename_log)
        chk.explain('Items renamed since the reference tree were mapped back to their reference names before the rules ran (see renamed_items); reports use the reference names.')
    return F
