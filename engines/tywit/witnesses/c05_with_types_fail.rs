//@ expect: E0631
//@ mentions: type mismatch in closure arguments
#![allow(unused)]
// control for c05_with_types_twin: an answer function typed for the swapped instantiation must not type-check
use unimock::*;

#[unimock(api = StoreMock)]
pub trait Store<K: 'static> {
    fn put<V: 'static>(&self, key: K, value: V) -> u8;
}

pub fn swapped() -> impl Clause {
    StoreMock::put.with_types::<u8, u16>().each_call(matching!(_, _)).answers(&|_, key: u16, value: u8| 0)
}
