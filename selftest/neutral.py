"""Behaviour-preserving refactorings: every check must stay silent on each of them (false-alarm corpus).
Edits: (file, old, new) exact single-occurrence replacement, or ('re:<dir>', regex, repl) applied to every .rs under <dir>."""
from mutants import M, MUTANTS

ALL = ['C%02d' % i for i in range(1, 21)]
EV = 'src/eval.rs'
TD = 'src/teardown.rs'
LIB = 'src/lib.rs'
ASM = 'src/assemble.rs'
FM = 'src/fn_mocker.rs'


def N(id, edits, props=None):
    M('neutral-' + id, edits, silent=props or ALL)


N('rename-local', [(EV, '''                    |(pat_index, call_pattern)| match match_inputs(call_pattern, None) {
                        Ok(false) => None,
                        Ok(true) => Some(Ok((PatIndex(pat_index), call_pattern))),
                        Err(err) => Some(Err((PatIndex(pat_index), err))),
                    },''', '''                    |(idx, candidate)| match match_inputs(candidate, None) {
                        Ok(false) => None,
                        Ok(true) => Some(Ok((PatIndex(idx), candidate))),
                        Err(e) => Some(Err((PatIndex(idx), e))),
                    },''')])
N('scan-as-for-loop', [(EV, '''            PatternMatchMode::InAnyOrder => fn_mocker
                .call_patterns
                .iter()
                .enumerate()
                .filter_map(
                    |(pat_index, call_pattern)| match match_inputs(call_pattern, None) {
                        Ok(false) => None,
                        Ok(true) => Some(Ok((PatIndex(pat_index), call_pattern))),
                        Err(err) => Some(Err((PatIndex(pat_index), err))),
                    },
                )
                .next()
                .transpose()
                .map_err(|(pat_index, err)| self.map_pattern_error(err, fn_mocker, pat_index)),''', '''            PatternMatchMode::InAnyOrder => {
                for (pat_index, call_pattern) in fn_mocker.call_patterns.iter().enumerate() {
                    match match_inputs(call_pattern, None) {
                        Ok(false) => {}
                        Ok(true) => return Ok(Some((PatIndex(pat_index), call_pattern))),
                        Err(err) => return Err(self.map_pattern_error(err, fn_mocker, PatIndex(pat_index))),
                    }
                }
                Ok(None)
            }''')])
N('rename-private-fn', [('re:src', r'\bmatch_call_pattern\b', 'select_call_pattern')])
N('rename-private-fn2', [('re:src', r'\bnew_call_pattern\b', 'make_call_pattern')])
N('rename-private-fn3', [('re:src', r'\bfind_call_pattern_for_call_order\b', 'pattern_for_call_order')])
N('rename-field', [('re:src', r'\btorn_down\b', 'is_torn_down')])
N('rename-field2', [('re:src', r'\bcall_patterns\b', 'patterns_in_order')])
N('drop-merged-condition', [(LIB, '''        if self.torn_down {
            return;
        }

        if self.verify_in_drop {
            teardown::teardown_panic(self);
        }''', '''        if !self.torn_down && self.verify_in_drop {
            teardown::teardown_panic(self);
        }''')])
N('teardown-ge2', [(TD, 'if strong_count > 1 {', 'if strong_count >= 2 {')])
N('teardown-extract-helper', [(TD, '''    #[cfg(feature = "std")]
    if std::thread::current().id() != unimock.shared_state.original_thread {
        panic!''', '''    #[cfg(feature = "std")]
    if !on_original_thread(unimock) {
        panic!'''), (TD, '''#[track_caller]
pub(crate) fn teardown(unimock: &mut Unimock) -> Result<(), Vec<MockError>> {''', '''#[cfg(feature = "std")]
fn on_original_thread(unimock: &Unimock) -> bool {
    std::thread::current().id() == unimock.shared_state.original_thread
}

#[track_caller]
pub(crate) fn teardown(unimock: &mut Unimock) -> Result<(), Vec<MockError>> {''')])
N('teardown-verify-collect', [(TD, '''    if mock_errors.is_empty() {
        Ok(())
    } else {
        Err(mock_errors)
    }''', '''    if !mock_errors.is_empty() {
        return Err(mock_errors);
    }
    Ok(())''')])
N('find-as-position', [(FM, '''        self.call_patterns
            .iter()
            .enumerate()
            .find(|(_, pattern)| {
                pattern.ordered_call_index_range.start <= ordered_call_index
                    && pattern.ordered_call_index_range.end > ordered_call_index
            })
            .map(|(index, call_pattern)| (PatIndex(index), call_pattern))''', '''        let index = self.call_patterns.iter().position(|pattern| {
            pattern.ordered_call_index_range.start <= ordered_call_index
                && ordered_call_index < pattern.ordered_call_index_range.end
        })?;
        Some((PatIndex(index), &self.call_patterns[index]))''')])
N('range-contains', [(FM, '''                pattern.ordered_call_index_range.start <= ordered_call_index
                    && pattern.ordered_call_index_range.end > ordered_call_index''', '''                pattern.ordered_call_index_range.contains(&ordered_call_index)''')])
N('push-get-mut', [(ASM, '''        match self.fn_mockers.entry(mock_type_id) {
            Entry::Occupied(mut entry) => {
                if entry.get().pattern_match_mode != pattern_match_mode {''', '''        match self.fn_mockers.entry(mock_type_id) {
            Entry::Occupied(mut entry) => {
                let registered_mode = entry.get().pattern_match_mode;
                if registered_mode != pattern_match_mode {''')])
N('error-text', [(TD, 'Unimock cannot verify calls, because the original instance got dropped while there are clones still alive.', 'Unimock cannot verify calls: the original instance was dropped while clones of it are still alive.')], props=[p for p in ALL if p not in ()])
N('extra-field', [(FM, '''pub(crate) struct FnMocker {''', '''pub(crate) struct FnMocker {
    #[allow(dead_code)]
    pub(crate) generation: u32,'''), (ASM, '''                entry.insert(FnMocker {
                    info,''', '''                entry.insert(FnMocker {
                    generation: 0,
                    info,''')])
N('macro-rename-generated-ident', [('re:unimock_macros/src/matching', r'\breporter\b', 'mismatch_sink')])
N('statement-reorder', [(ASM, '''        let pattern_match_mode = builder.pattern_match_mode;
        let mock_type_id = info.type_id;
''', '''        let mock_type_id = info.type_id;
        let pattern_match_mode = builder.pattern_match_mode;
''')])

# ---- second batch ------------------------------------------------------------------------------------------------------
CT = 'src/counter.rs'
BUILD = 'src/build.rs'
N('counter-verify-if-chain', [(CT, '''        match self.expectation.exactness {
            Exactness::Exact => {
                if actual_calls.0 != lower_bound.0 {
                    let pattern = debug_fn();
                    errors.push(MockError::FailedVerification(format!("{path}: Expected {pattern} to match exactly {lower_bound}, but it actually matched {actual_calls}.")));
                }
            }
            Exactness::AtLeast | Exactness::AtLeastPlusOne => {
                if actual_calls.0 < lower_bound.0 {
                    let pattern = debug_fn();
                    errors.push(MockError::FailedVerification(format!("{path}: Expected {pattern} to match at least {lower_bound}, but it actually matched {actual_calls}.")));
                }
            }
        };''', '''        let exact = matches!(self.expectation.exactness, Exactness::Exact);
        if exact && actual_calls.0 != lower_bound.0 {
            let pattern = debug_fn();
            errors.push(MockError::FailedVerification(format!("{path}: Expected {pattern} to match exactly {lower_bound}, but it actually matched {actual_calls}.")));
        } else if !exact && actual_calls.0 < lower_bound.0 {
            let pattern = debug_fn();
            errors.push(MockError::FailedVerification(format!("{path}: Expected {pattern} to match at least {lower_bound}, but it actually matched {actual_calls}.")));
        }''')])
N('counter-flip-comparison', [(CT, 'if actual_calls.0 < lower_bound.0 {', 'if lower_bound.0 > actual_calls.0 {')])
N('rename-lower-bound', [('re:src', r'\blower_bound\b', 'required_calls')])
N('rename-type', [('re:src', r'\bFnMocker\b', 'MethodMocker')])
N('rename-private-field-reporter', [('re:src', r'\bmismatches\b', 'failures')])
N('rename-bump', [('re:src', r'\bbump_ordered_call_index\b', 'take_ordered_call_index')])
N('build-extract-helper', [(BUILD, '''        self.wrapper.push_returner_result(
            self.return_value
                .take()
                .unwrap()
                .into_return()
                .map(|r| r.into_returner()),
        );
        self.wrapper.quantify(times, counter::Exactness::Exact);
        QuantifiedResponse {''', '''        self.push_cloneable(times, counter::Exactness::Exact);
        QuantifiedResponse {'''), (BUILD, '''        self.wrapper.push_returner_result(
            self.return_value
                .take()
                .unwrap()
                .into_return()
                .map(|r| r.into_returner()),
        );
        self.wrapper.quantify(times, counter::Exactness::AtLeast);
        QuantifiedResponse {''', '''        self.push_cloneable(times, counter::Exactness::AtLeast);
        QuantifiedResponse {'''), (BUILD, '''            _repetition: AtLeast,
        }
    }
}

impl<F, T, O> Clause for QuantifyReturnValue<'_, F, T, O>''', '''            _repetition: AtLeast,
        }
    }

    fn push_cloneable(&mut self, times: usize, exactness: counter::Exactness)
    where
        T: IntoReturn<F::OutputKind>,
    {
        let return_value = self.return_value.take().unwrap();
        self.wrapper
            .push_returner_result(return_value.into_return().map(|r| r.into_returner()));
        self.wrapper.quantify(times, exactness);
    }
}

impl<F, T, O> Clause for QuantifyReturnValue<'_, F, T, O>''')])
N('assemble-match-mode', [(ASM, '''        if builder.pattern_match_mode == PatternMatchMode::InOrder {
            let exact_calls = builder''', '''        if let PatternMatchMode::InOrder = builder.pattern_match_mode {
            let exact_calls = builder''')])
N('assemble-range-literal', [(ASM, '''            ordered_call_index_range.start = self.current_call_index;
            ordered_call_index_range.end = self.current_call_index + exact_calls.0;

            self.current_call_index = ordered_call_index_range.end;''', '''            let start = self.current_call_index;
            let end = start + exact_calls.0;
            ordered_call_index_range = start..end;

            self.current_call_index = end;''')])
N('eval-fallback-match', [(EV, '''                return if self.info.has_default_impl {
                    Ok(EvalResult::CallDefaultImpl)
                } else if self.info.partial_by_default {
                    Ok(EvalResult::Unmock)
                } else {
                    match self.shared_state.fallback_mode {
                        FallbackMode::Error => Err(MockError::NoMockImplementation {
                            fn_call: self.fn_call(),
                        }),
                        FallbackMode::Unmock => Ok(EvalResult::Unmock),
                    }
                }''', '''                return match (
                    self.info.has_default_impl,
                    self.info.partial_by_default,
                    &self.shared_state.fallback_mode,
                ) {
                    (true, _, _) => Ok(EvalResult::CallDefaultImpl),
                    (false, true, _) => Ok(EvalResult::Unmock),
                    (false, false, FallbackMode::Error) => Err(MockError::NoMockImplementation {
                        fn_call: self.fn_call(),
                    }),
                    (false, false, FallbackMode::Unmock) => Ok(EvalResult::Unmock),
                }''')])
N('ctor-helper', [(LIB, '''    pub fn new_partial(setup: impl Clause) -> Self {
        Self::from_assembler(
            assemble::MockAssembler::try_from_clause(setup),
            FallbackMode::Unmock,
        )
    }''', '''    pub fn new_partial(setup: impl Clause) -> Self {
        let assembled = assemble::MockAssembler::try_from_clause(setup);
        Self::from_assembler(assembled, FallbackMode::Unmock)
    }''')])
N('macro-rename-internal-fn', [('re:unimock_macros/src', r'\brender_diagnostics_stmt\b', 'diagnostics_stmt')])
N('noop-binding', [(EV, '''        match self.match_call_pattern(fn_mocker, match_inputs)? {''', '''        let selected = self.match_call_pattern(fn_mocker, match_inputs)?;
        match selected {''')])

# ---- third batch -------------------------------------------------------------------------------------------------------
VC = 'src/value_chain.rs'
CP = 'src/call_pattern.rs'
N('chain-push-node-while', [(VC, '''        let mut cell = &self.root;
        loop {
            match cell.try_insert(new_node) {
                Ok(new_node) => {
                    return new_node;
                }
                Err((parent_node, node)) => {
                    new_node = node;
                    cell = &parent_node.next;
                }
            }
        }''', '''        let mut cell = &self.root;
        loop {
            let (occupant, rejected) = match cell.try_insert(new_node) {
                Ok(inserted) => return inserted,
                Err(pair) => pair,
            };
            new_node = rejected;
            cell = &occupant.next;
        }''')])
N('chain-drop-loop', [(VC, '''        if let Some(node) = self.root.take() {
            drop(node.value);
            let mut cell = node.next;

            while let Some(node) = cell.take() {
                drop(node.value);
                cell = node.next;
            }
        }''', '''        let mut next = self.root.take();
        while let Some(node) = next {
            drop(node.value);
            let mut cell = node.next;
            next = cell.take();
        }''')])
N('chain-push-value-inline', [(VC, '''        let node = self.push_node(Node::new(value));

        &node.value''', '''        &self.push_node(Node::new(value)).value''')])
N('next-responder-local', [(CP, '''        find_responder_by_call_index(&self.responders, self.call_counter.fetch_add())''', '''        let call_index = self.call_counter.fetch_add();
        find_responder_by_call_index(&self.responders, call_index)''')])
N('responder-lookup-match', [(CP, '''    Some(match index_result {
        Ok(index) => &responders[index].responder,
        Err(insert_index) => &responders[insert_index - 1].responder,''', '''    Some(match index_result {
        Err(insert_index) => &responders[insert_index - 1].responder,
        Ok(index) => &responders[index].responder,''')])
N('debug-location-match', [(CP, '''        if let Some(debug) = self.input_matcher.matcher_debug {
            debug::CallPatternLocation::Debug(debug)
        } else {
            debug::CallPatternLocation::PatIndex(pat_index)
        }''', '''        match self.input_matcher.matcher_debug {
            Some(debug) => debug::CallPatternLocation::Debug(debug),
            None => debug::CallPatternLocation::PatIndex(pat_index),
        }''')])
N('clone-field-order', [(LIB, '''            shared_state: self.shared_state.clone(),
            value_chain: Default::default(),
            default_impl_delegator_cell: Default::default(),
            original_instance: false,
            torn_down: false,
            verify_in_drop: self.verify_in_drop,
            #[cfg(not(feature = "std"))]
            panicked: private::MutexIsh::new(false),
        }
    }
}

impl AsRef<DefaultImplDelegator> for Unimock {''', '''            original_instance: false,
            torn_down: false,
            verify_in_drop: self.verify_in_drop,
            shared_state: alloc::Arc::clone(&self.shared_state),
            value_chain: value_chain::ValueChain::default(),
            default_impl_delegator_cell: Default::default(),
            #[cfg(not(feature = "std"))]
            panicked: private::MutexIsh::new(false),
        }
    }
}

impl AsRef<DefaultImplDelegator> for Unimock {''')])
N('as-ref-inline', [(LIB, '''        let delegator = self
            .default_impl_delegator_cell
            .get_or_init(|| alloc::Box::new(DefaultImplDelegator::__from_unimock(self.clone())));
        delegator.as_ref()''', '''        self.default_impl_delegator_cell
            .get_or_init(|| alloc::Box::new(DefaultImplDelegator::__from_unimock(self.clone())))''')])
N('rename-module', [('mv:', 'src/fn_mocker.rs', 'src/method_mocker.rs'), ('re:src', r'\bfn_mocker::', 'method_mocker::'), ('re:src', r'\bmod fn_mocker;', 'mod method_mocker;')])
N('rename-variant', [('re:src', r'\bAtLeastPlusOne\b', 'MoreThan')])
N('rename-enum', [('re:src', r'\bExactness\b', 'CountKind')])
N('teardown-early-exit-order', [(TD, '''    // skip verification if the thread panicked for any other reason.
    #[cfg(feature = "std")]
    if std::thread::panicking() {
        return Ok(());
    }

    let strong_count = Arc::strong_count(&unimock.shared_state);

    if strong_count > 1 {''', '''    // skip verification if the thread panicked for any other reason.
    #[cfg(feature = "std")]
    {
        let unwinding = std::thread::panicking();
        if unwinding {
            return Ok(());
        }
    }

    if Arc::strong_count(&unimock.shared_state) > 1 {''')])

# ---- fourth batch: output conversions, verify, error rendering ----------------------------------------------------------------
DOPT = 'src/output/deep/option.rs'
DVEC = 'src/output/deep/vec.rs'
DRES = 'src/output/deep/result.rs'
N('deep-option-output-map', [(DOPT, '''            Self::Some(val) => Some(Some(val.output()?)),
            Self::None => Some(None),''', '''            Self::Some(val) => val.output().map(Some),
            Self::None => Some(None),''')])
N('deep-option-into-map', [(DOPT, '''            Some(val) => Ok(AsReturn::Some(val.into_return()?)),
            None => Ok(AsReturn::None),''', '''            None => Ok(AsReturn::None),
            Some(val) => val.into_return().map(AsReturn::Some),''')])
N('deep-vec-output-collect', [(DVEC, '''        let mut out = Vec::new();
        for el in self.0.iter() {
            out.push(el.output()?);
        }

        Some(out)''', '''        self.0.iter().map(|el| el.output()).collect()''')])
N('deep-vec-output-capacity', [(DVEC, '''        let mut out = Vec::new();
        for el in self.0.iter() {''', '''        let mut out = Vec::with_capacity(self.0.len());
        for el in self.0.iter() {''')])
N('deep-result-output-map', [(DRES, '''            Self::Ok(val) => Some(Ok(val.output()?)),
            Self::Err(val) => Some(Err(val.output()?)),''', '''            Self::Ok(val) => val.output().map(Ok),
            Self::Err(val) => val.output().map(Err),''')])
N('verify-guard-flip', [(LIB, '''        if !self.original_instance {
            panic!("Called verify() on a cloned instance. Verify the original instance instead.");
        }

        teardown::teardown_panic(&mut self);''', '''        if self.original_instance {
            teardown::teardown_panic(&mut self);
        } else {
            panic!("Called verify() on a cloned instance. Verify the original instance instead.");
        }''')])
N('teardown-panic-join', [(TD, '''        let error_strings = errors
            .iter()
            .map(<MockError as ToString>::to_string)
            .collect::<Vec<_>>();
        panic!("{}", error_strings.join("\\n"));''', '''        let mut message = crate::alloc::String::new();
        for (index, error) in errors.iter().enumerate() {
            if index > 0 {
                message.push('\\n');
            }
            message.push_str(&error.to_string());
        }
        panic!("{}", message);''')])
N('rename-quantify', [('re:src', r'\bpush_returner_result\b', 'push_returner')])
N('rename-assembler-field', [('re:src', r'\bcurrent_call_index\b', 'next_ordered_slot')])
N('rename-shared-field', [('re:src', r'\bpanic_reasons\b', 'recorded_errors')])
N('rename-counter-field', [('re:src', r'\bactual_count\b', 'matched')])
