"""TYWIT: compile-fail witnesses with compiling twins, compiled (never run) against /repo's current tree."""
import concurrent.futures
import json
import os
import re
import subprocess

VERIF = os.path.abspath(os.path.join(os.path.dirname(__file__), '..', '..'))
WDIR = os.path.join(VERIF, 'engines', 'tywit', 'witnesses')


class TywitError(Exception):
    pass


def build_repo(features=()):
    """builds /repo's current tree and returns (rlib, [library search dirs]). Artifacts are kept per tree *content*: cargo names the
    workspace members' artifacts independently of where the tree lies and decides freshness by mtime, so a shared target directory
    would happily reuse the proc-macro built from another tree whose sources merely look older (a restored snapshot, an rsync copy)."""
    import fcntl
    import shutil
    import time
    import facts
    repo = os.environ.get('VERIF_REPO', '/repo')
    td = os.path.join(VERIF, '.cache', 'target', 'tywit')
    th = facts.tree_hash() + ('-' + '-'.join(features) if features else '')
    per_tree = os.path.join(VERIF, '.cache', 'tywit', th)
    deps = os.path.join(td, 'debug', 'deps')
    os.makedirs(os.path.join(VERIF, '.cache', 'tywit'), exist_ok=True)
    with open(os.path.join(VERIF, '.cache', 'tywit', 'lock'), 'w') as lk:
        fcntl.flock(lk, fcntl.LOCK_EX)
        try:
            done = os.path.join(per_tree, 'ok')
            if not os.path.exists(done):
                # force the two workspace members stale (third-party dependencies stay cached)
                fp = os.path.join(td, 'debug', '.fingerprint')
                if os.path.isdir(fp):
                    for d in os.listdir(fp):
                        if d.startswith('unimock-') or d.startswith('unimock_macros-'):
                            shutil.rmtree(os.path.join(fp, d), ignore_errors=True)
                cmd = ['cargo', 'build', '--offline', '--message-format=json', '-p', 'unimock', '--lib']
                if features:
                    cmd += ['--features', ','.join(features)]
                env = dict(os.environ, CARGO_TARGET_DIR=td, CARGO_NET_OFFLINE='true')
                env.pop('RUSTC_WORKSPACE_WRAPPER', None)
                r = subprocess.run(cmd, cwd=repo, env=env, capture_output=True, text=True)
                if r.returncode != 0:
                    raise TywitError('building /repo failed:\n' + r.stderr[-3000:])
                arts = []
                for line in r.stdout.splitlines():
                    try:
                        m = json.loads(line)
                    except ValueError:
                        continue
                    if m.get('reason') == 'compiler-artifact' and m.get('target', {}).get('name') in ('unimock', 'unimock_macros'):
                        # the hashed artifacts in deps/ (the un-hashed copies cargo "uplifts" next to them are shared by every tree)
                        arts += [f for f in m.get('filenames', []) if os.sep + 'deps' + os.sep in f]
                        arts += [f[:-6] + '.rlib' for f in m.get('filenames', []) if f.endswith('.rmeta') and os.sep + 'deps' + os.sep in f and os.path.exists(f[:-6] + '.rlib')]
                shutil.rmtree(per_tree, ignore_errors=True)
                os.makedirs(per_tree)
                for f in sorted(set(arts)):
                    shutil.copy2(f, os.path.join(per_tree, os.path.basename(f)))
                if not any(f.startswith('libunimock-') and f.endswith('.rlib') for f in os.listdir(per_tree)):
                    raise TywitError('rlib of unimock not found in cargo output')
                open(done, 'w').write('ok')
            os.utime(per_tree, None)
            # collect per-tree copies that have not been used for an hour
            base = os.path.join(VERIF, '.cache', 'tywit')
            for d in os.listdir(base):
                q = os.path.join(base, d)
                if os.path.isdir(q) and q != per_tree and time.time() - os.path.getmtime(q) > 3600:
                    shutil.rmtree(q, ignore_errors=True)
        finally:
            fcntl.flock(lk, fcntl.LOCK_UN)
    rlib = [os.path.join(per_tree, f) for f in os.listdir(per_tree) if f.startswith('libunimock-') and f.endswith('.rlib')][0]
    return rlib, [per_tree, deps]


def compile_one(path, rlib, deps, outdir):
    name = os.path.basename(path)[:-3]
    ldirs = []
    for d_ in (deps if isinstance(deps, (list, tuple)) else [deps]):
        ldirs += ['-L', 'dependency=' + d_]
    cmd = ['rustc', '--edition', '2021', '--crate-type', 'lib', '--emit=metadata', '--error-format=json'] + ldirs + [
           '--extern', 'unimock=' + rlib, '--crate-name', name, '-o', os.path.join(outdir, name + '.rmeta'), path]
    r = subprocess.run(cmd, capture_output=True, text=True)
    diags = []
    for line in r.stderr.splitlines():
        try:
            d = json.loads(line)
        except ValueError:
            continue
        if d.get('level') == 'error':
            diags.append({'code': (d.get('code') or {}).get('code'), 'message': d.get('message', ''), 'rendered': (d.get('rendered') or '')[:1500]})
    return name, r.returncode, diags


def run(prefix):
    """returns list of dicts {name, expect, mentions, ok, detail}"""
    rlib, deps = build_repo()
    outdir = os.path.join(VERIF, '.cache', 'tywit-out')
    os.makedirs(outdir, exist_ok=True)
    files = sorted(f for f in os.listdir(WDIR) if f.startswith(prefix) and f.endswith('.rs'))
    metas = {}
    for f in files:
        src = open(os.path.join(WDIR, f)).read()
        metas[f[:-3]] = {'expect': re.search(r'//@ expect: (\S+)', src).group(1), 'mentions': re.search(r'//@ mentions: (.*)', src).group(1).strip()}
    results = []
    with concurrent.futures.ThreadPoolExecutor(max_workers=12) as ex:
        futs = [ex.submit(compile_one, os.path.join(WDIR, f), rlib, deps, outdir) for f in files]
        for fu in futs:
            name, rc, diags = fu.result()
            m = metas[name]
            if m['expect'] == 'ok':
                ok = rc == 0
                detail = 'compiles' if ok else 'twin does not compile: %s' % '; '.join('%s %s' % (d['code'], d['message'][:120]) for d in diags[:2])
            else:
                codes = [d['code'] for d in diags if d['code']]
                alts = [a.strip() for a in m['mentions'].split(' | ')]
                hit = [d for d in diags if d['code'] == m['expect'] and any(a in d['message'] or a in d['rendered'] for a in alts)]
                ok = rc != 0 and bool(hit) and all(c == m['expect'] for c in codes)
                if rc == 0:
                    detail = 'compiles, but must be rejected with %s mentioning `%s`' % (m['expect'], m['mentions'])
                elif not hit:
                    detail = 'rejected for another reason: %s' % '; '.join('%s %s' % (d['code'], d['message'][:160]) for d in diags[:2])
                else:
                    detail = 'rejected: %s %s' % (hit[0]['code'], hit[0]['message'][:200])
            results.append({'name': name, 'expect': m['expect'], 'mentions': m['mentions'], 'ok': ok, 'detail': detail})
    return results
