"""Constructors and stores: what the clause builders, matchers and reporters put into the mock (C01 C02 C03 C04 C06 C13 C19)."""
import re
import symex
from symex import strip, show, is_call, field_path, mentions
from props import lifecycle as L

MODES = {'some_call': 'InAnyOrder', 'each_call': 'InAnyOrder', 'next_call': 'InOrder'}


def builder_constructors(chk, F, rule, cfg):
    n0 = len(chk.obligations)
    """MockFn::{some_call, each_call, next_call} and Each::call create builders with the documented pattern-match mode,
    the matcher built from the given matching function, and a pristine state (no responses, (0, AtLeast), index 0)."""
    for name, mode in MODES.items():
        fn = F.fn('MockFn::%s' % name)
        for p in symex.Interp(F).run(fn):
            wb = list(p.calls(r'::with_owned_builder$'))
            ok = len(wb) == 1
            got = None
            if ok:
                a = wb[0].data[2]
                m = strip(a[1])
                got = m[3] if m[0] == 'agg' else show(m)
                matcher = strip(a[0])
                okm = is_call(matcher, r'DynInputMatcher::from_matching_fn$') and mentions(matcher, lambda x: x == ('param', 0, 2))
                okr = p.outcome[0] == 'return' and strip(p.outcome[1])[0] == 'call' and strip(p.outcome[1])[3] == wb[0].data[3]
                ok = got == mode and okm and okr
            chk.ob(rule, 'MockFn::%s starts a %s pattern with the given matcher' % (name, mode), ok, config=cfg, fn=fn, site='mode', what='%s builds mode %s' % (name, got), found=got, expected=mode)
    for ty in ('DefineResponse', 'DefineMultipleResponses'):
        fns = [f for f in F.fns.values() if re.search(r'^build::%s::<.*>::with_owned_builder$' % ty, f.defp)]
        for fn in fns:
            for p in symex.Interp(F).run(fn):
                v = strip(p.outcome[1])
                w = strip(dict(v[4]).get('wrapper', ('unk', ''))) if v[0] == 'agg' else ('unk', '')
                # the wrapper (whatever its representation) owns the builder made from exactly (mode, matcher)
                news = [x for x in symex.subvalues(w) if is_call(x, r'DynCallPatternBuilder::new$')]
                inner = news[0] if len(set(x[3] for x in news)) == 1 else ('unk', '')
                ok = is_call(inner, r'DynCallPatternBuilder::new$') and strip(inner[2][0]) == ('param', 0, 2) and strip(inner[2][1]) == ('param', 0, 1) and not mentions(w, lambda x: x[0] == 'ref' and x[1][0][0] == 'ptr')
                chk.ob(rule, '%s::with_owned_builder keeps (mode, matcher) as given' % ty, ok, config=cfg, fn=fn, site='with_owned_builder', what='with_owned_builder %s' % show(inner)[:80], found=show(inner)[:160])
    nb = F.fn('build::dyn_builder::DynCallPatternBuilder::new')
    for p in symex.Interp(F, inline=lambda f, d, n: f.name in ('default', 'new') and 'counter::' in f.defp).run(nb):
        v = strip(p.outcome[1])
        d = dict(v[4]) if v[0] == 'agg' else {}
        ce = strip(d.get('count_expectation', ('unk', '')))
        ced = dict(ce[4]) if ce[0] == 'agg' else {}
        ok = d.get('pattern_match_mode') == ('param', 0, 1) and d.get('input_matcher') == ('param', 0, 2) and is_call(d.get('responders', ('unk', '')), r'Vec::new$') and \
            d.get('current_response_index') == ('c', 0) and strip(d.get('responder_error', ('unk', '')))[3:4] == ('None',) and \
            ced.get('minimum') == ('c', 0) and strip(ced.get('exactness', ('unk', '')))[3:4] == ('AtLeast',)
        chk.ob(rule, 'a new pattern builder is pristine: no responses, running index 0, expectation (0, AtLeast), no error', ok, config=cfg, fn=nb, site='builder-new', what='DynCallPatternBuilder::new %s' % show(v)[:120], found=show(v)[:300])
    ec = [f for f in F.fns.values() if re.search(r'^build::Each::<F>::call$', f.defp)]
    for fn in ec:
        for p in symex.Interp(F).run(fn):
            pushes = list(p.calls(r'Vec::push$'))
            ok = len(pushes) == 1 and field_path(pushes[0].data[2][0])[1][-1:] == ['patterns']
            el = strip(pushes[0].data[2][1]) if pushes else ('unk', '')
            okm = is_call(el, r'DynCallPatternBuilder::new$') and strip(el[2][0])[3:4] == ('InAnyOrder',) and mentions(el[2][1], lambda x: x == ('param', 0, 2))
            r = strip(p.outcome[1]) if p.outcome[0] == 'return' else ('unk', '')
            w = dict(r[4]).get('wrapper') if r[0] == 'agg' else None
            okw = w is not None and mentions(w, lambda x: is_call(x, r'<impl \[T\]>::last_mut$'))
            chk.ob(rule, 'Each::call appends one unordered pattern and hands out a builder for exactly that (last) pattern', ok and okm and okw, config=cfg, fn=fn, site='each-call', what='Each::call push=%s mode/matcher=%s last=%s' % (ok, okm, okw))
    st = F.fn('MockFn::stub')
    for p in symex.Interp(F).run(st):
        # stub: a fresh Each, the user's closure applied to it, returned
        r = p.outcome[1] if p.outcome[0] == 'return' else ('unk', '')
        ok = mentions(r, lambda x: is_call(x, r'build::Each::new$'))
        chk.ob(rule, 'stub() returns the Each it handed to the closure', ok, config=cfg, fn=st, site='stub', what='stub returns %s' % show(r)[:80])
    chk.floor(rule, 'builder constructor paths', len(chk.obligations) - n0, 8, config=cfg)


def matcher_storage(chk, F, rule, cfg):
    n0 = len(chk.obligations)
    fn = F.fn('private::Matching::func')
    for p in symex.Interp(F).run(fn):
        ws = [e for e in p.effects if e.kind == 'write' and e.data[0][1][-1:] == (('f', 'matching_fn'),)]
        ok = len(ws) == 1 and mentions(ws[0].data[1], lambda x: is_call(x, r'Box::new$') and strip(x[2][0]) == ('param', 0, 2))
        chk.ob(rule, 'Matching::func stores exactly the given matching function', ok, config=cfg, fn=fn, site='func', what='Matching::func stores %s' % ([show(w.data[1])[:80] for w in ws]))
    fm = F.fn('call_pattern::DynInputMatcher::from_matching_fn')
    for p in symex.Interp(F).run(fm):
        calls = [e for e in p.calls(r'ops::Fn(<Args>)?>?::call$|core::ops::Fn::call$')]
        ok = len(calls) == 1 and mentions(calls[0].data[2][0], lambda x: x == ('param', 0, 1))
        v = strip(p.outcome[1])
        d = dict(v[4]) if v[0] == 'agg' else {}
        okv = mentions(d.get('dyn_matching_fn', ('unk', '')), lambda x: x[0] == 'field' and x[2] == 'matching_fn') and mentions(d.get('matcher_debug', ('unk', '')), lambda x: x[0] == 'field' and x[2] == 'matcher_debug')
        chk.ob(rule, 'the stored matcher is what the matching function registered (function and debug info), the function is run once', ok and okv, config=cfg, fn=fm, site='from_matching_fn', what='from_matching_fn calls=%d stores=%s' % (len(calls), okv))
    pd = F.fn('private::Matching::pat_debug')
    for p in symex.Interp(F).run(pd):
        ws = [e for e in p.effects if e.kind == 'write' and e.data[0][1][-1:] == (('f', 'matcher_debug'),)]
        ok = len(ws) == 1
        if ok:
            inner = strip(ws[0].data[1])
            dbg = strip(inner[4][0][1]) if inner[0] == 'agg' and inner[4] else inner
            dd = dict(dbg[4]) if dbg[0] == 'agg' else {}
            ok = dd.get('pat_debug') == ('param', 0, 2) and dd.get('file') == ('param', 0, 3) and dd.get('line') == ('param', 0, 4)
        chk.ob('R19.4', 'Matching::pat_debug stores (text, file, line) as given', ok, config=cfg, fn=pd, site='pat_debug', what='pat_debug store')
    chk.floor(rule, 'matcher storage paths', len(chk.obligations) - n0, 3, config=cfg)


def reporter_storage(chk, F, rule, cfg):
    n0 = len(chk.obligations)
    kinds = {'pat_fail': 'Pattern', 'eq_fail': 'Eq', 'ne_fail': 'Ne'}
    for name, kind in kinds.items():
        fn = F.fn('private::MismatchReporter::%s' % name)
        for p in symex.Interp(F).run(fn):
            pushes = list(p.calls(r'Vec::push$'))
            ok = len(pushes) == 1 and field_path(pushes[0].data[2][0])[1][-1:] == ['mismatches']
            if ok:
                el = strip(pushes[0].data[2][1])
                parts = [x for _, x in el[4]] if el[0] == 'agg' else []
                idx = strip(parts[0]) if parts else ('unk', '')
                mm = strip(parts[1]) if len(parts) > 1 else ('unk', '')
                md = dict(mm[4]) if mm[0] == 'agg' else {}
                ok = idx[0] == 'agg' and idx[4] and idx[4][0][1] == ('param', 0, 2) and strip(md.get('kind', ('unk', '')))[3:4] == (kind,) and \
                    mentions(md.get('actual', ('unk', '')), lambda x: x == ('param', 0, 3)) and mentions(md.get('expected', ('unk', '')), lambda x: x == ('param', 0, 4))
            chk.ob(rule, 'MismatchReporter::%s records one %s mismatch under the given argument index with the given actual/expected texts' % (name, kind), ok, config=cfg, fn=fn, site=name, what='%s record' % name)
    cf = F.fn('mismatch::MismatchesBuilder::collect_from_reporter')
    paths = symex.Interp(F).run(cf)
    ext = [e for p in paths for e in p.calls(r'Extend<T>>?::extend$|Vec::extend\w*$')]
    if ext and not any(p.called(r'Iterator>?::next$') for p in paths):
        # `self.mismatches.extend(reporter.mismatches.into_iter().map(|(i, m)| (pat_index, i, m)))`: extend consumes the whole iterator in order
        for e in ext:
            own_src = lambda x: field_path(x) == (('param', 0, 3), ['mismatches'])  # noqa: E731
            names = L.pipeline_calls(e.data[2][1], own_src)
            ok = field_path(e.data[2][0])[1][-1:] == ['mismatches'] and names is not None and all(re.search(r'(IntoIterator( for [^>]*)?>?::into_iter|Iterator>?::map)$', x) for x in names)
            okc = False
            for x in symex.subvalues(e.data[2][1]):
                if is_call(x, r'Iterator>?::map$'):
                    c = strip(x[2][1])
                    if c[0] == 'agg' and c[1] == 'closure' and c[2] in F.fns:
                        ups = dict(c[4])
                        for q in symex.Interp(F).run(F.fns[c[2]]):
                            r = strip(q.outcome[1]) if q.outcome[0] == 'return' else ('unk', '')
                            parts = [y for _, y in r[4]] if r[0] == 'agg' else []
                            up_pat = [k for k, v in ups.items() if mentions(v, lambda y: y == ('param', 0, 2)) or strip(v) == ('ref', (('local', 0, 2), ()), False)]
                            okc = len(parts) == 3 and any(k in show(parts[0]) for k in (up_pat or list(ups))) and field_path(parts[1]) == (('param', 0, 2), ['0']) and field_path(parts[2]) == (('param', 0, 2), ['1']) and not list(F.fns[c[2]].calls())
            chk.ob(rule, 'the collector walks the reporter\'s own list directly (no skipping/reordering adapter)', ok, config=cfg, fn=cf, site='collect-iter', what='collect_from_reporter extends from %s' % (names,), found=names)
            chk.ob(rule, 'every reported mismatch is filed under the given pattern index, keeping its argument index', okc, config=cfg, fn=cf, site='collect', what='collect_from_reporter element (extend form)')
        chk.floor(rule, 'reporter storage paths', len(chk.obligations) - n0, 5, config=cfg)
        return
    L.loops_run_to_completion(chk, rule, cf, cfg, paths)
    for p in paths:
        for e in p.calls(r'Iterator>?::next$'):
            # the traversal is the reporter's own list, front to back, without an adapter in between
            ok = bool(re.search(r'vec::IntoIter<.*> as core::iter::Iterator>::next$', e.data[1])) and \
                mentions(e.data[2][0], lambda x: is_call(x, r'IntoIterator( for [^>]*)?>?::into_iter$') and field_path(x[2][0]) == (('param', 0, 3), ['mismatches']))
            chk.ob(rule, 'the collector walks the reporter\'s own list directly (no skipping/reordering adapter)', ok, config=cfg, fn=cf, site='collect-iter', what='collect_from_reporter iterates %s' % e.data[1][:80])
        for e in p.calls(r'Vec::push$'):
            el = strip(e.data[2][1])
            parts = [x for _, x in el[4]] if el[0] == 'agg' else []
            ok = len(parts) == 3 and strip(parts[0]) == ('param', 0, 2) and all(mentions(x, lambda y: y[0] == 'call' and re.search(r'Iterator>?::next$', y[1])) for x in parts[1:])
            chk.ob(rule, 'every reported mismatch is filed under the given pattern index, keeping its argument index', ok, config=cfg, fn=cf, site='collect', what='collect_from_reporter element')
    chk.floor(rule, 'reporter storage paths', len(chk.obligations) - n0, 5, config=cfg)


def push_value_mut(chk, F, rule, cfg):
    """push_mut as a whole (its private steps are part of it): the chain's root is replaced by a node built from this call's value, and
    what is lent is the downcast of exactly that node's `.value`, reached through the root cell of this chain"""
    n0 = len(chk.obligations)
    fn = F.method('value_chain::ValueChain', 'push_mut')
    vc_inline = lambda f_, d_, n_: f_.defp.startswith('value_chain::') and f_.kind in ('fn', 'assoc') and not re.search(r'Node::new$|Value::downcast_(ref|mut)$', f_.defp)  # noqa: E731
    for p in symex.Interp(F, inline=vc_inline).run(fn):
        ws = [e for e in p.effects if e.kind == 'write' and e.data[0][1][-1:] == (('f', 'root'),)]
        new_node = lambda v_: mentions(v_, lambda x: is_call(x, r'Node::new$') and mentions(x, lambda y: y == ('param', 0, 2)))  # noqa: E731
        ok = len(ws) == 1 and new_node(ws[0].data[1])
        if not ws:
            # the same replacement spelled mem::replace(&mut self.root, new node) (the old chain is handed to whoever releases it)
            rs = [e for e in p.calls(r'core::mem::replace$') if field_path(e.data[2][0]) == (('param', 0, 1), ['root'])]
            ok = len(rs) == 1 and new_node(rs[0].data[2][1])
        r = p.outcome[1] if p.outcome[0] == 'return' else ('unk', '')
        okr = mentions(r, lambda x: is_call(x, r'OnceCell(<T>)?::get_mut$') and field_path(x[2][0]) == (('param', 0, 1), ['root'])) and \
            mentions(r, lambda x: is_call(x, r'Value::downcast_mut$')) and \
            mentions(r, lambda y: (y[0] == 'field' and y[2] == 'value') or (y[0] == 'ref' and any(e == ('f', 'value') for e in y[1][1])))
        chk.ob(rule, 'the exclusive push replaces the chain with the new node and lends exactly that node\'s value', ok and okr, config=cfg, fn=fn, site='push_value_mut', what='push_mut root=%s ret=%s' % (ok, show(r)[:60]))
    chk.floor(rule, 'push_mut paths', len(chk.obligations) - n0, 1, config=cfg)
