"""C08 — a mock-induced panic anywhere makes final verification fail with that error."""
import re
import symex
from symex import show, is_call, strip, field_path, mentions, decision_variant
import tables
from props import lifecycle as L
from props.util import configs, load

LEVEL = 'other'

INLINE_LOCK = lambda f, d, n: True  # noqa: E731  (all local callees: lock wrapper, closures, extracted helpers)

LIST_DENY = re.compile(r'(::take$|::clear$|::drain$|::pop$|::truncate$|mem::take$|mem::replace$|mem::swap$|::retain\w*$|::remove$|'
                       r'::swap_remove$|::split_off$|::dedup\w*$|::set_len$)')


def _fn_item(c):
    """a function item passed where a closure is expected (`locked(core::mem::take)`): its path, else None"""
    c = strip(c)
    if c[0] == 'c' and isinstance(c[1], tuple) and c[1] and c[1][0] == 'fn':
        return str(c[1][1])
    return None


def final_read(chk, F, cfg, reader):
    """True iff `reader` (a function that empties the recorded-error list while reading it) can only run as the last access ever:
    its single call site is in teardown, on paths where the live-clone test has already established that this instance holds the
    only handle to the shared state (teardown has `&mut Unimock`, so no other handle can appear afterwards; `torn_down` keeps
    teardown from running twice)."""
    sites = F.callers_of(reader.defp)
    if len(sites) != 1 or sites[0][0].defp != 'teardown::teardown':
        return False
    td = sites[0][0]
    atom = L.teardown_atomizer(F, 'nostd' in cfg)
    seen = False
    for p in symex.Interp(F, inline=L.inline_small_bool(F)).run(td):
        for e in p.calls():
            if e.data[1] != reader.defp and not e.data[1].endswith('::' + reader.defp.rsplit('::', 1)[-1]):
                continue
            seen = True
            strong = {1, 2, 3, 4}
            orig = None
            for d in p.decisions[:e.ndec]:
                a = atom(d, p)
                if a and a is not L.IGNORE and a[0] == 'strong':
                    strong &= a[1]
                if a and a is not L.IGNORE and a[0] == 'original':
                    orig = a[1]
            if strong != {1} or orig != {1}:
                return False
    return seen


def mentions_reasons(v):
    return mentions(v, lambda x: (x[0] == 'field' and x[2] == 'panic_reasons') or
                    (x[0] == 'ref' and any(e == ('f', 'panic_reasons') for e in x[1][1])))


def eval_wiring(chk, F, rule, cfg):
    """private::eval = handle_error(eval::eval(..)); handle_error(Ok(v)) = v, handle_error(Err(e)) = induce_panic(e): the outcome of a call
    depends on nothing but its own evaluation result (no other state is consulted between evaluation and return)"""
    # private::eval hands eval::eval's result straight to handle_error
    pe = F.fn('private::eval')
    for p in symex.Interp(F).run(pe):
        he = list(p.calls(r'^Unimock::handle_error$'))
        ok = len(he) == 1 and is_call(strip(he[0].data[2][1]), r'^eval::eval$') and p.outcome[0] == 'return' and is_call(strip(p.outcome[1]), r'^Unimock::handle_error$')
        chk.ob(rule, 'private::eval = handle_error(eval::eval(..))', ok, config=cfg, fn=pe, site='wiring', what='eval result bypasses handle_error',
               found=[e.data[1] for e in p.calls()], expected='handle_error(self, eval::eval(self, inputs))')
    he = F.method('Unimock', 'handle_error')
    rows = tables.abstract(symex.Interp(F).run(he),
                           lambda d, p: ('result', {decision_variant(F, d)}) if strip(d.value) == ('discr', ('param', 0, 2), 'core::result::Result') and isinstance(decision_variant(F, d), str) else None,
                           lambda p: ('induce_panic(%s)' % show(list(p.calls(r'^Unimock::induce_panic$'))[0].data[2][1]) if p.called(r'^Unimock::induce_panic$') and p.outcome[0] == 'diverge'
                                      else ('value:%s' % show(p.outcome[1]) if p.outcome[0] == 'return' else p.outcome[0])))
    tables.check_table(chk, rule, he, rows, [
        ('Err(e) => induce_panic(e)', {'result': {'Err'}}, 'induce_panic((arg2 as Err).0)'),
        ('Ok(v) => v', {'result': {'Ok'}}, 'value:(arg2 as Ok).0'),
    ], config=cfg)



def records_before_panic(chk, F, rule, cfg, nostd):
    """on every path of induce_panic the error parameter itself is pushed to the shared list (under the lock) before the panic -
    whichever instance (original or clone) the failing call went through"""
    # ---- R08.2 push dominates the panic, pushed value is the error parameter
    ip = F.method('Unimock', 'induce_panic')
    paths = symex.Interp(F, inline=INLINE_LOCK).run(ip)
    chk.ob(rule, 'induce_panic has at least one path', len(paths) >= 1, config=cfg, fn=ip, site='paths', unrecognised=True, what='no paths')
    for p in paths:
        diverged = p.outcome[0] == 'diverge' and L.is_panic_entry(p.outcome[1])
        chk.ob(rule, 'induce_panic always ends in its panic', diverged, config=cfg, fn=ip, site='outcome', what='non-panicking path',
               found=str(p.outcome[:2]), expected='diverge via core::panicking')
        pushes = [e for e in p.calls(r'^std::vec::Vec::push$') if mentions_reasons(e.data[2][0])]
        good = [e for e in pushes if strip(e.data[2][1]) == ('param', 0, 2)]
        chk.ob(rule, 'the error is pushed to the shared panic_reasons list on every path before panicking', len(good) == 1, config=cfg,
               fn=ip, site='push', what='error not recorded on some path',
               found={'pushes': [show(e.data[2][1]) for e in pushes], 'decisions': [show(d.value) for d in p.decisions]},
               expected='exactly one Vec::push(&mut *panic_reasons, error) on every path')
        under_lock = any(True for _ in p.calls(r'Mutex::lock$')) or nostd
        chk.ob(rule, 'the push happens under the lock', under_lock, config=cfg, fn=ip, site='lock', what='push outside lock')
        if nostd:
            own_flag = lambda x: ((x[0] == 'ref' and any(el == ('f', 'panicked') for el in x[1][1]) and not any(el == ('f', 'shared_state') for el in x[1][1])) or  # noqa: E731
                                  (x[0] == 'field' and x[2] == 'panicked' and not mentions(x[1], lambda y: y[0] == 'field' and y[2] == 'shared_state')))
            w = [e for e in p.effects if e.kind == 'write' and e.data[1] == ('c', True) and mentions(e.data[0][0][1] if e.data[0][0][0] == 'ptr' else ('unk', ''), own_flag)]
            chk.ob(rule, 'no_std: induce_panic marks this very instance (not the shared state) as panicked before panicking', len(w) >= 1, config=cfg, fn=ip,
                   site='panicked', what='panicked flag not set', found=[show(e.data[1]) for e in p.effects if e.kind == 'write'], expected='*panicked = true')
    chk.sample({'fn': ip.defp, 'config': cfg, 'paths': len(paths), 'push': 'Vec::push(&mut *guard(panic_reasons), error)'})



def panic_message_is_the_error(chk, F, rule, cfg):
    """the text induce_panic panics with is the rendering of the very error it was handed (the failing call's own error): not of
    anything read back from the shared list, which also holds the errors of earlier calls and of other clones"""
    ip = F.method('Unimock', 'induce_panic')
    n = 0
    for p in symex.Interp(F, inline=INLINE_LOCK).run(ip):
        ps = list(p.calls(r'^core::panicking::(panic_fmt|panic_display|panic_explicit|panic_str)$|^std::rt::begin_panic'))
        if not ps:
            continue
        n += 1
        arg = ps[-1].data[2][0] if ps[-1].data[2] else ('unk', '')

        def is_error(x):
            return x == ('param', 0, 2) or (x[0] == 'ref' and x[1] == (('local', 0, 2), ()))
        rend = [x for x in symex.subvalues(arg) if is_call(x, r'(fmt::format|ToString>?::to_string|fmt::Arguments::new|rt::Argument::new_display|Display>?::fmt)$')]
        from_error = any(mentions(x, is_error) for x in rend) or mentions(arg, is_error)
        from_list = mentions_reasons(arg) or mentions(arg, lambda x: x[0] == 'index' or (x[0] == 'ref' and any(el[0] == 'idx' for el in x[1][1])))
        chk.ob(rule, 'the panic message is the rendering of the error of this very call (not of an entry read back from the shared list)', from_error and not from_list, config=cfg, fn=ip, site='message',
               what='panic message from error=%s, from the shared list=%s' % (from_error, from_list), found=show(arg)[:300], expected='Display of the `error` parameter')
    chk.floor(rule, 'panicking paths of induce_panic', n, 1, config=cfg)


def run(chk, tier):
    chk.explain('K1: census of explicit panic sites reachable from private::eval / Continuation::report / handle_error (only '
                'induce_panic\'s final panic and the lock-poison unwrap are allowed). K2/K6: in induce_panic (lock wrapper and '
                'closure inlined) every path pushes the very error parameter to the shared panic_reasons list before the '
                'diverging call. K1/K5: the list is append-only (writers: construction, that push; reader: a full clone). '
                'K3: teardown forwards the recorded errors before judging counts; teardown_panic/report render all of them.')
    for cfg in configs(tier, quick=('std', 'nostd'), thorough=('std', 'mocks', 'nostd-spin', 'nostd')):
        F = load(chk, cfg)
        nostd = 'nostd' in cfg
        # ---- R08.1 explicit panic census on the call path
        roots = [F.fn('private::eval'), F.fn('private::Continuation::report'), F.method('Unimock', 'handle_error')]
        reach = F.reachable_fns(roots)
        allowed = {
            ('Unimock::induce_panic', r'^core::panicking::(panic_fmt|panic_display|panic_explicit)$'): 'the one panic that reports a recorded error',
            ('private::MutexIsh::<T>::locked', r'^core::result::Result::unwrap$'): 'lock poisoning (cannot happen: R11.3)',
        }
        nsites = 0
        for d in sorted(reach):
            fn = F.fns[d]
            for body in [fn] + fn.promoted:
                for bb, name, t in L.panic_sites(body):
                    nsites += 1
                    owners = {d}
                    if symex.is_new_helper(fn):
                        # a step extracted into a helper of its own is judged as part of the reference-tree functions that call it
                        ups = set((c.root if c.kind in ('closure', 'promoted') else c.defp) for c, _, _ in F.callers_of(d))
                        owners = ups or owners
                    ok = all(any(o == ad and re.search(rx, name) for (ad, rx) in allowed) for o in owners)
                    chk.ob('R08.1', 'explicit panic site on the mocked-call path goes through induce_panic', ok, config=cfg, fn=body,
                           site='panic:%s' % name, what='unrecorded panic site', found={'callee': name, 'line': t.get('line')},
                           expected='only Unimock::induce_panic panics (after recording); everything else returns MockError')
        chk.call_sites += nsites
        chk.floor('R08.1', 'functions reachable from the mocked-call entry points', len(reach), 15, config=cfg)
        eval_wiring(chk, F, 'R08.1', cfg)

        records_before_panic(chk, F, 'R08.2', cfg, nostd)
        panic_message_is_the_error(chk, F, 'R08.2.msg', cfg)

        # ---- R08.3 append-only list
        acc = L.field_accesses(F, 'state::SharedState', 'panic_reasons')
        users = sorted(set(b.defp for b, _, _, _ in acc))
        nlock = 0
        for u in users:
            body = F.fns.get(u)
            if body is None:
                continue
            constructs = any(k == 'construct' for b, _, k, _ in acc if b.defp == u)
            for p in symex.Interp(F).run(body):
                for e in p.effects:
                    if e.kind != 'call' or not any(mentions_reasons(a) for a in e.data[2]):
                        continue
                    n = e.data[1]
                    if re.search(r'^private::MutexIsh::locked$', n):
                        nlock += 1
                        c = strip(e.data[2][1])
                        cf = F.fns.get(c[2]) if c[0] == 'agg' and c[1] == 'closure' else None
                        item = _fn_item(c)
                        if cf is None and item is None:
                            chk.ob('R08.3', 'closure run on the recorded-error list is a closure literal', False, config=cfg, fn=body,
                                   site='locked', what='opaque closure on panic_reasons', unrecognised=True, found=show(c))
                            continue
                        under_lock = [symex.callee_name(ct) for cbb, ct in cf.calls(include_cleanup=True)] if cf is not None else [item]
                        for cn in under_lock:
                            if LIST_DENY.search(cn):
                                # emptying the list is the same as reading it when nothing can read or write it afterwards
                                last = re.search(r'(mem::take|::drain|mem::replace)$', cn) and final_read(chk, F, cfg, body)
                                chk.ob('R08.3', 'the recorded-error list is append-only (it may be moved out by the very last read: teardown, sole handle)', bool(last), config=cfg, fn=cf or body, site='call:%s' % cn,
                                       what='list shrinks/replaced: %s' % cn.rsplit('::', 1)[-1], found=cn, expected='push / clone / read-only access; take only as the final read in teardown')
                            else:
                                okc = bool(re.search(r'(Vec::push$|Vec::extend\w*$|Clone>?::clone$|Vec::len$|Vec::is_empty$|::iter$|Deref>?::deref$|Vec::reserve$)', cn))
                                chk.ob('R08.3', 'operation on the recorded-error list under the lock is known (%s)' % cn.rsplit('::', 1)[-1], okc,
                                       config=cfg, fn=cf or body, site='call:%s' % cn, what='unknown list operation', unrecognised=True, found=cn)
                    elif not re.search(r'(Deref>?::deref$|MutexIsh::new$)', n):
                        chk.ob('R08.3', 'panic_reasons is only accessed through its lock', False, config=cfg, fn=body, site='call:%s' % n,
                               what='unlocked access to panic_reasons', unrecognised=True, found=n, expected='MutexIsh::locked(..)')
        chk.floor('R08.3', 'locked accesses to SharedState.panic_reasons', nlock, 2, config=cfg)
        cpr = F.fn('state::SharedState::clone_panic_reasons')
        last_read = None
        for p in symex.Interp(F, inline=INLINE_LOCK).run(cpr):
            for e in p.calls():
                n = e.data[1]
                if n.endswith('FnOnce::call_once') and e.data[2] and _fn_item(e.data[2][0]):
                    n = _fn_item(e.data[2][0])
                if LIST_DENY.search(n):
                    if last_read is None:
                        last_read = final_read(chk, F, cfg, cpr)
                    chk.ob('R08.3', 'reading the recorded errors does not consume them (except as the very last read: teardown, sole handle)', bool(last_read) and bool(re.search(r'mem::take$', n)), config=cfg, fn=cpr, site='call:%s' % n,
                           what='list consumed on read', found=n, expected='clone only')
            v = strip(p.outcome[1]) if p.outcome[0] == 'return' else ('unk', '')
            ok = is_call(v, r'Vec<T, A> as core::clone::Clone>::clone$') and mentions_reasons(v)
            if not ok and last_read:
                # the whole list moved out: mem::take(&mut *locked list), called directly or handed to `locked` as a function item
                tk = v if is_call(v, r'core::mem::take$') else None
                if tk is None and is_call(v, r'FnOnce::call_once$') and v[2] and _fn_item(v[2][0]) and re.search(r'core::mem::take$', _fn_item(v[2][0])):
                    tk = v
                ok = tk is not None and mentions_reasons(tk)
            chk.ob('R08.3', 'clone_panic_reasons returns a full clone of the list', ok, config=cfg, fn=cpr, site='return', what='not a full clone',
                   found=show(v), expected='Vec::clone(&*locked panic_reasons)')
        new = F.fn('state::SharedState::new')
        for p in symex.Interp(F).run(new):
            v = strip(p.outcome[1])
            pr = dict(v[4]).get('panic_reasons') if v[0] == 'agg' else None
            chk.ob('R08.3', 'a new shared state starts with an empty list', pr is not None and is_call(pr, r'MutexIsh::new$'), config=cfg, fn=new,
                   site='construct', what='panic_reasons initial value', found=show(pr) if pr else None)

        # ---- R08.4 teardown forwards all recorded errors before judging counts; they all reach the message
        fn, tpaths, trows = L.teardown_table(chk, F, 'R08.4', cfg)
        for r in trows:
            if r.outcome.startswith('err:reasons'):
                chk.ob('R08.4', 'recorded errors are returned without reading counters first', '+verify' not in r.outcome, config=cfg, fn=fn,
                       site='order', what='counts judged before forwarding', found=r.outcome)
        L.teardown_panic_table(chk, F, 'R08.4', cfg)
        if not nostd:
            L.teardown_report_table(chk, F, 'R08.4', cfg)

        # ---- R08.5 user panics are not recorded / swallowed: no catch_unwind anywhere
        n = 0
        for fn2 in F.fns.values():
            for bb, t in fn2.calls(include_cleanup=True):
                n += 1
                nm = symex.callee_name(t)
                if re.search(r'panic::catch_unwind$|panicking::r#?try$|panic::resume_unwind$|panic::set_hook$|panic::take_hook$', nm):
                    chk.ob('R08.5', 'the mock never intercepts panics', False, config=cfg, fn=fn2, site='call:%s' % nm, what='panic interception', found=nm)
        chk.call_sites += n
        chk.ob('R08.5', 'no catch_unwind / panic hook in the crate (%d call sites scanned)' % n, True, config=cfg, site='census')
        # Continuation::report: each continuation becomes its error, through induce_panic
        rep = F.fn('private::Continuation::report')
        rrows = tables.abstract(symex.Interp(F).run(rep),
                                lambda d, p: ('cont', {decision_variant(F, d)} if isinstance(decision_variant(F, d), str) else set(decision_variant(F, d)[1])) if strip(d.value)[0] == 'discr' and strip(strip(d.value)[1]) == ('param', 0, 1) else None,
                                lambda p: ('induce_panic(%s)' % strip(list(p.calls(r'^Unimock::induce_panic$'))[0].data[2][1])[3]) if p.called(r'^Unimock::induce_panic$') and p.outcome[0] == 'diverge' else str(p.outcome[0]))
        tables.check_table(chk, 'R08.1', rep, rrows, [
            ('Answer => NotAnswered', {'cont': {'Answer'}}, 'induce_panic(NotAnswered)'),
            ('Unmock => CannotUnmock', {'cont': {'Unmock'}}, 'induce_panic(CannotUnmock)'),
            ('CallDefaultImpl => NoDefaultImpl', {'cont': {'CallDefaultImpl'}}, 'induce_panic(NoDefaultImpl)'),
        ], config=cfg)
