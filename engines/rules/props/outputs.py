"""Rules over src/output/**: variant maps, traversal of Vec kinds, leaves (C12 C17)."""
import re
import symex
from symex import strip, show, is_call, field_path, mentions, decision_variant
from props import lifecycle as L
from props import evalcore as E

VARIANT_FNS = re.compile(r'^(<output::(deep|shallow)::(option|poll|result)::.* as output::GetOutput>::output|output::(deep|shallow)::(option|poll|result)::<impl output::(GetOutput|IntoReturn|IntoReturnOnce).*>::(output|into_return|into_return_once))$')
KNOWN_VARIANTS = {'Some', 'None', 'Ok', 'Err', 'Ready', 'Pending'}


def variant_maps(chk, F, rule, cfg):
    fns = [f for f in F.fns.values() if VARIANT_FNS.search(f.defp)]
    chk.floor(rule, 'variant-mapping conversion functions (option/poll/result x deep/shallow x output/into_return/into_return_once)', len(fns), 17, config=cfg)
    for fn in sorted(fns, key=lambda f: f.defp):
        is_output = fn.name == 'output'
        paths = symex.Interp(F).run(fn)
        chk.analysed(fn)
        seen_variants = set()
        if len(paths) == 1 and not paths[0].decisions and paths[0].outcome[0] == 'return':
            # no explicit variant switch: accepted iff it is a std variant-preserving pipeline over the input, or the `cannot lend` None
            r = strip(paths[0].outcome[1])
            if r[0] == 'agg' and r[3] == 'None' and is_output and 'Mutable' in (fn.impl_of or {}).get('self_ty', ''):
                chk.ob(rule, 'whole-value None is only produced by kinds that cannot lend (&mut leaves)', True, config=cfg, fn=fn, site='none')
                continue
            names = L.pipeline_calls(strip(r[4][0][1]), lambda x: x in (('param', 0, 1), ('deref', ('param', 0, 1))) or (x[0] == 'ref' and x[1][0] == ('ptr', ('param', 0, 1)))) if r[0] == 'agg' and r[4] else None
            ok = names is not None and all(re.search(r'^core::(option::Option|result::Result)::(map|as_ref|as_deref|map_err|as_mut)$', n) for n in names)
            chk.ob(rule, '%s: variant-preserving std pipeline (%s)' % (fn.name, ' <- '.join(n.rsplit('::', 1)[-1] for n in (names or ['?']))), ok, config=cfg, fn=fn, site='pipeline', unrecognised=(names is None),
                   what='switch-free conversion %s' % (names,), found=show(r)[:200], expected='Option::map / as_ref (std contract: Some->Some, None->None)')
            continue
        for p in paths:
            vin = None
            for d in p.decisions:
                v = strip(d.value)
                if v[0] == 'discr' and strip(v[1]) in (('param', 0, 1), ('deref', ('param', 0, 1))):
                    vin = decision_variant(F, d)
            if not isinstance(vin, str):
                chk.ob(rule, '%s branches on the variant of its input' % fn.name, False, config=cfg, fn=fn, site='input-variant', unrecognised=True, what='no variant switch on the input', found=[show(d.value) for d in p.decisions])
                continue
            seen_variants.add(vin)
            if p.outcome[0] != 'return':
                chk.ob(rule, 'conversion does not diverge', False, config=cfg, fn=fn, site='diverge:%s' % vin, what='conversion panics for %s' % vin)
                continue
            r = strip(p.outcome[1])
            success_variant = 'Some' if is_output else 'Ok'
            if is_call(r, r'FromResidual.*::from_residual$') and r[2] and strip(r[2][0])[0] == 'agg' and strip(r[2][0])[3] in ('None', 'Err'):
                r = strip(r[2][0])      # (`None?` / `Err(e)?` on a literal: the early return of that very value)
            if is_call(r, r'FromResidual.*::from_residual$'):
                # whole-value failure propagated from the conversion of *this arm's* payload
                ok = mentions(r, lambda x: x[0] == 'as' and x[2] == vin and strip(x[1]) in (('param', 0, 1), ('deref', ('param', 0, 1))))
                chk.ob(rule, '%s: a failing inner conversion of the %s payload fails the whole value (no partial value)' % (fn.name, vin), ok, config=cfg, fn=fn, site='propagate:%s' % vin, what='propagation for %s' % vin, found=show(r)[:200])
                continue
            if is_call(r, r'GetOutput>?::output$|IntoReturn(Once)?::into_return(_once)?$') and \
                    any(strip(d_.value)[0] == 'discr' and strip(strip(d_.value)[1]) == r and decision_variant(F, d_) in ('None', 'Err') for d_ in p.decisions):
                # the failed inner conversion itself, handed on as it is (`inner(payload).map(Variant)` read by contract): a whole-value failure
                ok = mentions(r, lambda x: x[0] == 'as' and x[2] == vin and strip(x[1]) in (('param', 0, 1), ('deref', ('param', 0, 1))))
                chk.ob(rule, '%s: a failing inner conversion of the %s payload fails the whole value (no partial value)' % (fn.name, vin), ok, config=cfg, fn=fn, site='propagate:%s' % vin, what='propagation for %s' % vin, found=show(r)[:200])
                continue
            if r[0] == 'agg' and r[3] == 'Err' and not is_output and r[4]:
                # explicit form of `?`: `Err(e) => Err(e)` with e the error of the inner conversion of this arm's payload
                pay = strip(r[4][0][1])
                ok = pay[0] == 'field' and strip(pay[1])[0] == 'as' and strip(pay[1])[2] == 'Err' and is_call(strip(strip(pay[1])[1]), r'IntoReturn(Once)?::into_return(_once)?$') and \
                    mentions(pay, lambda x: x[0] == 'as' and x[2] == vin and strip(x[1]) in (('param', 0, 1), ('deref', ('param', 0, 1))))
                chk.ob(rule, '%s: a failing inner conversion of the %s payload fails the whole value (no partial value)' % (fn.name, vin), ok, config=cfg, fn=fn, site='propagate:%s' % vin, what='propagation for %s' % vin, found=show(r)[:200])
                continue
            if r[0] == 'agg' and r[3] == 'None' and is_output:
                # kinds that cannot lend at all (&mut leaves)
                ok = 'Mutable' in (fn.impl_of or {}).get('self_ty', '') or 'mut_lending' in fn.defp
                for d in p.decisions:
                    a = E.discr_atom(F, d)
                    if a and a[1] == 'err' and is_call(a[0], r'GetOutput>?::output$') and mentions(a[0], lambda x: x[0] == 'as' and x[2] == vin):
                        ok = True   # explicit form of `?`: the inner leaf of this arm was exhausted
                chk.ob(rule, 'whole-value None is only produced by kinds that cannot lend (&mut leaves)', ok, config=cfg, fn=fn, site='none:%s' % vin, what='output() None for %s in %s' % (vin, fn.defp[:60]), found=fn.defp)
                continue
            if is_call(r, r'^core::(option::Option|result::Result)::map$') and len(r[2]) == 2 and strip(r[2][1])[0] == 'c' and isinstance(strip(r[2][1])[1], tuple) and strip(r[2][1])[1][0] == 'fn':
                # `inner_conversion(payload).map(Variant)`: std contract Some(v)/Ok(v) -> Some/Ok(Variant(v)), None/Err(e) -> None/Err(e)
                ctor = strip(r[2][1])[1][1].rsplit('::', 1)[-1]
                src = strip(r[2][0])
                conv_ok = is_call(src, r'GetOutput>?::output$|IntoReturn(Once)?::into_return(_once)?$') and \
                    mentions(src, lambda x: x[0] == 'as' and x[2] == vin and strip(x[1]) in (('param', 0, 1), ('deref', ('param', 0, 1))))
                chk.ob(rule, '%s: variant %s maps to %s, payload converted from that arm\'s payload' % (fn.name, vin, vin), ctor == vin and conv_ok, config=cfg, fn=fn, site='variant:%s' % vin,
                       what='%s -> map(%s) (payload from arm: %s)' % (vin, ctor, conv_ok), found={'in': vin, 'out': ctor, 'payload': show(src)[:160]}, expected={'out': vin})
                continue
            if not (r[0] == 'agg' and r[3] == success_variant and r[4]):
                chk.ob(rule, '%s returns Some/Ok(converted) or fails as a whole' % fn.name, False, config=cfg, fn=fn, site='shape:%s' % vin, unrecognised=True, what='result shape for %s: %s' % (vin, show(r)[:80]), found=show(r)[:200])
                continue
            inner = strip(r[4][0][1])
            if inner in (('param', 0, 1), ('deref', ('param', 0, 1))) and vin in ('None',):
                # the payload-free variant handed on as it is (`self.map(..)` read by contract: None stays None)
                chk.ob(rule, '%s: variant %s maps to %s, payload converted from that arm\'s payload' % (fn.name, vin, vin), True, config=cfg, fn=fn, site='variant:%s' % vin, what='%s handed on unchanged' % vin)
                continue
            if not (inner[0] == 'agg' and inner[3] in KNOWN_VARIANTS):
                chk.ob(rule, '%s(%s): the produced value has the same variant as the configured one' % (fn.name, vin), False, config=cfg, fn=fn, site='variant:%s' % vin,
                       what='%s -> not a %s constructor: %s' % (vin, vin, show(inner)[:80]), found=show(inner)[:200], expected='%s(..) built from the %s payload' % (vin, vin))
                continue
            vout = inner[3]
            same = vout == vin
            payload_ok = True
            if inner[4]:
                pay = inner[4][0][1]
                payload_ok = mentions(pay, lambda x: x[0] == 'as' and x[2] == vin and strip(x[1]) in (('param', 0, 1), ('deref', ('param', 0, 1))))
            chk.ob(rule, '%s: variant %s maps to %s, payload converted from that arm\'s payload' % (fn.name, vin, vin), same and payload_ok, config=cfg, fn=fn, site='variant:%s' % vin,
                   what='%s -> %s (payload from arm: %s)' % (vin, vout, payload_ok), found={'in': vin, 'out': vout, 'payload': show(inner)[:160]}, expected={'out': vin})
        chk.ob(rule, '%s handles both variants' % fn.defp[:70], len(seen_variants) == 2, config=cfg, fn=fn, site='exhaustive', unrecognised=True, what='variants seen %s' % sorted(seen_variants), found=sorted(seen_variants))


VEC_FNS = re.compile(r'^(<output::deep::vec::.* as output::GetOutput>::output|output::(deep|shallow)::vec::<impl output::(GetOutput|IntoReturn|IntoReturnOnce).*>::(output|into_return|into_return_once))$')
ELEM_CONV = re.compile(r'(GetOutput>?::output|IntoReturn(Once)?>?::into_return(_once)?|Borrow(<[^>]*>)?>?::borrow|AsRef(<[^>]*>)?>?::as_ref|Clone>?::clone|Box::new|Mutable|Lent|Reference)$')


def elem_conversion(F, f):
    """the function handed to `map` in a Vec conversion converts its element and nothing else: a conversion function item, or a
    closure literal that returns (a wrapping of) such a call on its own parameter on every path"""
    f = strip(f)
    if f[0] == 'c' and isinstance(f[1], tuple) and f[1] and f[1][0] == 'fn':
        from facts import strip_generics
        if ELEM_CONV.search(strip_generics(str(f[1][1]))):
            return True
        hf = F.fns.get(str(f[1][1])) or F.fns.get(strip_generics(str(f[1][1])))
        if hf is None or not symex.is_new_helper(hf) or hf.arg_count != 1:
            return False
        # a helper function that does not exist on the reference tree: judged by its body, like a closure literal
        f = ('agg', 'closure', hf.defp, '', ())
        self_param = 1
    else:
        self_param = 2
    if f[0] == 'agg' and f[1] == 'closure' and f[2] in F.fns:
        cf = F.fns[f[2]]
        ps = symex.Interp(F).run(cf)
        if not ps:
            return False
        for p in ps:
            if p.outcome[0] != 'return':
                return False
            names = [e.data[1] for e in p.calls()]
            if not names or not all(ELEM_CONV.search(n) or VEC_OK.search(n) for n in names) or not any(ELEM_CONV.search(n) for n in names):
                return False
            if not mentions(p.outcome[1], lambda x: x == ('param', 0, self_param) or (x[0] == 'field' and strip(x[1]) == ('param', 0, self_param)) or (x[0] == 'ref' and x[1][0] == ('ptr', ('param', 0, self_param)))):
                return False
        return True
    return False


VEC_OK = re.compile(r'(::iter$|IntoIterator( for [^>]*)?>?::into_iter$|Iterator::map$|Iterator::collect$|Result::map$|Option::map$|Iterator>?::next$|Deref>?::deref$|Try>?::branch$|Vec::new$|Vec::with_capacity$|Vec::push$|FromResidual.*::from_residual$|'
                    r'GetOutput>?::output$|IntoReturn(Once)?::into_return(_once)?$|Borrow>?::borrow$|AsRef>?::as_ref$|Box::new$|Vec::len$|Iterator::cloned$)')


def vec_traversals(chk, F, rule, cfg):
    fns = [f for f in F.fns.values() if VEC_FNS.search(f.defp)]
    chk.floor(rule, 'Vec conversion functions', len(fns), 6, config=cfg)
    for fn in sorted(fns, key=lambda f: f.defp):
        paths = symex.Interp(F).run(fn)
        chk.analysed(fn)
        for p in paths:
            for e in p.calls():
                n = e.data[1]
                if L.ORDER_DENY.search(n):
                    chk.ob(rule, 'Vec conversion traverses forward and keeps every element', False, config=cfg, fn=fn, site='call:%s' % n, what='%s in %s' % (n.rsplit('::', 1)[-1], fn.name), found=n,
                           expected='into_iter().map(convert).collect() / for + push')
                elif not VEC_OK.search(n):
                    chk.ob(rule, 'call in Vec conversion is known', False, config=cfg, fn=fn, site='call:%s' % n, unrecognised=True, what='unknown call %s' % n, found=n)
        loop_form = any(L.is_iter_next(strip(d.value)) for p in paths for d in p.decisions)
        if loop_form:
            L.loops_run_to_completion(chk, rule, fn, cfg, paths, fail_outcome=lambda p: is_call(strip(p.outcome[1]), r'from_residual$') if p.outcome[0] == 'return' else True)
            for p in paths:
                pushes = list(p.calls(r'Vec::push$'))
                somes = sum(1 for d in p.decisions if L.is_iter_next(strip(d.value)) and decision_variant(F, d) == 'Some')
                ok_paths = p.outcome[0] == 'return' and not is_call(strip(p.outcome[1]), r'from_residual$')
                if ok_paths:
                    chk.ob(rule, 'one output element per stored element', len(pushes) == somes, config=cfg, fn=fn, site='push-per-element', what='%d pushes for %d elements' % (len(pushes), somes), found={'pushes': len(pushes), 'elements': somes})
                    for e in pushes:
                        el = e.data[2][1]
                        ok = mentions(el, lambda x: L.is_iter_next(('discr', x)) if x[0] == 'call' else False)
                        chk.ob(rule, 'the pushed element is the conversion of the current element', ok, config=cfg, fn=fn, site='push-elem', what='pushed %s' % show(el)[:80], found=show(el)[:160])
        else:
            for p in paths:
                if p.outcome[0] != 'return':
                    continue
                r = p.outcome[1]
                srcs = [x for x in symex.subvalues(r) if is_call(x, r'Iterator::collect$')]
                ok = bool(srcs)
                if ok:
                    names = L.pipeline_calls(srcs[0], lambda x: x in (('param', 0, 1), ('deref', ('param', 0, 1))) or (x[0] == 'ref' and x[1][0] == ('ptr', ('param', 0, 1))))
                    ok = names is not None and all(re.search(r'(Iterator::collect|Iterator::map|IntoIterator( for [^>]*)?>?::into_iter|::iter|Deref>?::deref)$', n) for n in names)
                    chk.ob(rule, 'pipeline form: %s' % (' <- '.join(n.rsplit('::', 1)[-1] for n in names) if names else '?'), ok, config=cfg, fn=fn, site='pipeline', what='vec pipeline %s' % names, found=names)
                    for m_ in [x for x in symex.subvalues(srcs[0]) if is_call(x, r'Iterator::map$')]:
                        chk.ob(rule, 'the function mapped over the elements converts its element and nothing else', len(m_[2]) == 2 and elem_conversion(F, m_[2][1]), config=cfg, fn=fn, site='map-fn', what='mapped function %s' % show(m_[2][1])[:80],
                               found=show(m_[2][1])[:160])
                    # (what is done to the collected vector afterwards - `.map(AsReturn)`, `Ok(AsReturn(..))` - is wrapping by a constructor)
                    for w_ in [x for x in symex.subvalues(r) if is_call(x, r'(Result|Option)::map$') and len(x[2]) == 2]:
                        fw = strip(w_[2][1])
                        okw = fw[0] == 'c' and isinstance(fw[1], tuple) and fw[1][:1] == ('fn',) and str(fw[1][1]).rsplit('::', 1)[-1].split('<')[0] in ('AsReturn', 'Some', 'Ok', 'Mutable', 'Lent')
                        chk.ob(rule, 'the collected vector is only wrapped by a constructor', okw, config=cfg, fn=fn, site='wrap', what='wrapper %s' % show(fw)[:80], found=show(fw)[:120])
                else:
                    chk.ob(rule, 'Vec conversion is a loop or a map/collect pipeline', False, config=cfg, fn=fn, site='shape', unrecognised=True, what='vec conversion shape', found=show(r)[:200])


def _success_branch(F, d):
    var = decision_variant(F, d)
    return var in ('Continue', 'Some', 'Ok')


def field_path_any(v, name):
    """some projection on the way from v to its root is the field `name`"""
    return mentions(v, lambda x: (x[0] == 'field' and x[2] == name) or (x[0] == 'ref' and any(e == ('f', name) for e in x[1][1])))


def tuple_slots(chk, F, rule, cfg):
    fns = [f for f in F.fns.values() if re.search(r'output::deep::tuples::tup\d', f.defp) and f.kind == 'assoc' and f.name in ('output', 'into_return', 'into_return_once')]
    chk.floor(rule, 'tuple conversion functions', len(fns), 12, config=cfg)
    for fn in sorted(fns, key=lambda f: f.defp):
        n = len([g for g in fn.generics if re.match(r'K\d', g)])
        paths = symex.Interp(F).run(fn)
        ok_paths = [p for p in paths if p.outcome[0] == 'return' and not is_call(strip(p.outcome[1]), r'from_residual$')]
        chk.ob(rule, 'tuple conversion has one successful path', len(ok_paths) == 1, config=cfg, fn=fn, site='paths', unrecognised=len(ok_paths) != 1, what='%d success paths' % len(ok_paths))
        for p in ok_paths:
            r = strip(p.outcome[1])
            inner = strip(r[4][0][1]) if r[0] == 'agg' and r[4] else ('unk', '')
            fields = inner[4] if inner[0] == 'agg' else ()
            ok = len(fields) == n
            for i, (nm, v) in enumerate(fields):
                src = [x for x in symex.subvalues(v) if (x[0] == 'field' and strip(x[1]) in (('param', 0, 1), ('deref', ('param', 0, 1))))]
                idxs = sorted(set(x[2] for x in src))
                ok = ok and idxs == [str(i)]
            chk.ob(rule, 'slot i of the produced tuple is the conversion of slot i of the configured tuple (arity %d)' % n, ok, config=cfg, fn=fn, site='slots', what='tuple slots of %s' % fn.defp[:60], found=show(inner)[:300])
        if fn.name == 'output':
            # all-or-nothing: an element is only asked for its output (which *takes* a single-use leaf) after every earlier element
            # has produced one - a request that is going to fail must not consume later leaves
            for p in paths:
                convs = [e for e in p.effects if e.kind == 'call' and re.search(r'GetOutput>?::output$', e.data[1])]
                ok_sc = True
                for k, e in enumerate(convs):
                    before = p.decisions[:e.ndec]
                    for c in convs[:k]:
                        cv = ('call', c.data[1], c.data[2], c.data[3])
                        decided = any(mentions(d.value, lambda x: x == cv) and _success_branch(F, d) for d in before)
                        ok_sc = ok_sc and decided
                chk.ob(rule, 'tuple output is all-or-nothing: element i+1 is only consulted once element i has produced its output (arity %d)' % n, ok_sc, config=cfg, fn=fn, site='short-circuit',
                       what='tuple output consults later elements before earlier ones succeeded', found=[e.data[1].rsplit('::', 2)[-2:] for e in convs][:4])


def leaves(chk, F, rule, cfg):
    lent = F.method('output::lending::Lent', 'output', 'output::GetOutput')
    for p in symex.Interp(F).run(lent):
        r = strip(p.outcome[1])
        ok = r[0] == 'agg' and r[3] == 'Some' and mentions(r, lambda x: is_call(x, r'Borrow>?::borrow$')) and mentions(r, lambda x: x[0] == 'ref' and x[1][0] == ('ptr', ('param', 0, 1)) and x[1][1][:1] == (('f', '0'),))
        chk.ob(rule, 'a lent leaf is a borrow of the box stored in the mock', ok, config=cfg, fn=lent, site='lent', what='Lent::output %s' % show(r)[:100], found=show(r)[:200])
    ref = F.method('output::static_ref::Reference', 'output', 'output::GetOutput')
    for p in symex.Interp(F).run(ref):
        r = strip(p.outcome[1])
        ok = r[0] == 'agg' and r[3] == 'Some' and field_path(r[4][0][1]) == (('param', 0, 1), ['0'])
        chk.ob(rule, 'a static leaf is the stored &\'static reference', ok, config=cfg, fn=ref, site='static', what='Reference::output %s' % show(r)[:100], found=show(r)[:200])
    own = F.method('output::owning::Owned', 'output', 'output::GetOutput')
    for p in symex.Interp(F).run(own):
        r = strip(p.outcome[1])
        # `(*self.0)()` (the dyn Fn) or `(self.0)()` (through Box's Fn impl): either way the stored closure, called with no arguments
        ok = is_call(r, r'core::ops::Fn(<Args>)?>?::call$') and r[2] and mentions(r[2][0], lambda x: x == ('param', 0, 1)) and field_path_any(r[2][0], '0')
        chk.ob(rule, 'an owned leaf is whatever the stored closure yields (single-use take or clone, see R12.2)', ok, config=cfg, fn=own, site='owned', what='Owned::output %s' % show(r)[:100], found=show(r)[:200])
    ml = F.method('output::mut_lending::MutLent', 'output', 'output::GetOutput')
    for p in symex.Interp(F).run(ml):
        r = strip(p.outcome[1])
        chk.ob(rule, '&mut leaves hold no configured value (answers only)', r[0] == 'agg' and r[3] == 'None', config=cfg, fn=ml, site='mutlent', what='MutLent::output %s' % show(r)[:60])


def conversion_flavour(chk, F, rule, cfg):
    """the multi-use conversion of a composite converts its parts with the multi-use conversion (never the single-use one)"""
    n = 0
    for fn in F.fns.values():
        if fn.name != 'into_return' or not re.search(r'^output::', fn.defp):
            continue      # (includes a provided body of the trait method itself, if it ever gets one)
        for b in [fn] + F.closures_of(fn):
            for bb, t in b.calls(include_cleanup=True):
                nm = symex.callee_name(t)
                if re.search(r'IntoReturn(Once)?::into_return(_once)?$', nm):
                    n += 1
                    ok = nm.endswith('IntoReturn::into_return')
                    chk.ob(rule, 'multi-use conversion of a composite converts every part with the multi-use (cloning) conversion', ok, config=cfg, fn=b, site='part-conversion', what='%s uses %s for a part' % (fn.defp[:70], nm.rsplit('::', 1)[-1]),
                           found=nm, expected='output::IntoReturn::into_return')
    chk.floor(rule, 'part conversions inside multi-use composite conversions', n, 8, config=cfg)
    # every multi-use impl brings its own conversion: none inherits a trait-provided body
    multi = [im for im in F.impls if im.get('trait') == 'output::IntoReturn']
    for im in multi:
        own = [it for it in im.get('items', []) if it.get('name') == 'into_return']
        chk.ob(rule, 'the multi-use conversion impl for %s defines into_return itself' % im['self_ty'][:50], len(own) == 1, config=cfg, site='impl-own:%s|%s' % (im['self_ty'][:60], im.get('trait_ref', '')[:80]),
               what='IntoReturn impl for %s (%s) has no into_return of its own' % (im['self_ty'][:60], im.get('trait_ref', '')[:60]), found=[it.get('name') for it in im.get('items', [])])
    chk.floor(rule, 'multi-use conversion impls', len(multi), 10, config=cfg)
