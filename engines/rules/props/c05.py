"""C05 — #[unimock] impls forward arguments, receiver and result unchanged."""
from props.util import configs, load
from props import evalcore as E
from xpand import rules as X

LEVEL = 'translation_validation'


def run(chk, tier):
    chk.explain('Translation validation of the macro on a generated grammar of trait shapes (receiver x arity 0..5 x parameter kinds x return '
                'kinds x generics x sync/async fn/-> impl Future x api forms x required/provided x unmock forms): the harness is compiled '
                'against /repo\'s current tree and the MIR of every generated method is compared with the grammar point: one evaluation of '
                'the method\'s own MockFn (not in a loop, inside the future for async), receiver and parameters in declaration order '
                '(Impossible only for `&mut T<\'_>`), Return arm yields the output, Answer arm calls the stored closure with (receiver, '
                'handed-back inputs positionally) and returns its result, every other continuation is an Unmock / default-impl arm or is '
                'reported. Runtime half (R05.6): eval::eval only borrows the inputs and hands them back unchanged.')
    X.check_traits(chk, tier, chk.seed, {'C05'})
    # R05.9 `with_types::<..>()` names the instantiation the generated method evaluates for the same type arguments in declaration order
    # (type-level witness, compiled against this tree, never run)
    import tywit
    try:
        rs = tywit.run('c05_')
    except tywit.TywitError as e:
        chk.ob('R05.9', 'witness harness builds /repo', False, site='build', unrecognised=True, what='tywit build failed', found=str(e)[-800:])
        rs = []
    for r in rs:
        chk.ob('R05.9', 'witness %s: %s' % (r['name'], 'must not type-check (%s)' % r['expect'] if r['expect'] != 'ok' else 'the turbofish of with_types binds trait-level parameters first, then the method\'s, in declaration order (must compile)'), r['ok'],
               site='witness:%s' % r['name'], what='witness %s: %s' % (r['name'], r['detail'][:120]), found=r['detail'], expected=r['expect'])
    chk.floor('R05.9', 'with_types witnesses', len(rs), 2)
    F = load(chk, 'std')
    E.eval_table(chk, F, 'R05.6', 'std')
    E.lazy_rendering(chk, F, 'R05.7', 'std')
    from props import c08
    c08.eval_wiring(chk, F, 'R05.8', 'std')
    # R05.13 the matcher is shown the caller's arguments on every call - whatever their types or sizes (CallPattern::match_inputs runs the
    # stored matcher on the inputs and returns its verdict; shared with C06/C01)
    from props.c06 import match_inputs
    match_inputs(chk, F, 'R05.13', 'std')
    # R05.12 the arguments reach what the resolution order says they reach (clause > default body > partial-by-default > fallback mode): a provided
    # method without a clause hands them to its default body in every kind of mock, and through it to the required methods' matchers
    E.eval_dyn_table(chk, F, 'R05.12', 'std')
    # R05.11 the hand-written forwarders of the delegation helper (Display / Debug behind mock-core) hand the caller's arguments - the very
    # Formatter, with its width / fill / flags - to the mock's own method and return its result (shared with C15/C20)
    from props import c20
    c20.supertrait_forwarders(chk, load(chk, 'mocks'), 'R05.11', 'mocks')
    # R05.10 'returns the answer's result unchanged' for borrowed return kinds: the only way an answer can produce a borrow is make_ref,
    # which must lend exactly the value it was given (shared with C13: push_node returns the node inserted for this call's value)
    from props import c13
    c13.push_node(chk, F, 'R05.10', 'std')
