"""C03 — verification fails exactly when an expectation is unmet, and names each one."""
import re
import symex
from symex import strip, show, is_call, field_path, mentions, linear, decision_variant, as_comparison
from props import evalcore as E, lifecycle as L, builder as B
from props.util import configs, load

LEVEL = 'other'


def eval_cmp_d(cmp, d, a_pred, b_pred):
    """truth of comparison `cmp` when (a - b) == d, a/b identified by predicates on the symbolic terms; None if not of that form"""
    op, l, r = cmp
    ll, rr = linear(l), linear(r)
    if ll is None or rr is None:
        return None
    terms = dict(ll[0])
    for s, c in rr[0].items():
        terms[s] = terms.get(s, 0) - c
    terms = {s: c for s, c in terms.items() if c}
    k = ll[1] - rr[1]
    if len(terms) != 2:
        return None
    a = [s for s in terms if a_pred(s)]
    b = [s for s in terms if b_pred(s)]
    if len(a) != 1 or len(b) != 1 or a[0] == b[0]:
        return None
    ca, cb = terms[a[0]], terms[b[0]]
    if (ca, cb) == (1, -1):
        return symex.cmp_holds(op, d + k)
    if (ca, cb) == (-1, 1):
        return symex.cmp_holds(op, -d + k)
    return None


def is_actual(s):
    return is_call(s, r'Atomic\w*::load$') and field_path(s[2][0])[1][-1:] == ['actual_count']


def is_minimum(s):
    return field_path(s)[1][-2:] == ['expectation', 'minimum'] or field_path(s)[1][-1:] == ['minimum']


def run(chk, tier):
    chk.explain('K3+K4: CallCounter::verify (lower_bound inlined) is evaluated on every region of the partition of d = actual - minimum '
                'x exactness and must push exactly one error iff the quantifier is violated (Exact: d != 0, AtLeast: d < 0, AtLeastPlusOne: d <= 0); '
                'K5: FnMocker::verify and teardown traverse all patterns / all methods to exhaustion with one error vector, the never-called '
                'rule fires iff the summed counts are 0; all errors reach the panic text / report; the builder stores the documented '
                '(minimum, exactness) pairs which move into the counter unchanged.')
    for cfg in configs(tier, thorough=('std', 'mocks', 'nostd-spin', 'nostd')):
        F = load(chk, cfg)
        counter_verify(chk, F, 'R03.1', cfg)
        fnmocker_verify(chk, F, 'R03.2', cfg)
        fn, paths, rows = L.teardown_table(chk, F, 'R03.3', cfg)
        L.loops_run_to_completion(chk, 'R03.3', fn, cfg, paths)
        teardown_verifies_all(chk, F, 'R03.3', cfg, fn, paths)
        L.teardown_panic_table(chk, F, 'R03.3', cfg)
        if 'nostd' not in cfg:
            L.teardown_report_table(chk, F, 'R03.3', cfg)
        B.quantify_arith(chk, F, 'R03.4', cfg)
        B.api_table(chk, F, 'R03.4', cfg)
        into_counter(chk, F, 'R03.4', cfg)
        from props import ctor
        ctor.builder_constructors(chk, F, 'R03.4.ctor', cfg)
        efn, epaths, erows = E.eval_dyn_table(chk, F, 'R03.5.table', cfg)
        E.counting_discipline(chk, F, 'R03.5', cfg, efn, erows)


def counter_verify(chk, F, rule, cfg):
    fn = F.fn('counter::CallCounter::verify')
    inline = lambda f, d, n: f.kind in ('fn', 'assoc') and len(f.blocks) < 20  # noqa: E731
    paths = symex.Interp(F, inline=inline).run(fn)
    chk.analysed(fn)
    # which parameter is what, by type (not by position): the error sink is the `&mut Vec<..MockError..>`, the method's identity is the
    # `&MockFnInfo` (or the Trait::method path taken out of it)
    ERRS = next((i for i in range(1, fn.arg_count + 1) if re.search(r'^&mut .*Vec<.*MockError', fn.locals[i]['ty'])), 4)
    WHO = next((i for i in range(1, fn.arg_count + 1) if re.search(r'MockFnInfo|TraitMethodPath', fn.locals[i]['ty'])), 2)
    variants = [v['name'] for v in F.adt('counter::Exactness')['variants']]
    chk.ob(rule, 'Exactness has the three documented variants', set(variants) == {'Exact', 'AtLeast', 'AtLeastPlusOne'}, config=cfg, site='exactness', unrecognised=True,
           what='Exactness variants %s' % variants, found=variants)
    want = {'Exact': lambda d: d != 0, 'AtLeast': lambda d: d < 0, 'AtLeastPlusOne': lambda d: d <= 0}
    for ex in variants:
        for d in (-2, -1, 0, 1, 2):
            outs = []
            unrec = None
            for p in paths:
                feasible = True
                for dec in p.decisions:
                    v = strip(dec.value)
                    if v[0] == 'discr' and field_path(v[1])[1][-1:] == ['exactness']:
                        var = decision_variant(F, dec)
                        if var != ex and not (isinstance(var, tuple) and ex in var[1]):
                            feasible = False
                            break
                        continue
                    inner, t = L.truth_of(dec)
                    cmp = as_comparison(inner) if t is not None else None
                    val = eval_cmp_d(cmp, d, is_actual, is_minimum) if cmp else None
                    if val is None:
                        unrec = show(dec.value)
                        continue
                    if val != t:
                        feasible = False
                        break
                if feasible:
                    pushes = [e for e in p.calls(r'Vec::push$') if strip(e.data[2][0])[0] == 'ref' and strip(e.data[2][0])[1][0] == ('ptr', ('param', 0, ERRS))]
                    outs.append((len(pushes), p, pushes))
            if unrec:
                chk.ob(rule, 'every branch of CallCounter::verify is on exactness or a comparison of actual with minimum', False, config=cfg, fn=fn, site='branch', unrecognised=True,
                       what='unrecognised branch', found=unrec)
            ns = sorted(set(o[0] for o in outs))
            expect = [1 if want[ex](d) else 0] if ex in want else None
            chk.ob(rule, 'verdict(%s, actual - minimum = %+d): %s' % (ex, d, 'one error' if expect == [1] else 'silent'), ns == expect, config=cfg, fn=fn, site='verdict(%s,%+d)' % (ex, d),
                   what='verdict(%s,%+d) -> %s errors' % (ex, d, ns), found={'errors_pushed': ns, 'paths': len(outs)}, expected={'errors_pushed': expect})
            for n, p, pushes in outs:
                rv = strip(p.outcome[1]) if p.outcome[0] == 'return' else ('unk', '')
                inner = strip(rv[4][0][1]) if rv[0] == 'agg' and rv[4] else rv
                chk.ob(rule, 'verify returns the actual count unchanged', is_actual(inner), config=cfg, fn=fn, site='return', what='returned count %s' % show(inner)[:80], found=show(inner))
                for e in pushes:
                    msg = e.data[2][1]
                    okv = strip(msg)[0] == 'agg' and strip(msg)[3] == 'FailedVerification'
                    has_path = mentions(msg, lambda x: x[0] == 'ref' and x[1][0] == ('ptr', ('param', 0, WHO)) and x[1][1][-1:] == (('f', 'path'),)) or \
                        mentions(msg, lambda x: x == ('param', 0, WHO) or (x[0] == 'ref' and x[1] == (('local', 0, WHO), ())))      # (handed the path itself instead of the info that contains it)
                    has_pat = mentions(msg, lambda x: is_call(x, r'core::ops::(Fn::call|FnMut::call_mut|FnOnce::call_once)$'))
                    has_actual = mentions(msg, is_actual)
                    has_bound = mentions(msg, lambda x: is_minimum(x))
                    chk.ob('R03.5', 'the error line names the method path, the pattern, the bound and the actual count', okv and has_path and has_pat and has_actual and has_bound, config=cfg,
                           fn=fn, site='message(%s)' % ex, what='message payload path=%s pattern=%s bound=%s actual=%s' % (has_path, has_pat, has_bound, has_actual),
                           found={'path': has_path, 'pattern': has_pat, 'bound': has_bound, 'actual': has_actual})
    chk.sample({'fn': fn.defp, 'config': cfg, 'table': 'Exact: error iff d!=0; AtLeast: iff d<0; AtLeastPlusOne: iff d<=0 (d = actual - minimum), checked at d in -2..2'})


def fnmocker_verify_pipeline(chk, F, rule, cfg, fn, paths):
    """`let total: usize = self.call_patterns.iter().enumerate().map(|(i, p)| p.call_counter.verify(.., errors).0).sum();
    if total == 0 { errors.push(MockNeverCalled) }` - the iterator form of the accumulating loop."""
    own = lambda y: y[0] == 'ref' and y[1][1][-1:] == (('f', 'call_patterns'),) and y[1][0] == ('ptr', ('param', 0, 1))  # noqa: E731
    ok_any = False
    for p in paths:
        sums = list(p.calls(r'Iterator>?::sum$'))
        if len(sums) != 1:
            return False
        total = ('call', sums[0].data[1], sums[0].data[2], sums[0].data[3])
        names = L.pipeline_calls(total, own)
        fwd = names is not None and all(re.search(r'(Iterator>?::(sum|map|enumerate)|IntoIterator( for [^>]*)?>?::into_iter|::iter|Deref>?::deref)$', n) for n in names)
        chk.ob(rule, 'every pattern of the method is verified: the counts are summed over a forward-complete traversal of this method\'s own patterns', fwd, config=cfg, fn=fn, site='verify-pipeline',
               what='verify pipeline %s' % (names,), found=names)
        # the mapping closure: one CallCounter::verify per element, on the element's own counter, errors = the caller's vector, result = that call's count
        for e in p.calls(r'Iterator>?::map$'):
            c = strip(e.data[2][1])
            if not (c[0] == 'agg' and c[1] == 'closure' and c[2] in F.fns):
                chk.ob(rule, 'the per-pattern step is a closure literal', False, config=cfg, fn=fn, site='verify-step', unrecognised=True, what='opaque step')
                continue
            ups = dict(c[4])
            cf = F.fns[c[2]]
            for q in symex.Interp(F).run(cf):
                vs = list(q.calls(r'^counter::CallCounter::verify$'))
                ok = len(vs) == 1
                if ok:
                    recv = strip(vs[0].data[2][0])
                    ok_recv = field_path(recv)[1][-1:] == ['call_counter'] and field_path(recv)[0] == ('param', 0, 2)
                    errs = strip(vs[0].data[2][3])
                    up_err = [k for k, v in ups.items() if strip(v)[0] == 'ref' and strip(v)[1][0] == ('ptr', ('param', 0, 2))]
                    ok_err = any(k in show(errs) for k in up_err)
                    r = strip(q.outcome[1]) if q.outcome[0] == 'return' else ('unk', '')
                    ok_ret = r[0] == 'field' and r[2] == '0' and is_call(strip(r[1]), r'^counter::CallCounter::verify$')
                    ok = ok_recv and ok_err and ok_ret
                chk.ob(rule, 'the counter verified is the current element\'s, errors go to the caller\'s vector, the step yields the returned count', ok, config=cfg, fn=cf, site='verify-step',
                       what='verify step calls=%d' % len(vs), found=[show(x.data[2][0])[:80] for x in vs])
                ok_any = ok_any or ok
        # never-called rule: total == 0 <=> push
        pushes = [e for e in p.calls(r'Vec::push$') if strip(e.data[2][1])[0] == 'agg' and strip(e.data[2][1])[3] == 'MockNeverCalled']
        dec = None
        for d in p.decisions:
            inner, t = L.truth_of(d)
            cmp = as_comparison(inner) if t is not None else None
            if cmp and cmp[0] in ('Eq', 'Ne') and any(strip(x) == total for x in cmp[1:]) and any(strip(x) == ('c', 0) for x in cmp[1:]):
                dec = (cmp[0] == 'Eq') == t
        chk.ob(rule, 'MockNeverCalled is pushed iff no pattern of the method was ever matched', dec is not None and len(pushes) == (1 if dec else 0), config=cfg, fn=fn, site='never-called',
               what='never-called: total==0 is %s but %d pushes' % (dec, len(pushes)), found={'total_is_zero': dec, 'pushes': len(pushes)})
        for e in pushes:
            pay_ = dict(strip(e.data[2][1])[4])
            info = pay_.get('info', pay_.get('path', ('unk', '')))
            # (the error carries this method's info, or just the part of it that messages print: its Trait::method path)
            chk.ob(rule, 'MockNeverCalled names this method', field_path(info) in ((('param', 0, 1), ['info']), (('param', 0, 1), ['info', 'path'])), config=cfg, fn=fn, site='never-called.info', what='info %s' % show(info), found=show(info))
    chk.ob(rule, 'FnMocker::verify iterates its patterns', ok_any, config=cfg, fn=fn, site='loop', unrecognised=True, what='no iteration found')
    callers = [(f.root if f.kind == 'closure' else f.defp, bb) for f, bb, t in F.callers_of('counter::CallCounter::verify')]
    chk.ob(rule, 'CallCounter::verify is only called by FnMocker::verify', len(callers) == 1 and callers[0][0] == 'fn_mocker::FnMocker::verify', config=cfg, site='callers', what='callers %s' % callers, found=callers)
    return True


def _or_fold(v):
    """false | (n1 != 0) | (n2 != 0) ...  ->  [n1, n2, ...] (the values whose non-zero-ness is folded); None if v is not of that form"""
    v = strip(v)
    if v == ('c', False):
        return []
    if v[0] == 'bin' and v[1] == 'BitOr':
        a, b = _or_fold(v[2]), _or_fold(v[3])
        return None if a is None or b is None else a + b
    cmp = as_comparison(v)
    if cmp and cmp[0] in ('Ne', 'Gt', 'Lt'):
        l, r = linear(cmp[1]), linear(cmp[2])
        if l is None or r is None:
            return None
        if cmp[0] == 'Lt':
            l, r = r, l          # 0 < n
        if r[0] or r[1] != 0 or l[1] != 0 or len(l[0]) != 1:
            return None
        (s_, c_), = l[0].items()
        if c_ != 1:
            return None
        return [strip(s_[1]) if s_[0] == 'field' else s_]
    return None


def fnmocker_verify(chk, F, rule, cfg):
    fn = F.fn('fn_mocker::FnMocker::verify')
    paths = symex.Interp(F, loop_bound=3).run(fn)      # (two full iterations: an accumulator that is overwritten instead of added to shows up only then)
    chk.analysed(fn)
    if paths and all(p.called(r'Iterator>?::sum$') and not any(L.is_iter_next(strip(d.value)) for d in p.decisions) for p in paths):
        if fnmocker_verify_pipeline(chk, F, rule, cfg, fn, paths):
            return
    L.loops_run_to_completion(chk, rule, fn, cfg, paths)
    seen_iter = False
    for p in paths:
        vs = list(p.calls(r'^counter::CallCounter::verify$'))
        nexts = [d for d in p.decisions if L.is_iter_next(strip(d.value))]
        somes = sum(1 for d in nexts if decision_variant(F, d) == 'Some')
        chk.ob(rule, 'each pattern of the method is verified exactly once per loop iteration', len(vs) == somes, config=cfg, fn=fn, site='per-element', what='verify calls %d for %d elements' % (len(vs), somes),
               found={'verify_calls': len(vs), 'elements': somes})
        for e in vs:
            seen_iter = True
            recv = strip(e.data[2][0])
            ok_recv = field_path(recv)[1][-1:] == ['call_counter'] and mentions(recv, lambda x: L.is_iter_next(('discr', x)) if x[0] == 'call' else False)
            errs = next((strip(a_) for a_ in e.data[2][1:] if strip(a_)[0] == 'ref' and strip(a_)[2] and strip(a_)[1][0] == ('ptr', ('param', 0, 2))), ('unk', ''))     # (the caller's error vector, wherever it stands in the argument list)
            ok_err = errs[0] == 'ref' and errs[1][0] == ('ptr', ('param', 0, 2))
            src = None
            for x in symex.subvalues(recv):
                if x[0] == 'call' and re.search(r'Iterator>?::next$', x[1]):
                    src = x
                    break
            names = L.pipeline_calls(src, lambda y: y[0] == 'ref' and y[1][1][-1:] == (('f', 'call_patterns'),) and y[1][0] == ('ptr', ('param', 0, 1))) if src else None
            fwd = names is not None and all(re.search(r'(Iterator>?::next|IntoIterator( for [^>]*)?>?::into_iter|::iter|Iterator>?::enumerate|Iterator>?::map|Deref>?::deref)$', n) for n in names)
            chk.ob(rule, 'the counter verified is the current element\'s, errors go to the caller\'s vector, traversal is forward over this method\'s patterns', ok_recv and ok_err and fwd, config=cfg,
                   fn=fn, site='verify-args', what='verify args recv=%s errs=%s order=%s' % (ok_recv, ok_err, names), found={'receiver': show(recv)[:160], 'errors': show(errs), 'pipeline': names})
        # never-called rule
        pushes = [e for e in p.calls(r'Vec::push$') if strip(e.data[2][1])[0] == 'agg' and strip(e.data[2][1])[3] == 'MockNeverCalled']
        total_dec = None
        for d in p.decisions:
            inner, t = L.truth_of(d)
            cmp = as_comparison(inner) if t is not None else None
            if cmp and cmp[0] in ('Eq', 'Ne'):
                sides = [linear(cmp[1]), linear(cmp[2])]
                if all(s is not None for s in sides):
                    acc, zero = (sides[0], sides[1]) if sides[0][0] else (sides[1], sides[0])
                    if not zero[0] and zero[1] == 0:
                        ok_acc = acc[1] == 0 and all(c == 1 and is_call(strip(s[1]) if s[0] == 'field' else s, r'^counter::CallCounter::verify$') for s, c in acc[0].items()) and len(acc[0]) == len(vs)
                        total_dec = ((cmp[0] == 'Eq') == t, ok_acc, show(inner))
        if vs and total_dec is None:
            # the same test as a flag: any_i (count_i != 0), folded with `|` from `false`; "nothing matched" <=> the flag is false <=> the sum is 0
            for d in p.decisions:
                inner, t = L.truth_of(d)
                terms = _or_fold(inner) if t is not None else None
                if terms:
                    ok_acc = len(terms) == len(vs) and len(set(terms)) == len(terms) and all(is_call(x, r'^counter::CallCounter::verify$') for x in terms)
                    total_dec = (not t, ok_acc, show(inner))
        if vs:
            if total_dec is None:
                chk.ob(rule, 'after the loop the summed counts are compared with 0', False, config=cfg, fn=fn, site='never-called', what='no total == 0 test', found=[show(d.value) for d in p.decisions][-2:])
            else:
                is_zero, ok_acc, txt = total_dec
                chk.ob(rule, 'the sum compared with 0 is exactly the sum of the returned counts (offset 0)', ok_acc, config=cfg, fn=fn, site='accumulator', what='accumulator %s' % txt[:100], found=txt)
                chk.ob(rule, 'MockNeverCalled is pushed iff no pattern of the method was ever matched', len(pushes) == (1 if is_zero else 0), config=cfg, fn=fn, site='never-called',
                       what='never-called: total==0 is %s but %d pushes' % (is_zero, len(pushes)), found={'total_is_zero': is_zero, 'pushes': len(pushes)})
        for e in pushes:
            pay_ = dict(strip(e.data[2][1])[4])
            info = pay_.get('info', pay_.get('path', ('unk', '')))
            # (the error carries this method's info, or just the part of it that messages print: its Trait::method path)
            chk.ob(rule, 'MockNeverCalled names this method', field_path(info) in ((('param', 0, 1), ['info']), (('param', 0, 1), ['info', 'path'])), config=cfg, fn=fn, site='never-called.info', what='info %s' % show(info), found=show(info))
    chk.ob(rule, 'FnMocker::verify iterates its patterns', seen_iter, config=cfg, fn=fn, site='loop', unrecognised=True, what='no iteration found')
    callers = [((f.root if f.kind in ('closure', 'promoted') else f.defp), bb) for f, bb, t in F.callers_of('counter::CallCounter::verify')]      # (a call inside a closure literal belongs to the function the closure is written in)
    chk.ob(rule, 'CallCounter::verify is only called by FnMocker::verify', len(callers) == 1 and callers[0][0] == 'fn_mocker::FnMocker::verify', config=cfg, site='callers', what='callers %s' % callers, found=callers)


def teardown_verifies_all(chk, F, rule, cfg, fn, paths):
    seen = False
    for p in paths:
        for e in p.calls(r'^fn_mocker::FnMocker::verify$'):
            seen = True
            recv = strip(e.data[2][0])
            src = None
            for x in symex.subvalues(recv):
                if x[0] == 'call' and re.search(r'Iterator>?::next$', x[1]):
                    src = x
                    break
            names = L.pipeline_calls(src, lambda y: y[0] == 'ref' and y[1][1][-1:] == (('f', 'fn_mockers'),)) if src else None
            ok = names is not None and not any(L.ORDER_DENY.search(n) for n in names) and all(re.search(r'(Iterator>?::next|IntoIterator( for [^>]*)?>?::into_iter|::iter|::values|Deref>?::deref)$', n) for n in names)
            errs = strip(e.data[2][1]) if len(e.data[2]) > 1 else ('unk', 'no error vector argument')
            into_one = errs[0] == 'ref' and errs[1][0][0] == 'local'
            if len(e.data[2]) == 1:
                # (verify() handing its errors back: they count if every call's result is appended to one vector)
                res = ('call', e.data[1], e.data[2], e.data[3])
                app = [a_ for a_ in p.calls(r'Vec::(extend|append|extend_from_slice)$|Extend<.*>>?::extend$') if mentions(a_.data[2][1] if len(a_.data[2]) > 1 else ('unk', ''), lambda x: x[0] == 'call' and x[1] == res[1] and x[3] == res[3])]
                into_one = len(app) == 1 and strip(app[0].data[2][0])[0] == 'ref' and strip(app[0].data[2][0])[1][0][0] == 'local'
                errs = strip(app[0].data[2][0]) if app else errs
            chk.ob(rule, 'every method of the mock is verified (complete traversal of fn_mockers) into one error vector', ok and into_one, config=cfg, fn=fn, site='verify-all',
                   what='teardown traversal %s' % names, found={'pipeline': names, 'errors': show(errs)})
    chk.ob(rule, 'teardown verifies the methods', seen, config=cfg, fn=fn, site='verify-all', unrecognised=True, what='no FnMocker::verify call')
    callers = [((f.root if f.kind in ('closure', 'promoted') else f.defp), bb) for f, bb, t in F.callers_of('fn_mocker::FnMocker::verify')]
    chk.ob(rule, 'FnMocker::verify is only called by teardown', len(callers) == 1 and callers[0][0] == 'teardown::teardown', config=cfg, site='callers', what='callers %s' % callers, found=callers)


def into_counter(chk, F, rule, cfg):
    # new_call_pattern as a whole (the small counter constructors it goes through are part of it): the pattern's counter starts at 0
    # and carries exactly the builder's expectation
    from props import assembly as A_
    inline = lambda f, d, n: f.kind in ('fn', 'assoc') and len(f.blocks) < 30  # noqa: E731
    nc, BUILDER, builds = A_.pattern_builds(F, inline)
    n = 0
    for p, built in builds:
        if built is None or built[0] != 'agg':
            continue
        n += 1
        d = dict(built[4])
        cc = strip(d.get('call_counter', ('unk', '')))
        cd = dict(cc[4]) if cc[0] == 'agg' else {}
        ac = strip(cd.get('actual_count', ('unk', '')))
        ex = cd.get('expectation', ('unk', ''))
        ok = is_call(ac, r'Atomic\w*::new$') and ac[2] and ac[2][0] == ('c', 0) and field_path(ex) == (('param', 0, BUILDER), ['count_expectation'])
        chk.ob(rule, 'the pattern\'s counter starts at 0 and is built from the builder\'s expectation, unchanged', ok, config=cfg, fn=nc, site='expectation', what='call_counter %s' % show(cc)[:120], found=show(cc)[:200])
    chk.floor(rule, 'paths of new_call_pattern', n, 2, config=cfg)
    lb = F.fn('counter::CallCountExpectation::new', optional=True)    # (a private convenience constructor: absent when the struct literal is written out)
    for p in (symex.Interp(F).run(lb) if lb is not None else []):
        d = dict(strip(p.outcome[1])[4])
        chk.ob(rule, 'CallCountExpectation::new(minimum, exactness) stores both', d.get('minimum') == ('param', 0, 1) and d.get('exactness') == ('param', 0, 2), config=cfg, fn=lb, site='new', what='new()', found=show(p.outcome[1]))
    de = F.method('counter::CallCountExpectation', 'default', 'core::default::Default')
    for p in symex.Interp(F, inline=lambda f, d, n: True).run(de):
        v = strip(p.outcome[1])
        d = dict(v[4]) if v[0] == 'agg' else {}
        ok = d.get('minimum') == ('c', 0) and strip(d.get('exactness', ('unk', '')))[3:4] == ('AtLeast',)
        chk.ob(rule, 'an unquantified pattern starts as (0, AtLeast)', ok, config=cfg, fn=de, site='default', what='default expectation %s' % show(v), found=show(v))
