"""Anchor reconciliation: rules name functions, types and fields of /repo as they were on the reference tree (the instances
confirmed by hand). A behaviour-preserving rename of a private item must not turn every rule that mentions it into an alarm, so
before the rules run, renamed items are mapped back to their reference names:

  * the reference tree's item inventory is committed in engines/rules/baseline.json (lib/gen_baseline.py): function def paths with
    kind / signature / impl / callee names, ADTs with variants and (field, type) lists, and the vocabulary of all identifiers;
  * on the current tree, an item of the inventory that is missing is matched against the items that are new: ADTs by identical
    shape, fields by position and type inside the same ADT, functions by kind + signature + impl and callee overlap; a match is
    accepted only if it is unique, and only if the new identifier does not occur anywhere in the reference vocabulary (so replacing
    it cannot capture anything else);
  * accepted renames are applied to the facts as whole-identifier replacements before they are parsed, and recorded in the evidence.

Nothing is guessed when the match is not unique: the anchor then stays missing and the rule reports UNRECOGNISED (fail closed)."""
import json
import os
import re

VERIF = os.path.abspath(os.path.join(os.path.dirname(__file__), '..', '..'))
BASELINE = os.path.join(VERIF, 'engines', 'rules', 'baseline.json')
IDENT = re.compile(r'[A-Za-z_][A-Za-z0-9_]*')

_cache = {}


def strip_generics(s):
    out, depth = [], 0
    i = 0
    while i < len(s):
        c = s[i]
        if c == '<':
            depth += 1
        elif c == '>' and depth and s[i - 1] != '-':
            depth -= 1
        elif depth == 0:
            out.append(c)
        i += 1
    return ''.join(out).replace('::::', '::')


def segs(path):
    return [x for x in strip_generics(path).split('::') if x]


def inventory(j):
    """item inventory of one parsed facts file"""
    fns = {}
    for f in j['fns']:
        if f['kind'] not in ('fn', 'assoc'):
            continue
        callees = set()

        def walk(body):
            for b in (body or {}).get('blocks', []):
                t = b.get('term') or {}
                c = t.get('callee')
                if c:
                    callees.add(c.get('name') or '?')
        walk(f.get('body'))
        io = f.get('impl_of') or {}
        fns.setdefault(f['def'], {'kind': f['kind'], 'sig': f.get('sig', ''), 'self_adt': io.get('self_adt') or io.get('self_ty'), 'trait': io.get('trait'),
                                  'callees': sorted(callees), 'nblocks': len((f.get('body') or {}).get('blocks', [])),
                                  'modpriv': bool(f.get('vis')) and str(f.get('vis')).startswith('Restricted') and '::' in str(f.get('vis')).split('~', 1)[-1]})
    adts = {}
    for path, a in j['adts'].items():
        if not a.get('local'):
            continue
        adts[path] = {'kind': a['kind'], 'variants': [[v['name'], [[fl['name'], fl['ty']] for fl in v['fields']]] for v in a['variants']]}
        if all(str(fl.get('vis', '')).startswith('Restricted') for v in a['variants'] for fl in v['fields']) and \
                not any(strip_generics(v_['self_adt'] or '') == path for v_ in fns.values()):
            adts[path]['private_data'] = True       # (no pub field, no impl of any kind: plain data local to the crate)
    return {'fns': fns, 'adts': adts}


def vocabulary(txt):
    return set(IDENT.findall(txt))


def _sub(txt, ren):
    for new, old in ren:
        txt = re.sub(r'(?<![A-Za-z0-9_])%s(?![A-Za-z0-9_])' % re.escape(new), old, txt)
    return txt


def _seg_renames(old_path, new_path):
    a, b = segs(old_path), segs(new_path)
    if len(a) != len(b):
        return None
    d = [(y, x) for x, y in zip(a, b) if x != y]
    return d if 0 < len(d) <= 2 else None


def detect(base, cur_inv, cur_txt):
    """list of (new_ident, old_ident) renames, plus a log"""
    vocab = set(base['vocab'])
    ren = {}
    log = []
    flags = []          # (adt path on the reference tree, reference field name, path of the two-variant enum that replaced its bool)
    structured = []     # (adt path on the reference tree, new field name, reference field name): applied to field positions only

    def accept(pairs, why):
        for new, old in pairs:
            if not IDENT.fullmatch(new) or not IDENT.fullmatch(old):
                return False
            if new in vocab:
                log.append('not applied: %s -> %s (%s): the new name already means something on the reference tree' % (old, new, why))
                return False
            if ren.get(new, old) != old or any(o == old and n != new for n, o in ren.items()):
                log.append('not applied: %s -> %s (%s): conflicting evidence' % (old, new, why))
                return False
        for new, old in pairs:
            if new not in ren:
                ren[new] = old
                log.append('%s was renamed to %s (%s)' % (old, new, why))
        return True

    # 1. ADTs: missing vs new, identical shape
    b_adts, c_adts = base['adts'], cur_inv['adts']
    missing = [p for p in b_adts if p not in c_adts]
    new = [p for p in c_adts if p not in b_adts]
    paths = []          # (new full path, reference full path): an item that moved to a module whose name already exists
    done_m = set()
    for _round in range(4):
        n_before = len(paths) + len(ren)
        for m in missing:
            if m in done_m:
                continue

            def shp(n_):
                # (types that moved together mention each other: compare after mapping back what has been matched so far)
                if not (paths or ren):
                    return _shape(c_adts[n_])
                k_, vs_ = json.loads(_sub(_subpaths(json.dumps(_shape(c_adts[n_])), paths), list(ren.items())))
                return (k_, vs_)

            def same_shape(n_):
                if c_adts[n_] == b_adts[m] or shp(n_) == _shape(b_adts[m]):
                    return True
                sr_ = _seg_renames(m, n_)       # (a type that mentions itself, e.g. a linked node: compare after mapping the candidate's own name back)
                return bool(sr_) and _sub(json.dumps(shp(n_)), sr_) == json.dumps(_shape(b_adts[m]))
            cands = [n for n in new if same_shape(n)]
            cands = [n for n in cands if _seg_renames(m, n) or n.rsplit('::', 1)[-1] == m.rsplit('::', 1)[-1] or shp(n) == _shape(b_adts[m])]
            same_name = [n for n in cands if n.rsplit('::', 1)[-1] == m.rsplit('::', 1)[-1]]
            if same_name:
                cands = same_name       # (several types of one shape moved: the one that kept its name is the one)
            if len(cands) != 1:
                continue
            done_m.add(m)
            sr = _seg_renames(m, cands[0])
            if not (sr and accept(sr, 'type %s has the shape of %s' % (cands[0], m))):
                if cands[0].rsplit('::', 1)[-1] == m.rsplit('::', 1)[-1]:
                    paths.append((cands[0], m))
                    log.append('%s moved to %s (same name, same shape; the full path is mapped back)' % (m, cands[0]))
                elif shp(cands[0]) == _shape(b_adts[m]) and sum(1 for n_ in new if shp(n_) == _shape(b_adts[m])) == 1 and \
                        sum(1 for m_ in missing if _shape(b_adts[m_]) == _shape(b_adts[m])) == 1 and (len(b_adts[m]['variants']) > 1 or len(b_adts[m]['variants'][0][1]) > 1):
                    # moved AND renamed at once: the only type that went missing with this shape, the only new one that has it
                    paths.append((cands[0], m))
                    log.append('%s was renamed and moved to %s (the only new type with its shape; the full path is mapped back)' % (m, cands[0]))
        if len(paths) + len(ren) == n_before:
            break
    if paths:
        c_adts = {_subpaths(p_, paths): a_ for p_, a_ in c_adts.items()}
    # 2. fields / variants of ADTs present in both (after 1.)
    back = {}
    for n, o in ren.items():
        back[n] = o
    for p, a in c_adts.items():
        op = '::'.join(back.get(s, s) for s in p.split('::'))
        b = b_adts.get(op)
        if not b or len(b['variants']) != len(a['variants']):
            continue
        for (bv, bf), (cv, cf) in zip(b['variants'], a['variants']):
            if bv != cv and a['kind'] == 'enum' and [t for _, t in bf] == [t for _, t in cf]:
                accept([(cv, bv)], 'variant of %s at the same position with the same payload' % op)
            if len(bf) != len(cf):
                continue
            def unwrapped(t_):
                # a field whose type became a new single-field wrapper struct around its old type (seen through by the analysis)
                w_ = cur_inv['adts'].get(t_)
                if w_ and t_ not in b_adts and w_['kind'] == 'struct' and len(w_['variants']) == 1 and len(w_['variants'][0][1]) == 1:
                    return w_['variants'][0][1][0][1]
                return t_
            # the one field of this type whose type changed from a foreign type to a new local struct, every other field being what it was:
            # the same field, now of a hand-written stand-in for that type (e.g. `Range<usize>` -> a local `{ start, end }`); what the
            # stand-in means is left to the rules that read it (they fail closed on field names they do not know)
            retyped = [i_ for i_, ((bn_, bt_), (cn_, ct_)) in enumerate(zip(bf, cf)) if bt_ != _sub(_subpaths(ct_, paths), list(ren.items()))]
            standin = None
            if len(retyped) == 1:
                (bn_, bt_), (cn_, ct_) = bf[retyped[0]], cf[retyped[0]]
                w_ = cur_inv['adts'].get(strip_generics(ct_))
                if w_ and strip_generics(ct_) not in b_adts and w_['kind'] == 'struct' and strip_generics(bt_) not in b_adts and not strip_generics(bt_).startswith(('bool', 'usize', 'u', 'i')) and \
                        all(bn2 == cn2 for j_, ((bn2, _), (cn2, _)) in enumerate(zip(bf, cf)) if j_ != retyped[0]):
                    standin = retyped[0]
            for fi_, ((bn, bt), (cn, ct)) in enumerate(zip(bf, cf)):
                ctn = _sub(_subpaths(ct, paths), list(ren.items()))
                if fi_ == standin and bn != cn and bn not in [x for x, _ in cf]:
                    if cn in vocab or not IDENT.fullmatch(cn) or not IDENT.fullmatch(bn):
                        structured.append((p, cn, bn))
                    else:
                        accept([(cn, bn)], 'field of %s at the same position, retyped from %s to the new local struct %s' % (op, bt, ct))
                    log.append('field %s of %s: %s -> %s (a local stand-in for the foreign type)' % (bn, op, bt, ct))
                    continue
                fe_ = cur_inv['adts'].get(ct)
                if bt == 'bool' and fe_ and ct not in b_adts and fe_['kind'] == 'enum' and len(fe_['variants']) == 2 and all(not fs_ for _, fs_ in fe_['variants']) and \
                        (bn == cn or bn not in [x for x, _ in cf]):
                    # a flag of the reference tree that became a two-variant enum (which variant means `true` is settled from what the
                    # constructors store, see Facts.resolve_flags); a new field name is mapped back for field uses of this type
                    flags.append((op, bn, ct))
                    log.append('field %s of %s (bool on the reference tree) is now %s: %s, a two-variant enum' % (bn, op, cn, ct))
                    if bn != cn:
                        structured.append((p, cn, bn))
                    continue
                if bn != cn and (ctn == bt or _sub(_subpaths(unwrapped(ct), paths), list(ren.items())) == bt) and bn not in [x for x, _ in cf]:
                    if cn in vocab or not IDENT.fullmatch(cn) or not IDENT.fullmatch(bn):      # (tuple field <-> named field: `0` is not an identifier)
                        # the new name already means something elsewhere: rename this field only where it is used as a field of this type
                        structured.append((p, cn, bn))
                        log.append('field %s of %s was renamed to %s (same position, same type; applied to field uses of this type only)' % (bn, op, cn))
                    else:
                        accept([(cn, bn)], 'field of %s at the same position with the same type' % op)
    # 2b. a new private plain-data struct that gives names to the slots of a tuple the reference tree passes around: accepted only if
    #     the tuple of its field types occurs in the reference signature of a function that is missing or whose signature changed,
    #     and substituting it makes such a signature equal to the reference one (decided in step 3: `tuples` is only used there
    #     if it makes a signature match)
    rl = list(ren.items())
    b_fns = base['fns']
    tuples = []
    matched_new = set(n_ for n_, _ in paths)
    for p_, a_ in cur_inv['adts'].items():
        if p_ in b_adts or p_ in matched_new or a_['kind'] != 'struct' or len(a_['variants']) != 1 or len(a_['variants'][0][1]) < 2:
            continue
        if any(s_ in ren for s_ in p_.split('::')) or not a_.get('private_data'):
            continue
        fts = [_sub(_subpaths(t_, paths), rl) for _, t_ in a_['variants'][0][1]]
        tup = '(' + ', '.join(fts) + ')'
        if any(_nolt(tup) in _nolt(v_['sig']) for v_ in b_fns.values()):
            tuples.append((p_, [f_ for f_, _ in a_['variants'][0][1]], tup))
    # 3. functions: missing vs new; same kind / impl / signature, unique best callee overlap
    used_tuples = set()

    def norm(t_):
        t_ = _sub(_subpaths(t_, paths), rl)
        for p_, _, tup_ in tuples:
            if p_ in t_:
                t2_ = _subtuple(t_, p_, tup_)
                if t2_ != t_:
                    used_tuples.add(p_)
                    t_ = t2_
        return t_
    c_fns = {norm(d): dict(v, sig=norm(v['sig']), self_adt=norm(v['self_adt'] or '') or None, trait=(norm(v['trait']) if v.get('trait') else v.get('trait')), callees=[norm(c) for c in v['callees']]) for d, v in cur_inv['fns'].items()}
    missing = [d for d in b_fns if d not in c_fns]
    new = [d for d in c_fns if d not in b_fns]
    for m in missing:
        bm = b_fns[m]
        cands = []
        for n in new:
            cn = c_fns[n]
            if (cn['trait'] or None) != (bm['trait'] or None):
                continue
            if cn['kind'] != bm['kind'] and not (segs(n)[-1:] == segs(m)[-1:] and not cn['trait']):
                continue      # (a free function that became an inherent method, or the reverse, keeps its name and signature)
            sr = _seg_renames(m, n)
            if not sr:
                if segs(n)[-1:] != segs(m)[-1:] or n == m:
                    continue
                sr = []       # same name at another depth of the module tree: a move, mapped by full path below
            sig_n = _sub(cn['sig'], sr) if cn['kind'] == bm['kind'] else cn['sig']
            if sig_n != bm['sig'] and not (tuples and _nolt(sig_n) == _nolt(bm['sig'])):
                continue
            a, b = set(bm['callees']), set(_sub(c, sr) for c in cn['callees'])
            j = len(a & b) / float(len(a | b)) if (a | b) else 1.0
            cands.append((j, n, sr))
        cands.sort(reverse=True)
        if len(cands) == 1 and cands[0][0] < 0.5 and cands[0][2]:
            # rewritten body under a new name: accepted when the signature and impl single it out on both sides and a caller of the
            # reference function now calls the new one instead
            n1 = cands[0][1]
            same_m = [m_ for m_ in missing if b_fns[m_]['sig'] == bm['sig'] and (b_fns[m_]['self_adt'] or None) == (bm['self_adt'] or None) and b_fns[m_]['kind'] == bm['kind']]
            lm_, ln_ = segs(m)[-1], segs(n1)[-1]      # (the inventory lists callees by their last path segment)
            callers_b = set(d_ for d_, v_ in b_fns.items() if lm_ in v_['callees'])
            callers_c = set(d_ for d_, v_ in c_fns.items() if ln_ in v_['callees'])
            still_m = set(d_ for d_, v_ in c_fns.items() if lm_ in v_['callees'])
            if len(same_m) == 1 and (callers_b & callers_c) and not still_m and (c_fns[n1]['self_adt'] or None) == (bm['self_adt'] or None):
                cands[0] = (0.5, n1, cands[0][2])
                log.append('%s: body rewritten under a new name %s (only function of its impl with this signature on both sides; called from %s)' % (m, n1, sorted(callers_b & callers_c)[:2]))
        if cands and cands[0][0] >= 0.5 and (len(cands) == 1 or cands[0][0] - cands[1][0] >= 0.2):
            same_last = segs(cands[0][1])[-1:] == segs(m)[-1:]
            if same_last or not accept(cands[0][2], 'function %s has the signature, impl and callees of %s' % (cands[0][1], m)):
                if same_last:
                    paths.append((cands[0][1], m))
                    log.append('%s moved to %s (same name, signature and callees; the full path is mapped back)' % (m, cands[0][1]))
    # 3b. a reference function that is still missing, in an impl where exactly one function went missing and exactly one appeared, with
    #     the same number of parameters and the same return type (a parameter's type changed because a conversion step moved across
    #     the call boundary): accepted when callers of the reference function now call the new one and nobody calls the old name
    taken = set(n_ for n_, _ in paths) | set(ren.keys())
    still_missing = [m for m in missing if not any(o_ == segs(m)[-1] for o_ in ren.values()) and not any(op_ == m for _, op_ in paths)]
    for m in still_missing:
        bm = b_fns[m]
        if bm['kind'] != 'assoc' or bm.get('trait') or not bm.get('self_adt'):
            continue
        same_impl_m = [m_ for m_ in still_missing if b_fns[m_].get('self_adt') == bm['self_adt'] and not b_fns[m_].get('trait')]
        same_impl_n = [n_ for n_ in new if c_fns[n_].get('self_adt') == bm['self_adt'] and not c_fns[n_].get('trait') and c_fns[n_]['kind'] == 'assoc'
                       and segs(n_)[-1] not in taken and not any(segs(n_)[-1] == k_ for k_ in ren)]
        if len(same_impl_m) != 1 or len(same_impl_n) != 1:
            continue
        n1 = same_impl_n[0]
        sr = _seg_renames(m, n1)
        if not sr or _sig_arity_ret(c_fns[n1]['sig']) != _sig_arity_ret(bm['sig']):
            continue
        lm_, ln_ = segs(m)[-1], segs(n1)[-1]
        callers_b = set(d_ for d_, v_ in b_fns.items() if lm_ in v_['callees'])
        callers_c = set(d_ for d_, v_ in c_fns.items() if ln_ in v_['callees'])
        still_m = set(d_ for d_, v_ in c_fns.items() if lm_ in v_['callees'])
        if callers_b and callers_b <= callers_c | set(_sub(d_, [(o_, n_) for n_, o_ in sr]) for d_ in callers_c) and not still_m:
            accept(sr, 'function %s takes the place of %s: the only function of its impl that appeared while %s was the only one that went missing, same arity and return type, called from the same %d functions' % (n1, m, m, len(callers_b)))
    # a named tuple is only accepted if, with it, every function of the reference tree that mentions the tuple still has a counterpart
    # with exactly the reference signature (same path after renames)
    ok_tuples = []
    for p_, fs_, tup_ in tuples:
        if p_ not in used_tuples:
            continue
        c_after = {_subpaths(d_, paths): v_ for d_, v_ in c_fns.items()}
        back_ = {n_: o_ for n_, o_ in ren.items()}
        users = [d_ for d_, v_ in b_fns.items() if _nolt(tup_) in _nolt(v_['sig'])]
        good = True
        for d_ in users:
            cand = [v_ for k_, v_ in c_after.items() if '::'.join(back_.get(x_, x_) for x_ in k_.split('::')) == d_]
            if not cand or _nolt(cand[0]['sig']) != _nolt(b_fns[d_]['sig']):
                good = False
        if good:
            ok_tuples.append((p_, fs_, tup_))
            log.append('struct %s (new, private, plain data) names the slots of the tuple %s of the reference tree: seen as that tuple' % (p_, tup_))
        else:
            log.append('not applied: struct %s as tuple %s: a reference function using the tuple has no counterpart with the reference signature' % (p_, tup_))
    return list(ren.items()), log, structured, paths, ok_tuples, flags


def _sig_arity_ret(sig):
    """(number of parameters, return type text) of a printed fn signature"""
    i = sig.find('fn(')
    if i < 0:
        return None
    depth, j, commas, nonempty = 0, i + 3, 0, False
    while j < len(sig):
        c = sig[j]
        if c in '(<[':
            depth += 1
        elif c in ')>]' and not (c == '>' and sig[j - 1] == '-'):
            if depth == 0:
                break
            depth -= 1
        elif c == ',' and depth == 0:
            commas += 1
        elif not c.isspace():
            nonempty = True
        j += 1
    rest = sig[j + 1:].strip()
    return ((commas + 1) if nonempty else 0, _nolt(rest[2:].strip()) if rest.startswith('->') else '()')


def _nolt(t):
    """type text without lifetimes (named-tuple comparison: the struct's own lifetime parameter names need not be the tuple's)"""
    t = re.sub(r"for<[^<>]*> ?", '', t)
    t = re.sub(r"'[A-Za-z_][A-Za-z0-9_]*,? ?", '', t)
    return t.replace('<>', '').replace(' + )', ')').replace('  ', ' ')


def _subtuple(txt, path, tup):
    """replace uses of the struct type `path<lifetimes..>` by the tuple text; with erased/anonymous lifetimes the tuple's are erased too"""
    def r(m):
        args = m.group(1) or ''
        named = re.findall(r"'([A-Za-z_][A-Za-z0-9_]*)", args)
        if not named or all(n == '_' for n in named):
            return re.sub(r"&'[A-Za-z_][A-Za-z0-9_]* ", '&', re.sub(r"<'[A-Za-z_][A-Za-z0-9_]*>", "<'_>", tup)) if not named else re.sub(r"'[A-Za-z_][A-Za-z0-9_]*", "'_", tup)
        return tup
    return re.sub(r'(?<![A-Za-z0-9_:])%s(<[^<>]*>)?(?![A-Za-z0-9_])' % re.escape(path), r, txt)


def _subpaths(txt, paths):
    for newp, oldp in paths:
        txt = re.sub(r'(?<![A-Za-z0-9_])%s(?![A-Za-z0-9_])' % re.escape(newp), oldp, txt)
    return txt


def _shape(a):
    # (the single 'variant' of a struct carries the struct's own name: not part of its shape)
    return (a['kind'], [[v if a['kind'] == 'enum' else '', [[f, t] for f, t in fs]] for v, fs in a['variants']])


def renames_for(raw_std_unimock, raw_std_macros):
    """renames of the current tree relative to the committed baseline, from the raw facts of the std configuration"""
    if not os.path.exists(BASELINE):
        return Renames([]), ['no baseline inventory: names are taken as they are']
    base = json.load(open(BASELINE))
    ren, log, structured, paths, tups, flgs = [], [], [], [], [], []
    for crate, raw in (('unimock', raw_std_unimock), ('unimock_macros', raw_std_macros)):
        if raw is None or crate not in base:
            continue
        inv = inventory(json.loads(raw))
        r, l, st, pa, tu, fl = detect(base[crate], inv, raw)
        tups += tu
        flgs += fl
        for x in r:
            if x not in ren:
                ren.append(x)
        log += l
        structured += st
        paths += pa
    rr = Renames(ren, structured)
    rr.paths = paths
    rr.tuples = tups
    rr.flags = flgs
    return rr, log


class Renames(list):
    """textual renames (list of (new, old)) plus structured field renames"""
    def __init__(self, textual, structured=()):
        list.__init__(self, textual)
        self.structured = list(structured)
        self.paths = []
        self.tuples = []
        self.flags = []

    def __bool__(self):
        return len(self) > 0 or bool(self.structured) or bool(self.paths) or bool(self.tuples) or bool(self.flags)


def apply_structured(j, structured):
    """rename fields in place where they are used as fields of the given type: projections, ADT definitions, aggregate field lists"""
    if not structured:
        return
    by_adt = {}
    for adt, new, old in structured:
        by_adt.setdefault(adt, {})[new] = old
    for adt, m in by_adt.items():
        a = j.get('adts', {}).get(adt)
        if a:
            for v in a['variants']:
                for fl in v['fields']:
                    fl['name'] = m.get(fl['name'], fl['name'])

    def walk(x):
        if isinstance(x, dict):
            ad = x.get('adt')
            if ad in by_adt:
                if isinstance(x.get('name'), str) and x['name'] in by_adt[ad] and 'f' in x:
                    x['name'] = by_adt[ad][x['name']]
                if isinstance(x.get('fields'), list):
                    x['fields'] = [by_adt[ad].get(f, f) if isinstance(f, str) else f for f in x['fields']]
            for v in x.values():
                walk(v)
        elif isinstance(x, list):
            for v in x:
                walk(v)
    walk(j.get('fns'))


def apply_tuples(j, tuples):
    """structs accepted as named tuples: their aggregates become tuple aggregates, projections of their fields tuple projections"""
    if not tuples:
        return
    by = {p: fs for p, fs, _ in tuples}

    def walk(x):
        if isinstance(x, dict):
            ad = x.get('adt')
            if ad in by:
                if x.get('agg') == 'adt':
                    x['agg'] = 'tuple'
                    for k in ('adt', 'variant', 'fields'):
                        x.pop(k, None)
                elif 'f' in x and isinstance(x.get('name'), str):
                    x['name'] = str(x['f'])
                    x.pop('adt', None)
                    x.pop('variant', None)
            for v in x.values():
                walk(v)
        elif isinstance(x, list):
            for v in x:
                walk(v)
    walk(j.get('fns'))
    for p in by:
        j.get('adts', {}).pop(p, None)

    def retype(x):
        # type texts that mention the struct now mention the tuple
        if isinstance(x, dict):
            for k, v in list(x.items()):
                if isinstance(v, str):
                    for p_, _, tup_ in tuples:
                        if p_ in v:
                            v = _subtuple(v, p_, tup_)
                    x[k] = v
                else:
                    retype(v)
        elif isinstance(x, list):
            for i, v in enumerate(x):
                if isinstance(v, str):
                    for p_, _, tup_ in tuples:
                        if p_ in v:
                            v = _subtuple(v, p_, tup_)
                    x[i] = v
                else:
                    retype(v)
    retype(j.get('fns'))
    retype(j.get('adts'))


def apply(txt, ren):
    if getattr(ren, 'paths', None):
        txt = _subpaths(txt, ren.paths)
    return _sub(txt, list(ren)) if len(ren) else txt
