"""Rules over clause assembly: tuple deconstruction, Sink::push, new_call_pattern, Each (C01 C04 C14 C18)."""
import re
import symex
from symex import show, is_call, strip, field_path, mentions, linear, decision_variant
import tables
from tables import IGNORE
from props import lifecycle as L
from props import evalcore as E

VEC_MUT_DENY = re.compile(r'Vec::(insert|remove|swap_remove|truncate|clear|drain|pop|retain\w*|dedup\w*|split_off|reverse|sort\w*|rotate_\w+|swap|extend_from_within|splice|append)$|<impl \[T\]>::(reverse|sort\w*|swap|rotate_\w+)$')


def push_table(chk, F, rule, cfg):
    """R14.2: decision table of <MockAssembler as Sink>::push — and of every other function that registers patterns"""
    main = F.method('assemble::MockAssembler', 'push', 'clause::term::Sink', optional=True)
    writers = set()
    for fn in F.fns.values():
        for p_ in ([fn] + fn.promoted):
            for bb, t in p_.calls(include_cleanup=True):
                if re.search(r'::(entry|insert|get_mut|remove|retain|clear|append|extend|first_entry|last_entry|pop_first|pop_last|values_mut|iter_mut)$|Extend>?::extend$', symex.callee_name(t)):      # (on the map itself or on a wrapper around it)
                    for a in t['args'][:1]:
                        pl = a.get('mv') or a.get('cp')
                        # the receiver is (a reborrow of) the fn_mockers field: resolve through the body's ref assignments
                        if pl is not None and _refers_to_field(p_, pl, 'assemble::MockAssembler', 'fn_mockers'):
                            writers.add(fn.root if fn.kind in ('closure',) else fn.defp)
    if symex.MODE.get('inline_private'):
        # a step of the registration that was extracted into a helper of its own is analysed as part of the functions that call it
        for _ in range(3):
            for w in sorted(writers):
                if w in F.fns and symex.is_new_helper(F.fns[w]):
                    ups = set((c.root if c.kind in ('closure', 'promoted') else c.defp) for c, _, _ in F.callers_of(w, collapse_helpers=False))
                    if ups:
                        writers.discard(w)
                        writers |= ups
    # (Sink::push may be the trait's provided method forwarding to another registration function: what matters is that every
    #  function that touches the method table obeys the registration table)
    chk.ob(rule, 'some function of the assembler registers patterns', bool(writers) and (main is None or main.defp in writers), config=cfg, fn=main, site='writers', unrecognised=True, what='no function touches fn_mockers', found=sorted(writers))
    for w in sorted(writers):
        _push_table_one(chk, F, rule, cfg, F.fns[w])
    return main, None


def _refers_to_field(body, place, adt, field, depth=0):
    for e in place['pr']:
        if isinstance(e, dict) and e.get('adt') == adt and e.get('name') == field:
            return True
    if depth > 4:
        return False
    # follow `_n = &mut <place>` definitions of the base local
    for _, s in body.stmts(include_cleanup=True):
        if s.get('k') == 'assign' and s['p']['l'] == place['l'] and not s['p']['pr']:
            rv = s['rv']
            src = rv.get('ref') or (rv.get('use', {}).get('mv') or rv.get('use', {}).get('cp'))
            if src is not None and _refers_to_field(body, src, adt, field, depth + 1):
                return True
    return False


def _push_table_one(chk, F, rule, cfg, fn):
    inline = lambda f, d, n: f.kind in ('fn', 'assoc') and f.locals[0]['ty'] == 'bool' and len(f.blocks) < 30  # noqa: E731
    paths = symex.Interp(F, inline=inline).run(fn)
    chk.analysed(fn)

    def atom(d, p):
        v = strip(d.value)
        if v[0] == 'discr':
            src, pol, var = E.discr_atom(F, d)
            if is_call(src, r'Option::take$') and mentions(src, lambda x: x[0] == 'field' and x[2] == 'responder_error'):
                return ('responder_error', {1 if pol == 'ok' else 0})
            root, ns = field_path(src)
            if (ns[-1:] == ['responder_error']) and var in ('Some', 'None'):
                return ('responder_error', {1 if var == 'Some' else 0})
            if src[0] == 'field' and strip(src[1])[0] == 'as' and strip(src[1])[2] == 'Some':
                return IGNORE  # which OutputError: only selects the message
            if is_call(src, r'BTreeMap::entry$'):
                return ('entry', {var})
            if is_call(src, r'BTreeMap::(get_mut|get)$') and var in ('Some', 'None'):
                # `match map.get_mut(&key) { Some(existing) => .., None => map.insert(key, ..) }`: the same two cases as the Entry API
                return ('entry', {'Occupied' if var == 'Some' else 'Vacant'})
            return None
        inner, t = L.truth_of(d)
        if t is None:
            return None
        cmp = symex.as_comparison(inner)
        if cmp and cmp[0] in ('Eq', 'Ne'):
            sides = [strip(x) for x in cmp[1:]]
            def is_mode(x):
                if x[0] == 'discr':
                    x = strip(x[1])
                return any(y[0] == 'field' and y[2] == 'pattern_match_mode' or (y[0] == 'ref' and y[1][1][-1:] == (('f', 'pattern_match_mode'),)) for y in symex.subvalues(x))
            if all(is_mode(x) for x in sides):
                same = (cmp[0] == 'Eq') == t
                return ('same_mode', {int(same)})
        return None

    def outcome(p):
        lab = E.ret_label(p)
        pushes = [e for e in p.calls(r'Vec::push$|Extend>?::extend$|Vec::extend\w*$|Vec::append$') if mentions(e.data[2][0], lambda x: x[0] == 'field' and x[2] == 'call_patterns')]
        inserts = list(p.calls(r'VacantEntry::insert$|BTreeMap::insert$'))
        others = [e.data[1] for e in p.calls() if VEC_MUT_DENY.search(e.data[1])]
        return '%s push=%d insert=%d%s' % (lab.split(':')[0], len(pushes), len(inserts), ' deny=%s' % others if others else '')
    rows = tables.abstract(paths, atom, outcome)
    tables.check_table(chk, rule, fn, rows, [
        ('unproducible output => Err before any registration', {'responder_error': {1}}, 'Err push=0 insert=0'),
        ('same method, other mode => Err, nothing registered', {'responder_error': {0}, 'entry': {'Occupied'}, 'same_mode': {0}}, 'Err push=0 insert=0'),
        ('same method, same mode => appended', {'responder_error': {0}, 'entry': {'Occupied'}, 'same_mode': {1}}, 'Ok push=1 insert=0'),
        ('new method => registered with this one pattern', {'responder_error': {0}, 'entry': {'Vacant'}}, 'Ok push=0 insert=1'),
    ], config=cfg)
    # provenance: key = pushed info.type_id; appended element = the pattern built from this builder; mode compared against the builder's
    for p in paths:
        for e in p.calls(r'BTreeMap::(entry|get_mut|get|insert)$'):
            key = strip(e.data[2][1])
            if key[0] == 'ref' and len(key) > 3:
                key = strip(key[3])
            ok = field_path(key) == (('param', 0, 2), ['type_id']) and field_path(e.data[2][0]) == (('param', 0, 1), ['fn_mockers'])
            chk.ob(rule, 'patterns are filed under the pushed method\'s own TypeId', ok, config=cfg, fn=fn, site='entry-key', what='map key', found=show(key), expected='info.type_id')
        for e in p.calls(r'Vec::push$'):
            if mentions(e.data[2][0], lambda x: x[0] == 'field' and x[2] == 'call_patterns'):
                el = strip(e.data[2][1])
                ok = (is_call(el, r'MockAssembler::new_call_pattern$') and mentions(el, lambda x: x == ('param', 0, 3))) or _pattern_of_builder(el)
                chk.ob(rule, 'the appended element is the pattern built from the pushed builder', ok, config=cfg, fn=fn, site='push-elem', what='appended element', found=show(el)[:200])
        for e in p.calls(r'VacantEntry::insert$|BTreeMap::insert$'):
            fm = strip(e.data[2][2] if e.data[1].endswith('BTreeMap::insert') else e.data[2][1])
            d = dict(fm[4]) if fm[0] == 'agg' else {}
            okm = strip(d.get('pattern_match_mode', ('unk', ''))) == ('field', ('param', 0, 3), 'pattern_match_mode') or field_path(d.get('pattern_match_mode', ('unk', ''))) == (('param', 0, 3), ['pattern_match_mode'])
            oki = strip(d.get('info', ('unk', ''))) == ('param', 0, 2)
            arr = [w for w in p.effects if w.kind == 'write' and strip(w.data[1])[0] == 'agg' and strip(w.data[1])[1] == 'array']
            one = len(arr) == 1 and len(strip(arr[0].data[1])[4]) == 1 and (is_call(strip(strip(arr[0].data[1])[4][0][1]), r'MockAssembler::new_call_pattern$') or _pattern_of_builder(strip(strip(arr[0].data[1])[4][0][1])))
            chk.ob(rule, 'a new method entry holds (info, mode of this builder, [this pattern])', okm and oki and one, config=cfg, fn=fn, site='insert-value', what='new entry contents',
                   found={'mode': show(d.get('pattern_match_mode', ('unk', ''))), 'info': show(d.get('info', ('unk', ''))), 'one_element_vec': one})
    return fn, paths


def append_only_lists(chk, F, rule, cfg):
    push_table(chk, F, rule + '.push', cfg)
    # every mutable use of FnMocker.call_patterns / Each.patterns in the crate
    for adt, field, writers in (('fn_mocker::FnMocker', 'call_patterns', r'^<assemble::MockAssembler as clause::term::Sink>::push$'),
                                ('build::Each', 'patterns', r'^build::Each::<F>::(call|new)$')):
        n = 0
        for fn in F.fns.values():
            if not any(True for b, _, _, _ in L.field_accesses_fn(fn, adt, field)):
                continue
            for p in symex.Interp(F).run(fn):
                for e in p.effects:
                    if e.kind != 'call':
                        continue
                    for a in e.data[2][:1]:
                        a = strip(a)
                        if a[0] == 'ref' and a[2] and a[1][1][-1:] == (('f', field),):
                            n += 1
                            name = e.data[1]
                            if VEC_MUT_DENY.search(name):
                                chk.ob(rule, '%s.%s is append-only' % (adt, field), False, config=cfg, fn=fn, site='mutate:%s' % name, what='list reordered/shrunk: %s' % name.rsplit('::', 1)[-1], found=name,
                                       expected='Vec::push only')
                            elif re.search(r'Vec::push$|<impl \[T\]>::last_mut$|DerefMut>?::deref_mut$|::iter_mut$', name):
                                ok = all(re.search(writers, o) for o in L.owners_of(F, fn)) or not name.endswith('::push')     # (an extracted helper counts for its callers)
                                chk.ob(rule, '%s.%s grows only in its builder (%s)' % (adt, field, name.rsplit('::', 1)[-1]), ok, config=cfg, fn=fn, site='mutate:%s' % name, what='push outside the builder', found=fn.defp)
                            else:
                                chk.ob(rule, 'mutable use of %s.%s is known' % (adt, field), False, config=cfg, fn=fn, site='mutate:%s' % name, unrecognised=True, what='unknown mutation %s' % name, found=name)
        chk.floor(rule, 'mutable uses of %s.%s' % (adt, field), n, 1, config=cfg)
    each_deconstruct(chk, F, rule + '.each', cfg)


def each_deconstruct(chk, F, rule, cfg):
    fn = F.method('build::Each', 'deconstruct', 'Clause')
    paths = symex.Interp(F).run(fn)
    chk.analysed(fn)

    def atom(d, p):
        inner, t = L.truth_of(d)
        if t is not None and is_call(inner, r'Vec::is_empty$') and field_path(inner[2][0])[1][-1:] == ['patterns']:
            return ('empty', {int(t)})
        if t is not None:
            cmp = symex.as_comparison(inner)
            if cmp and any(is_call(strip(x), r'Vec::len$') for x in cmp[1:]):
                lin = linear(cmp[1]), linear(cmp[2])
                return None
        v = strip(d.value)
        if L.is_iter_next(v):
            return IGNORE
        if v[0] == 'discr':
            src, pol, var = E.discr_atom(F, d)
            if is_call(src, r'clause::term::Sink::push$'):
                return IGNORE
        return None

    def outcome(p):
        n = sum(1 for _ in p.calls(r'clause::term::Sink::push$'))
        lab = E.ret_label(p)
        return '%s sink=%s' % (lab.split('(')[0], '0' if n == 0 else '>=1')
    rows = tables.abstract(paths, atom, outcome)
    tables.check_table(chk, rule, fn, rows, [
        ('empty stub is rejected before anything is pushed', {'empty': {1}}, 'Err:?<T as std::string::ToString>::to_string sink=0'),
    ], config=cfg)
    for r in rows:
        if r.valuation.get('empty') == frozenset({1}):
            chk.ob(rule, 'empty stub => Err, zero sink calls', r.outcome.startswith('Err') and r.outcome.endswith('sink=0'), config=cfg, fn=fn, site='empty', what='empty stub outcome', found=r.outcome)
    L.loops_run_to_completion(chk, rule, fn, cfg, paths, fail_outcome=lambda p: not E.ret_label(p).startswith('Ok'))
    n_elem = 0
    for p in paths:
        pushes = list(p.calls(r'clause::term::Sink::push$'))
        n_elem += len(pushes)
        for e in pushes:
            el = strip(e.data[2][2])
            ok = el[0] == 'field' and el[2] == '0' and strip(el[1])[0] == 'as' and strip(el[1])[2] == 'Some' and L.is_iter_next(('discr', strip(strip(el[1])[1])))
            src = strip(strip(el[1])[1]) if ok else ('unk', '')
            names = L.pipeline_calls(src, lambda x: field_path(x) == (('param', 0, 1), ['patterns'])) if ok else None
            good = names is not None and all(re.search(r'(Iterator>?::next|IntoIterator( for [^>]*)?>?::into_iter|::iter)$', n) for n in names)
            chk.ob(rule, 'each stub pattern is pushed to the sink in declaration order (element of a forward into_iter)', ok and good, config=cfg, fn=fn, site='sink-elem', what='stub element order: %s' % ','.join((names or ['?'])),
                   found=names or show(el)[:200], expected='for builder in self.patterns.into_iter() { sink.push(F::info(), builder)? }')
        if E.ret_label(p).startswith('Ok') and pushes:
            chk.ob(rule, 'a successful run pushed every element (loop ran to exhaustion)', True, config=cfg, fn=fn, site='complete')
    chk.floor(rule, 'stub patterns seen being handed to the sink (on the explored paths)', n_elem, 1, config=cfg)
    bodies = [fn] + [g for g in F.fns.values() if g.kind == 'closure' and getattr(g, 'root', None) == fn.defp]      # (closure literals written in this function are part of it)
    sinks = [symex.callee_name(t) for b_ in bodies for _, t in b_.calls() if 'Sink' in symex.callee_unresolved(t)]
    chk.ob(rule, 'stub patterns reach the assembler through Sink::push, one by one', bool(sinks) and all(n.endswith('Sink::push') for n in sinks), config=cfg, fn=fn, site='sink-route', unrecognised=True,
           what='stub patterns registered via %s' % sorted(set(sinks)), found=sorted(set(sinks)), expected=['clause::term::Sink::push'])


def tuple_order(chk, F, rule, cfg):
    """R14.1: each tuple impl deconstructs fields 0..n-1 once each, in order, short-circuiting"""
    count = 0
    for fn in sorted(F.methods_named('deconstruct', 'Clause'), key=lambda f: f.defp):
        st = (fn.impl_of or {}).get('self_ty', '')
        if not st.startswith('('):
            continue
        arity = 0 if st == '()' else len(fn.generics)
        count += 1
        paths = symex.Interp(F, max_paths=5000).run(fn)
        chk.analysed(fn)
        ok_paths = [p for p in paths if E.ret_label(p).startswith('Ok')]
        chk.ob(rule, 'tuple of arity %d has exactly one successful path' % arity, len(ok_paths) == 1, config=cfg, fn=fn, site='ok-paths', what='success paths', found=len(ok_paths), expected=1, unrecognised=len(ok_paths) != 1)
        for p in ok_paths:
            idx = []
            sinks_ok = True
            for e in p.calls(r'^Clause::deconstruct$'):
                a = strip(e.data[2][0])
                idx.append(a[2] if a[0] == 'field' and strip(a[1]) == ('param', 0, 1) else show(a))
                s = strip(e.data[2][1])
                sinks_ok = sinks_ok and s[0] == 'ref' and s[1][0] == ('ptr', ('param', 0, 2))
                # callee's Self type is the k-th type parameter
            want = [str(i) for i in range(arity)]
            chk.ob(rule, 'arity %d: elements deconstructed left to right, each once, into the same sink' % arity, idx == want and sinks_ok, config=cfg, fn=fn, site='order',
                   what='tuple order %s' % idx, found=idx, expected=want)
        for p in paths:
            lab = E.ret_label(p)
            if lab.startswith('Err'):
                ncalls = sum(1 for _ in p.calls(r'^Clause::deconstruct$'))
                src = strip(p.outcome[1])
                last = [e for e in p.calls(r'^Clause::deconstruct$')][-1] if ncalls else None
                ok = lab.startswith('Err:propagated') and last is not None and mentions(src, lambda x: x[0] == 'call' and x[3] == last.data[3])
                chk.ob(rule, 'arity %d: the first failing element ends deconstruction with its error' % arity, ok, config=cfg, fn=fn, site='short-circuit', what='error path', found=lab)
        # every `?`: number of Err paths == arity
        nerr = sum(1 for p in paths if E.ret_label(p).startswith('Err'))
        chk.ob(rule, 'arity %d: every element\'s error is propagated' % arity, nerr == arity, config=cfg, fn=fn, site='error-paths', what='error paths %d' % nerr, found=nerr, expected=arity)
    chk.floor(rule, 'tuple Clause impls (arity 0 and 2..16)', count, 16, config=cfg)


def terminal_clauses_use_own_info(chk, F, rule, cfg):
    n = 0
    for fn in F.fns.values():
        for bb, t in fn.calls():
            if symex.callee_unresolved(t) != 'clause::term::Sink::push':
                continue
            n += 1
            ok = False
            found = None
            for p in symex.Interp(F).run(fn):
                for e in p.calls(r'clause::term::Sink::push$'):
                    if e.bb != bb:
                        continue
                    info = strip(e.data[2][1])
                    if is_call(info, r'^MockFn::info$'):
                        # which type's info()? the generic argument of the call
                        for e2 in p.calls(r'^MockFn::info$'):
                            if e2.data[3] == info[3]:
                                found = e2.term['callee'].get('self_ty')
                        ok = found == 'F'
                    else:
                        found = show(info)
            chk.ob(rule, 'terminal clause registers its pattern under its own MockFn (F::info())', ok, config=cfg, fn=fn, site='sink.push.info', what='info of another type', found=found, expected='F::info()')
    chk.floor(rule, 'Sink::push call sites in terminal clauses', n, 3, config=cfg)


def _pattern_of_builder(el):
    """el is a CallPattern literal whose matcher and responders are the pushed builder's (the pattern built from this very builder,
    spelled out where the reference tree calls new_call_pattern)"""
    el = strip(el)
    if not (el[0] == 'agg' and el[1] == 'adt' and el[2] == 'call_pattern::CallPattern'):
        return False
    d = dict(el[4])
    return all(field_path(d.get(k, ('unk', ''))) == (('param', 0, 3), [k]) for k in ('input_matcher', 'responders'))


def pattern_builds(F, inline=None):
    """how a finished pattern is built from a builder: (function analysed, parameter index of the builder, [(path, CallPattern aggregate)]).
    On the reference tree this is `MockAssembler::new_call_pattern(self, builder)`. Where that function no longer exists as a unit (its steps
    were moved onto other types and are called from `Sink::push` directly) the whole registration `Sink::push(self, info, builder)` is
    analysed with its helpers opened up, and the pattern is the CallPattern literal built on the path."""
    import facts as factsmod
    pol = inline or (lambda f, d, n: f.kind in ('fn', 'assoc') and len(f.blocks) < 30 and not re.search(r'into_counter', f.defp))
    try:
        fn = F.fn('assemble::MockAssembler::new_call_pattern')
        paths = symex.Interp(F, inline=pol).run(fn)
        return fn, 2, [(p, strip(p.outcome[1]) if p.outcome[0] == 'return' else None) for p in paths]
    except factsmod.FactsError:
        pass
    fn = F.fn('<assemble::MockAssembler as clause::term::Sink>::push')
    bi = next((i for i in range(1, fn.arg_count + 1) if 'DynCallPatternBuilder' in fn.locals[i]['ty']), 3)
    wide = lambda f, d, n: pol(f, d, n) or symex.is_new_helper(f)  # noqa: E731
    out = []
    for p in symex.Interp(F, inline=wide, max_depth=5).run(fn):
        agg = None
        for e in p.effects:
            vals = list(e.data[2]) if e.kind == 'call' else ([e.data[1]] if e.kind == 'write' else [])
            for v in vals:
                for x in symex.subvalues(v):
                    if isinstance(x, tuple) and x and x[0] == 'agg' and x[1] == 'adt' and x[2] == 'call_pattern::CallPattern':
                        agg = agg or x
        if agg is not None:
            out.append((p, agg))
    return fn, bi, out
