"""Shared rules over the instance lifecycle: teardown / Drop / verify / clone (C03 C08 C09 C11)."""
import re
import symex
from symex import show, is_call, strip, field_path, mentions, subvalues, as_comparison, linear, decision_truth, decision_variant
import tables
from tables import IGNORE

PANIC_ENTRY = re.compile(
    r'^(core::panicking::|std::rt::begin_panic|std::panicking::|core::option::(unwrap_failed|expect_failed)$|'
    r'core::result::unwrap_failed$|core::option::Option::(unwrap|expect)$|'
    r'core::result::Result::(unwrap|expect|unwrap_err|expect_err)$|std::process::(abort|exit)$|core::intrinsics::abort$)')


def is_panic_entry(name):
    return bool(PANIC_ENTRY.search(name))


def truth_of(dec):
    """(inner value, truth taken) for a decision on a bool value, peeling Not"""
    t = decision_truth(dec)
    v = strip(dec.value)
    while v[0] == 'un' and v[1] == 'Not':
        v = strip(v[2])
        t = (not t) if t is not None else None
    return v, t


def self_field(v, name, param=1):
    """v reads field `name` of the function's parameter `param` (through refs/derefs)"""
    root, names = field_path(v)
    return root == ('param', 0, param) and names == [name]


def is_iter_next(v):
    return v[0] == 'discr' and is_call(v[1], r'::Iterator>?::next$|Iterator::next$|Peekable::peek$')


# ------------------------------------------------------------------------------------------
# teardown decision table
# ------------------------------------------------------------------------------------------

def is_strong_count(s):
    return is_call(s, r'Arc::strong_count$') and mentions(
        s, lambda x: (x[0] == 'field' and x[2] == 'shared_state') or (x[0] == 'ref' and any(e == ('f', 'shared_state') for e in x[1][1])))


def teardown_atomizer(F, nostd):
    def atom(d, path):
        v = strip(d.value)
        if v[0] == 'discr':
            if is_iter_next(v):
                return IGNORE
            return None
        if is_strong_count(v):
            # `match strong_count { 1 => .., _ => .. }`: a switch on the integer itself
            if isinstance(d.branch, int):
                return ('strong', {d.branch})
            return ('strong', {1, 2, 3, 4} - set(d.branch[1]))
        inner, t = truth_of(d)
        if t is None:
            return None
        if self_field(inner, 'original_instance'):
            return ('original', {int(t)})
        if is_call(inner, r'^std::thread::panicking$'):
            return ('panicking', {int(t)})
        if nostd and is_call(inner, r'private::MutexIsh::locked$') and any(
                field_path(a)[1] == ['panicked'] and field_path(a)[0] in (('param', 0, 1), ('deref', ('param', 0, 1))) for a in inner[2]):
            # (this instance's own flag: a flag kept with the shared state would let a failure seen through any clone silence the original)
            return ('panicking', {int(t)})
        cmp = as_comparison(inner)
        if cmp:
            op, l, r = cmp
            ll, rr = linear(l), linear(r)
            if ll is not None and rr is not None:
                syms = dict(ll[0])
                for s, c in rr[0].items():
                    syms[s] = syms.get(s, 0) - c
                syms = {s: c for s, c in syms.items() if c}
                if len(syms) == 1:
                    (s, c), = syms.items()
                    if is_strong_count(s) and c in (1, -1):
                        k = ll[1] - rr[1]
                        vals = set()
                        for sc in (1, 2, 3, 4):
                            dd = c * sc + k
                            if symex.cmp_holds(op, dd) == t:
                                vals.add(sc)
                        return ('strong', vals)
        # the creating thread, kept somewhere in the shared state (whatever the field is called / wrapped in), against the current one
        if is_call(inner, r'core::cmp::PartialEq>?::(ne|eq)$') and mentions(inner, lambda x: (x[0] == 'field' and x[2] in ('original_thread', 'shared_state')) or (x[0] == 'ref' and any(e in (('f', 'original_thread'), ('f', 'shared_state')) for e in x[1][1]))) \
                and mentions(inner, lambda x: is_call(x, r'^std::thread::current$')):
            ne = inner[1].endswith('::ne')
            return ('foreign_thread', {int(t if ne else (not t))})
        if is_call(inner, r'Vec::is_empty$') or is_call(inner, r'<impl \[T\]>::is_empty$'):
            src = inner[2][0]
            if mentions(src, lambda x: is_call(x, r'SharedState::clone_panic_reasons$')):
                return ('reasons_empty', {int(t)})
            if mentions(src, lambda x: is_call(x, r'Vec::new$|Vec::with_capacity$')):
                pointee = src[3] if src[0] == 'ref' and len(src) > 3 else src
                if pointee[0] == 'call':
                    # std contract: a fresh vector nobody could push to is empty => the `false` branch is infeasible
                    return ('errors_empty', {1} if t else set())
                return ('errors_empty', {int(t)})
        return None
    return atom


_VERIFY_VECS = set()      # creation sites of the vectors handed to FnMocker::verify on some path of the teardown being analysed


def teardown_outcome(path):
    o = path.outcome
    verified = path.called(r'fn_mocker::FnMocker::verify$')
    tag = '+verify' if verified else ''
    if o[0] == 'return':
        v = strip(o[1])
        if is_call(v, r'FromResidual<.*>>?::from_residual$') and v[2] and strip(v[2][0])[0] == 'agg' and strip(v[2][0])[3] == 'Err':
            v = strip(v[2][0])      # (`Err(e)?` written through a helper that was opened up: the early return of that very Err)
        if v[0] == 'agg' and v[3] == 'Ok':
            return 'ok' + tag
        # the verdict kept as the list of errors itself (empty = nothing to report) instead of Result<(), Vec<_>>
        if v[0] == 'call' and is_call(v, r'SharedState::clone_panic_reasons$'):
            return 'err:reasons' + tag
        if v[0] == 'call' and is_call(v, r'Vec::new$|Vec::with_capacity$|Default>?::default$'):
            handed = [e for e in path.calls(r'fn_mocker::FnMocker::verify$') if len(e.data[2]) > 1 and mentions(e.data[2][1], lambda x: x[0] == 'call' and len(x) > 3 and x[3] == v[3])]
            if handed or v[3] in _VERIFY_VECS:
                # the very vector FnMocker::verify fills (on this path for zero or more methods): empty exactly when every expectation was met
                return 'errors+verify'
            return 'ok' + tag               # a fresh, empty list: nothing to report
        if v[0] == 'agg' and v[3] == 'Err':
            payload = v[4][0][1]
            if mentions(payload, lambda x: is_call(x, r'SharedState::clone_panic_reasons$')) and strip(payload)[0] == 'call':
                return 'err:reasons' + tag
            if mentions(payload, lambda x: is_call(x, r'Vec::new$')) and verified:
                # the very vector handed to FnMocker::verify
                return 'err:errors' + tag
            return 'err:other(%s)' % show(payload)
        return 'return:%s' % show(v)
    if o[0] == 'diverge':
        return 'panic' + tag
    return o[0]


def teardown_oracle(nostd):
    rows = [
        ('clone never verifies', {'original': {0}}, 'ok'),
        ('panicking: skip silently', {'original': {1}, 'panicking': {1}}, 'ok'),
        ('live clones: panic', {'original': {1}, 'panicking': {0}, 'strong': {2, 3, 4}}, 'panic'),
    ]
    base = {'original': {1}, 'panicking': {0}, 'strong': {1}}
    if not nostd:
        rows.append(('foreign thread: panic', dict(base, foreign_thread={1}), 'panic'))
        base = dict(base, foreign_thread={0})
    rows += [
        ('recorded errors are forwarded, counts not judged', dict(base, reasons_empty={0}), 'err:reasons'),
        ('no recorded errors, all expectations met', dict(base, reasons_empty={1}, errors_empty={1}), {'ok+verify', 'ok', 'errors+verify'}),
        ('no recorded errors, unmet expectations', dict(base, reasons_empty={1}, errors_empty={0}), {'err:errors+verify', 'errors+verify'}),
    ]
    return rows


def teardown_table(chk, F, rule, config):
    nostd = 'nostd' in config
    fn = F.fn('teardown::teardown')
    it = symex.Interp(F, inline=inline_small_bool(F))
    paths = it.run(fn)
    chk.analysed(fn)
    _VERIFY_VECS.clear()
    for p_ in paths:
        for e_ in p_.calls(r'fn_mocker::FnMocker::verify$'):
            if len(e_.data[2]) > 1:
                for x_ in symex.subvalues(e_.data[2][1]):
                    if x_[0] == 'call' and len(x_) > 3 and re.search(r'Vec::new$|Vec::with_capacity$|Default>?::default$', x_[1]):
                        _VERIFY_VECS.add(x_[3])
    rows = tables.abstract(paths, teardown_atomizer(F, nostd), teardown_outcome)
    tables.check_table(chk, rule, fn, rows, teardown_oracle(nostd), config=config)
    for r in rows[:3]:
        chk.sample({'fn': fn.defp, 'config': config, 'valuation': r.val_str(), 'outcome': r.outcome})
    return fn, paths, rows


def inline_small_bool(F):
    """inlining policy: local helper functions returning bool (guard helpers), small bodies"""
    def pol(callee, depth, name):
        if callee.kind not in ('fn', 'assoc'):
            return False
        ret = callee.locals[0]['ty']
        return ret == 'bool' and len(callee.blocks) <= 40
    return pol


# ------------------------------------------------------------------------------------------
# pre-effects of teardown: happen on every path before the first decision
# ------------------------------------------------------------------------------------------

def teardown_pre_effects(chk, F, rule, config, fn, paths):
    for p in paths:
        first = {}
        for e in p.effects:
            if e.kind == 'write':
                lv, v = e.data
                root, pth = lv
                if root == ('ptr', ('param', 0, 1)) and pth == (('f', 'torn_down'),) and v == ('c', True):
                    first.setdefault('torn_down', e.ndec)
            if e.kind == 'call':
                name, args = e.data[1], e.data[2]
                if re.search(r'OnceCell::take$', name) and args and field_path(args[0])[1] == ['default_impl_delegator_cell']:
                    first.setdefault('release_helper', e.ndec)
                if re.search(r'core::mem::(take|replace)$', name) and args and field_path(args[0])[1] == ['value_chain']:
                    first.setdefault('release_chain', e.ndec)
        for what in ('torn_down', 'release_helper', 'release_chain'):
            ok = first.get(what) == 0
            chk.ob(rule, 'teardown pre-effect `%s` happens on every path before the first branch' % what, ok,
                   config=config, fn=fn, site='pre:%s' % what, what='pre-effect %s missing or late' % what,
                   found={'first_at_decision': first.get(what), 'path_outcome': teardown_outcome(p)},
                   expected='effect present with no decision before it')
            if not ok:
                break
    # what was taken out is dropped *there* - before the first branch, in particular before the live-clone count is read: a value
    # that is merely bound to a name lives until the function returns and would still be counted as a live handle
    for p in paths:
        for what, rx, fld in (('release_helper', r'OnceCell::take$', 'default_impl_delegator_cell'), ('release_chain', r'core::mem::(take|replace)$', 'value_chain')):
            takes = [e for e in p.effects if e.kind == 'call' and re.search(rx, e.data[1]) and e.data[2] and field_path(e.data[2][0])[1] == [fld]]
            if not takes:
                continue
            tv = ('call', takes[0].data[1], takes[0].data[2], takes[0].data[3])
            drops = [e for e in p.effects if (e.kind == 'call' and re.search(r'core::mem::drop$', e.data[1]) and mentions(e.data[2][0], lambda x: x[0] == 'call' and x[1] == tv[1] and x[3] == tv[3])) or
                     (e.kind == 'drop' and mentions(e.data[0], lambda x: x[0] == 'call' and x[1] == tv[1] and x[3] == tv[3]))]
            ok = bool(drops) and min(e.ndec for e in drops) == 0
            chk.ob(rule, 'what teardown takes out (`%s`) is dropped before the first branch' % what, ok, config=config, fn=fn, site='pre:drop-now', what='%s dropped late or not at all' % what,
                   found={'drops_after_decisions': sorted(set(e.ndec for e in drops))}, expected='dropped with no decision before it')
            if not ok:
                break
    # released values are dropped (passed to mem::drop or Drop terminator), not forgotten
    for p in paths[:1]:
        dropped = [e for e in p.effects if (e.kind == 'call' and re.search(r'core::mem::drop$', e.data[1])) or e.kind == 'drop']
        chk.ob(rule, 'released helper/value chain are dropped right away', len(dropped) >= 2, config=config, fn=fn,
               site='pre:drop', what='released values not dropped', found=len(dropped), expected='>= 2 drops')


# ------------------------------------------------------------------------------------------
# Drop / verify / no_verify_in_drop / teardown_panic / teardown_report / clone / constructor
# ------------------------------------------------------------------------------------------

def _field_atom(names):
    def atom(d, path):
        inner, t = truth_of(d)
        if t is None:
            return None
        root, ns = field_path(inner)
        if root == ('param', 0, 1) and len(ns) == 1 and ns[0] in names:
            return (ns[0], {int(t)})
        return None
    return atom


def drop_table(chk, F, rule, config):
    fn = F.method('Unimock', 'drop', 'core::ops::Drop')
    paths = symex.Interp(F, inline=inline_small_bool(F)).run(fn)

    def outcome(p):
        n = sum(1 for _ in p.calls(r'^teardown::teardown_panic$'))
        others = [e.data[1] for e in p.calls() if not re.search(r'^teardown::teardown_panic$', e.data[1])]
        bad = [o for o in others if is_panic_entry(o) or re.search(r'^teardown::', o)]
        if p.outcome[0] != 'return':
            return 'diverge'
        return 'teardown_panic x%d%s' % (n, '+' + ','.join(bad) if bad else '')
    rows = tables.abstract(paths, _field_atom({'torn_down', 'verify_in_drop'}), outcome)
    oracle = [
        ('already torn down: nothing', {'torn_down': {1}}, 'teardown_panic x0'),
        ('verification disabled: nothing', {'torn_down': {0}, 'verify_in_drop': {0}}, 'teardown_panic x0'),
        ('otherwise exactly one teardown', {'torn_down': {0}, 'verify_in_drop': {1}}, 'teardown_panic x1'),
    ]
    tables.check_table(chk, rule, fn, rows, oracle, config=config)
    # the one call receives self
    for p in paths:
        for e in p.calls(r'^teardown::teardown_panic$'):
            a = e.data[2][0]
            ok = a[0] == 'ref' and a[1] == (('ptr', ('param', 0, 1)), ())
            chk.ob(rule, 'Drop::drop tears down *self*', ok, config=config, fn=fn, site='teardown_panic.arg',
                   what='teardown_panic not applied to self', found=show(a), expected='&mut *self')
    return fn


def verify_tables(chk, F, rule, config):
    fn = F.method('Unimock', 'verify')
    paths = symex.Interp(F, inline=inline_small_bool(F)).run(fn)

    def outcome(p):
        if p.outcome[0] == 'diverge':
            return 'panic' + ('+teardown' if p.called(r'^teardown::') else '')
        n = sum(1 for _ in p.calls(r'^teardown::teardown_panic$'))
        return 'teardown_panic x%d' % n
    rows = tables.abstract(paths, _field_atom({'original_instance'}), outcome)
    tables.check_table(chk, rule, fn, rows, [
        ('verify() on a clone panics', {'original_instance': {0}}, 'panic'),
        ('verify() on the original runs teardown once', {'original_instance': {1}}, 'teardown_panic x1'),
    ], config=config)
    for p in paths:
        for e in p.calls(r'^teardown::teardown_panic$'):
            a = e.data[2][0]
            ok = a[0] == 'ref' and (a[1][0] == ('local', 0, 1) or (len(a) > 3 and strip(a[3]) == ('param', 0, 1)))
            chk.ob(rule, 'verify() tears down self', ok, config=config, fn=fn, site='teardown_panic.arg',
                   what='teardown_panic not applied to self', found=show(a), expected='&mut self')

    fn2 = F.method('Unimock', 'no_verify_in_drop')
    paths2 = symex.Interp(F, inline=inline_small_bool(F)).run(fn2)

    def outcome2(p):
        if p.outcome[0] == 'diverge':
            return 'panic'
        v = p.outcome[1]
        # returned value is self with verify_in_drop = false
        if v == ('param', 0, 1):
            w = p.heap.get((('local', 0, 1), (('f', 'verify_in_drop'),)))
            return 'self[verify_in_drop=%s]' % (show(w) if w is not None else 'unchanged')
        if v[0] == 'overlay' and v[1] == ('param', 0, 1):
            ov = dict(v[2])
            others = [k for k in ov if k != (('f', 'verify_in_drop'),)]
            if not others:
                return 'self[verify_in_drop=%s]' % show(ov.get((('f', 'verify_in_drop'),), ('unk', 'unchanged')))
            return 'self-modified:%s' % show(v)
        if v[0] == 'agg':
            d = dict(v[4])
            return 'agg[verify_in_drop=%s]' % show(d.get('verify_in_drop'))
        return 'other:%s' % show(v)
    rows2 = tables.abstract(paths2, _field_atom({'original_instance'}), outcome2)
    tables.check_table(chk, rule, fn2, rows2, [
        ('no_verify_in_drop() on a clone panics', {'original_instance': {0}}, 'panic'),
        ('on the original: flag cleared, same instance returned', {'original_instance': {1}}, {'self[verify_in_drop=False]'}),
    ], config=config)
    return fn, fn2


def pipeline_calls(v, source_pred, limit=40):
    """list of callee names on the way from value v down to the first sub-value satisfying
    source_pred, following first/receiver arguments, refs and snapshots; None if not found"""
    names = []
    cur = v
    for _ in range(limit):
        while isinstance(cur, tuple) and cur and cur[0] == 'havoc':
            # the value was handed out mutably to this callee on the way: part of the pipeline
            if len(cur) > 3:
                names.append(cur[3])
            cur = cur[2]
        cur = strip(cur)
        if source_pred(cur):
            return names
        if cur[0] == 'call':
            names.append(cur[1])
            if not cur[2]:
                return None
            cur = cur[2][0]
        elif cur[0] == 'ref':
            if len(cur) > 3 and cur[1][0][0] == 'local':
                cur = cur[3]
            elif cur[1][0][0] == 'ptr':
                nxt = cur[1][0][1]
                cur = nxt
            else:
                return None
        elif cur[0] in ('deref', 'field', 'as'):
            cur = cur[1]
        else:
            return None
    return None


ORDER_PRESERVING_TOTAL = re.compile(
    r'(::Deref>?::deref$|::iter$|::into_iter$|IntoIterator::into_iter$|Iterator::map$|Iterator::collect$|'
    r'Iterator::enumerate$|Iterator::cloned$|Iterator::copied$|Iterator::by_ref$|Iterator::peekable$|'
    r'::join$|::concat$|::as_slice$|AsRef>?::as_ref$|Borrow>?::borrow$|::to_vec$|ToString::to_string$|Clone>?::clone$|'
    r'BTreeMap::values$|BTreeMap::iter$|Iterator::for_each$|Iterator::inspect$|::as_ref$|Into>?::into$|From>?::from$)')
ORDER_DENY = re.compile(
    r'(::rev$|::last$|::next_back$|::nth(_back)?$|::rfind$|::rposition$|::max(_by|_by_key)?$|::min(_by|_by_key)?$|'
    r'::skip(_while)?$|::step_by$|::take(_while)?$|::sort(_by|_by_key|_unstable\w*)?$|::reverse$|::swap\w*$|::rotate_\w+$|'
    r'::dedup\w*$|::retain(_mut)?$|::remove$|::swap_remove$|::insert$|::pop$|::truncate$|::drain$|::split_off$|::chunks\w*$|'
    r'::windows$|::first$|::filter$|::filter_map$|::find(_map)?$|::position$|::split_first$|::split_last$|::get$|::clear$)')


def check_pipeline(chk, rule, fn, config, site, v, source_pred, what):
    names = pipeline_calls(v, source_pred)
    if names is None:
        chk.ob(rule, '%s: value is derived from the expected source' % what, False, config=config, fn=fn, site=site,
               what='source-not-found', found=show(v), expected='a pipeline rooted at the expected container')
        return False
    ok = True
    for n in names:
        if ORDER_DENY.search(n):
            chk.ob(rule, '%s: traversal is forward and complete' % what, False, config=config, fn=fn, site=site,
                   what='deny:%s' % n.rsplit('::', 1)[-1], found=n, expected='order-preserving total adaptors only')
            ok = False
        elif not ORDER_PRESERVING_TOTAL.search(n) and not is_panic_entry(n):
            chk.ob(rule, '%s: adaptor is known' % what, False, config=config, fn=fn, site=site, unrecognised=True,
                   what='unknown-adaptor:%s' % n, found=n, expected='an adaptor of the allow or deny set')
            ok = False
    if ok:
        chk.ob(rule, '%s: forward-complete pipeline %s' % (what, ' <- '.join(x.rsplit('::', 1)[-1] for x in names)), True,
               config=config, fn=fn, site=site)
    return ok


def loops_run_to_completion(chk, rule, fn, config, paths, fail_outcome=lambda p: p.outcome[0] == 'diverge'):
    """K5 (loop form): on every path that does not end in the function's failure outcome, the last
    decision taken on each iterator `next` site is the exhausted (`None`) branch."""
    ok = True
    nsites = set()
    for p in paths:
        if fail_outcome(p):
            continue
        last = {}
        for d in p.decisions:
            v = strip(d.value)
            if is_iter_next(v) and not is_call(v[1], r'Peekable::peek$'):      # (looking ahead does not advance the loop)
                site = (d.fn.defp, d.bb)
                nsites.add(site)
                last[site] = decision_variant(p_facts(d), d)
        for site, var in last.items():
            good = var == 'None'
            if not good:
                ok = False
            chk.ob(rule, 'loop over iterator at bb%d of %s only exits when exhausted' % (site[1], site[0]), good, config=config,
                   fn=fn, site='loop@%s' % site[0], what='early-exit', found='path leaves the loop after `next` returned %s' % (var,),
                   expected='exit only on None (or on the failure outcome)')
    return ok, len(nsites)


def p_facts(d):
    return d.fn.facts


def teardown_panic_table(chk, F, rule, config):
    fn = F.fn('teardown::teardown_panic')
    paths = symex.Interp(F).run(fn)

    def atom(d, p):
        v = strip(d.value)
        if v[0] == 'discr' and is_call(v[1], r'^teardown::teardown$'):
            var = decision_variant(F, d)
            if isinstance(var, str):
                return ('teardown', {var})
        inner_, t_ = truth_of(d)
        if t_ is not None and is_call(inner_, r'Vec(<T, A>)?::is_empty$|<impl \[T\]>::is_empty$') and mentions(inner_, lambda x: is_call(x, r'^teardown::teardown$')):
            return ('teardown', {'Ok' if t_ else 'Err'})      # (the verdict kept as the list of errors: empty = nothing to report)
        if is_iter_next(v):
            return IGNORE
        return  None

    def outcome(p):
        n = sum(1 for _ in p.calls(r'^teardown::teardown$'))
        if p.outcome[0] == 'diverge':
            return 'panic(teardown x%d)' % n
        return 'return(teardown x%d)' % n
    rows = tables.abstract(paths, atom, outcome)
    tables.check_table(chk, rule, fn, rows, [
        ('Ok: silent', {'teardown': {'Ok'}}, 'return(teardown x1)'),
        ('Err: panic', {'teardown': {'Err'}}, 'panic(teardown x1)'),
    ], config=config)
    # the panic message is built from all errors, in order
    for p in paths:
        if p.outcome[0] != 'diverge':
            continue
        t = p.outcome
        last = [e for e in p.effects if e.kind == 'call'][-1]
        arg = last.data[2][0] if last.data[2] else ('unk', 'noarg')
        src = lambda x: (x[0] == 'field' and x[2] == '0' and x[1][0] == 'as' and x[1][2] == 'Err' and is_call(x[1][1], r'^teardown::teardown$')) or \
            (is_call(x, r'^teardown::teardown$') and fn.facts.fns['teardown::teardown'].locals[0]['ty'].startswith('std::vec::Vec<'))  # noqa: E731
        if pipeline_calls(arg, src) is None and accumulated_message(chk, rule, fn, config, p, arg, src):
            continue
        check_pipeline(chk, rule, fn, config, 'panic-message', arg, src, 'panic message of teardown_panic is built from every error')
    return fn


ACCUMULATE_OK = re.compile(r'(String::push_str$|String::push$|Write>?::write_str$|Write>?::write_fmt$|AddAssign<.*>>?::add_assign$|String::extend\w*$|Extend<.*>>?::extend$|String::reserve$)')


def accumulated_message(chk, rule, fn, config, p, arg, source_pred):
    """loop form of `errors.iter().map(to_string).collect().join(..)`: a fresh String that is only appended to, inside a loop
    that walks the errors front to back to exhaustion and appends a rendering of every element. Returns False when the shape is
    not this one (the caller then reports through the pipeline rule)."""
    cur = arg
    names = []
    for _ in range(40):
        while isinstance(cur, tuple) and cur and cur[0] == 'havoc':
            if len(cur) > 3:
                names.append(cur[3])
            cur = cur[2]
        if not isinstance(cur, tuple) or not cur:
            return False
        if cur[0] == 'ref' and len(cur) > 3:
            cur = cur[3]
            continue
        break
    if not (is_call(cur, r'String::(new|with_capacity)$') and all(ACCUMULATE_OK.search(n) for n in names)):
        return False
    nexts = [e for e in p.effects if e.kind == 'call' and re.search(r'Iterator>?::next$', e.data[1])]
    if not nexts:
        return False
    ok_src = True
    for e in nexts:
        pn = pipeline_calls(e.data[2][0], source_pred)
        ok_src = ok_src and pn is not None and not any(ORDER_DENY.search(n) for n in pn) and all(ORDER_PRESERVING_TOTAL.search(n) or re.search(r'Iterator>?::next$', n) for n in pn)
    chk.ob(rule, 'panic message of teardown_panic is built from every error: the loop walks the error list itself, front to back', ok_src, config=config, fn=fn, site='panic-message:loop-source',
           what='accumulating loop source', found=[e.data[1] for e in nexts][:3])
    # ran to completion before the panic: the last decision on the loop's `next` is None
    last = None
    some = []
    for d in p.decisions:
        v = strip(d.value)
        if is_iter_next(v):
            last = decision_variant(p_facts(d), d)
            if last == 'Some':
                some.append(strip(v[1]))
    chk.ob(rule, 'panic message of teardown_panic is built from every error: the loop runs to exhaustion before the panic', last == 'None', config=config, fn=fn, site='panic-message:loop-complete',
           what='accumulating loop exit %s' % last, found=last)
    # every element is rendered into the message
    pushes = [e for e in p.effects if e.kind == 'call' and ACCUMULATE_OK.search(e.data[1])]
    rendered = 0
    for el in some:
        if any(mentions(a, lambda x: x == el) for e in pushes for a in e.data[2][1:]):
            rendered += 1
    chk.ob(rule, 'panic message of teardown_panic is built from every error: each element is appended', rendered == len(some) and (bool(some) or not names), config=config, fn=fn, site='panic-message:loop-append',
           what='elements appended %d/%d' % (rendered, len(some)), found={'iterations': len(some), 'appended': rendered})
    return True


def teardown_report_table(chk, F, rule, config):
    fn = F.fn('teardown::teardown_report', optional=True)
    if fn is None:
        return None
    paths = symex.Interp(F).run(fn)

    def atom(d, p):
        v = strip(d.value)
        if v[0] == 'discr' and is_call(v[1], r'^teardown::teardown$'):
            var = decision_variant(F, d)
            if isinstance(var, str):
                return ('teardown', {var})
        inner_, t_ = truth_of(d)
        if t_ is not None and is_call(inner_, r'Vec(<T, A>)?::is_empty$|<impl \[T\]>::is_empty$') and mentions(inner_, lambda x: is_call(x, r'^teardown::teardown$')):
            return ('teardown', {'Ok' if t_ else 'Err'})      # (the verdict kept as the list of errors: empty = nothing to report)
        if is_iter_next(v):
            return IGNORE
        return  None

    def outcome(p):
        if p.outcome[0] != 'return':
            return p.outcome[0]
        v = strip(p.outcome[1])
        s = show(v)
        if 'SUCCESS' in s:
            return 'SUCCESS'
        if 'FAILURE' in s:
            return 'FAILURE'
        return 'other:' + s
    rows = tables.abstract(paths, atom, outcome)
    tables.check_table(chk, rule, fn, rows, [
        ('Ok: SUCCESS', {'teardown': {'Ok'}}, 'SUCCESS'),
        ('Err: FAILURE', {'teardown': {'Err'}}, 'FAILURE'),
    ], config=config)
    loops_run_to_completion(chk, rule, fn, config, paths)
    return fn


def clone_and_ctor(chk, F, rule, config):
    fn = F.method('Unimock', 'clone', 'core::clone::Clone')
    paths = symex.Interp(F).run(fn)
    chk.ob(rule, 'Clone::clone is straight-line', len(paths) == 1, config=config, fn=fn, site='paths', unrecognised=True,
           what='clone has branches', found=len(paths), expected=1)
    for p in paths:
        v = strip(p.outcome[1]) if p.outcome[0] == 'return' else ('unk', 'noreturn')
        d = dict(v[4]) if v[0] == 'agg' else {}
        ss = d.get('shared_state', ('unk', 'missing'))
        shares = is_call(ss, r'Arc.* as core::clone::Clone>::clone$|Arc::clone$') and ss[2] and field_path(ss[2][0]) == (('param', 0, 1), ['shared_state'])
        chk.ob(rule, 'clone shares the Arc of the source (same shared state)', shares, config=config, fn=fn, site='shared_state',
               what='clone does not share state', found=show(ss), expected='Arc::clone(&self.shared_state)')
        chk.ob(rule, 'clone is not an original instance', d.get('original_instance') == ('c', False), config=config, fn=fn,
               site='original_instance', what='clone copies/sets original_instance', found=show(d.get('original_instance', ('unk', '?'))), expected='false')
        chk.ob(rule, 'clone starts not torn down', d.get('torn_down') == ('c', False), config=config, fn=fn,
               site='torn_down', what='clone torn_down', found=show(d.get('torn_down', ('unk', '?'))), expected='false')
        vid = d.get('verify_in_drop', ('unk', '?'))
        chk.ob(rule, 'clone copies verify_in_drop', field_path(vid) == (('param', 0, 1), ['verify_in_drop']), config=config, fn=fn,
               site='verify_in_drop', what='verify_in_drop not copied', found=show(vid), expected='self.verify_in_drop')
        for fld, pat in (('value_chain', r'Default>?::default$|ValueChain::new$'), ('default_impl_delegator_cell', r'Default>?::default$|OnceCell::new$')):
            x = d.get(fld, ('unk', '?'))
            chk.ob(rule, 'clone gets a fresh %s' % fld, is_call(x, pat) and not x[2], config=config, fn=fn, site=fld,
                   what='%s not fresh' % fld, found=show(x), expected='a newly constructed empty value')
    chk.sample({'fn': fn.defp, 'returns': show(paths[0].outcome[1]) if paths else None})

    # constructors, analysed as a whole: the private helpers they go through (today: from_assembler -> SharedState::new) are part of them
    fa = None
    ctor_inline = lambda c, d, n: (c.defp.startswith('Unimock::') and c.vis != 'Public' and c.kind in ('fn', 'assoc')) or bool(re.search(r'^state::SharedState::new$', n))  # noqa: E731
    for name, mode in (('new', 'Error'), ('new_partial', 'Unmock')):
        f = F.method('Unimock', name)
        fa = fa or f
        paths = symex.Interp(F, inline=ctor_inline, max_depth=4).run(f)

        def assembled_call(v):
            return is_call(v, r'MockAssembler::try_from_clause$') and strip(v[2][0]) == ('param', 0, 1)

        def atom(d, p):
            v = strip(d.value)
            if v[0] == 'discr' and assembled_call(strip(v[1])):
                var = decision_variant(F, d)
                if isinstance(var, str):
                    return ('assembled', {var})
            return None

        def outcome(p, mode=mode):
            if p.outcome[0] == 'diverge':
                return 'panic'
            v = strip(p.outcome[1])
            if v[0] != 'agg':
                return 'other'
            d = dict(v[4])
            flags = (d.get('original_instance'), d.get('torn_down'), d.get('verify_in_drop'))
            if flags != (('c', True), ('c', False), ('c', True)):
                return 'bad-flags:%s' % (tuple(show(x) if x else None for x in flags),)
            ss = d.get('shared_state', ('unk', '?'))
            if not (is_call(ss, r'Arc::new$') and ss[2]):
                return 'bad-state:%s' % show(ss)
            st = strip(ss[2][0])
            if st[0] == 'agg' and st[2] == 'state::SharedState':
                sd = dict(st[4])
                fbm = strip(sd.get('fallback_mode', ('unk', '?')))
                if not (fbm[0] == 'agg' and fbm[3] == mode):
                    return 'bad-fallback:%s' % show(fbm)
                fm = sd.get('fn_mockers', ('unk', '?'))
                src = strip(fm[2][0]) if is_call(fm, r'MockAssembler::finish$') and fm[2] else ('unk', '?')
                if not (src[0] == 'field' and src[2] == '0' and strip(src[1])[0] == 'as' and strip(src[1])[2] == 'Ok' and assembled_call(strip(strip(src[1])[1]))):
                    return 'bad-fn_mockers:%s' % show(fm)
                if 'nostd' not in config:
                    # some field of the fresh state records the creating thread: Thread::id(thread::current()) taken at construction
                    if not mentions(st, lambda x: is_call(x, r'std::thread::Thread::id$') and mentions(x, lambda y: is_call(y, r'^std::thread::current$'))):
                        return 'bad-thread:%s' % show(sd.get('original_thread', ('unk', '?')))
                pr = sd.get('panic_reasons', ('unk', '?'))
                if not (is_call(pr, r'MutexIsh::new$')):
                    return 'bad-reasons:%s' % show(pr)
                ni = sd.get('next_ordered_call_index', ('unk', '?'))
                if not (is_call(ni, r'Atomic\w*::new$') and ni[2] and ni[2][0] == ('c', 0)):
                    return 'bad-index:%s' % show(ni)
                return 'fresh-original'
            return 'bad-state:%s' % show(st)
        rows = tables.abstract(paths, atom, outcome)
        tables.check_table(chk, rule, f, rows, [
            ('assembly error => construction panics', {'assembled': {'Err'}}, 'panic'),
            ('assembled => fresh original instance with fresh shared state and FallbackMode::%s' % mode, {'assembled': {'Ok'}}, 'fresh-original'),
        ], config=config)
        for p in paths:
            n_asm = len(list(p.calls(r'MockAssembler::try_from_clause$')))
            chk.ob(rule, 'Unimock::%s builds from its clause with FallbackMode::%s and does nothing else' % (name, mode), n_asm == 1, config=config, fn=f, site='from_assembler', what='constructor assembles %d times' % n_asm, found=n_asm)
    return fn, fa


def report_table(chk, F, rule, config):
    fn = F.method('Unimock', 'report', 'std::process::Termination', optional=True)
    if fn is None:
        chk.ob(rule, 'Termination::report exists in std builds', False, config=config, site='anchor', unrecognised=True,
               what='Termination::report missing')
        return None
    paths = symex.Interp(F).run(fn)
    mocked = any(p.called(r'^private::eval$') for p in paths)
    if not mocked:
        for p in paths:
            cs = list(p.calls(r'^teardown::teardown_report$'))
            ok = len(cs) == 1 and p.outcome[0] == 'return' and is_call(strip(p.outcome[1]), r'^teardown::teardown_report$')
            if ok:
                a = cs[0].data[2][0]
                ok = a[0] == 'ref' and a[1][0] == ('local', 0, 1)
            chk.ob(rule, 'report() returns the verdict of teardown_report(self)', ok, config=config, fn=fn, site='teardown_report',
                   what='report wiring', found=[e.data[1] for e in p.calls()], expected='one teardown_report(&mut self), returned')
        return fn

    # mock-std: report() is itself a mocked method, partial-by-default, whose Unmock arm runs teardown_report
    def atom(d, p):
        v = strip(d.value)
        if v[0] == 'discr':
            var = decision_variant(F, d)
            if is_call(v[1], r'^private::eval$') and isinstance(var, str):
                return ('eval', {var})
            inner = strip(v[1])
            if inner[0] == 'field' and inner[1][0] == 'as' and inner[1][2] == 'Continue' and isinstance(var, str):
                return ('cont', {var})
            if isinstance(var, tuple):
                return ('cont', set(var[1]))
        return None

    def outcome(p):
        if p.outcome[0] == 'diverge':
            return 'report:' + p.outcome[1].rsplit('::', 1)[-1]
        v = strip(p.outcome[1])
        if is_call(v, r'^teardown::teardown_report$'):
            return 'teardown_report'
        if v[0] == 'field' and v[1][0] == 'as' and v[1][2] == 'Return':
            # (a canned exit code does not replace the verification: the instance must still be verified when it is dropped at the end of
            #  report() - so nothing on this path may tear it down and throw the verdict away)
            torn = [e.data[1] for e in p.calls(r'^teardown::(teardown|teardown_report|teardown_panic)$')]
            return 'mocked-output' + ('+%s(verdict discarded)' % torn[0].rsplit('::', 1)[-1] if torn else '')
        return 'other:' + show(v)
    rows = tables.abstract(paths, atom, outcome)
    tables.check_table(chk, rule, fn, rows, [
        ('a clause answered: its output', {'eval': {'Return'}}, 'mocked-output'),
        ('unmocked (partial by default): real verification verdict', {'eval': {'Continue'}, 'cont': {'Unmock'}}, 'teardown_report'),
        ('anything else: reported as an error', {'eval': {'Continue'}, 'cont': {'Answer', 'CallDefaultImpl'}}, 'report:report'),
    ], config=config)
    return fn


HELPER_CLONE_ALLOW = {
    r'^<Unimock as core::convert::AsRef<default_impl_delegator::DefaultImplDelegator>>::as_ref(::\{closure#\d+\})?$': 'helper stored in default_impl_delegator_cell (released by teardown first)',
    r'^<Unimock as core::convert::AsMut<default_impl_delegator::DefaultImplDelegator>>::as_mut(::\{closure#\d+\})?$': 'helper stored in default_impl_delegator_cell',
    r'^<core::pin::Pin<&\'u mut Unimock> as default_impl_delegator::DelegateToDefaultImpl>::to_delegator(::\{closure#\d+\})?$': 'helper stored in default_impl_delegator_cell',
    r'^<std::(rc::Rc|sync::Arc)<Unimock> as default_impl_delegator::DelegateToDefaultImpl>::(to|from)_delegator(::\{closure#\d+\})?$': 'Rc/Arc receivers: transient handle for the duration of the provided method (see R15.5)',
    r'^private::clone_unimock$': 'public helper returning the clone to generated code',
    r'^<default_impl_delegator::DefaultImplDelegator as core::clone::Clone>::clone$': 'derive(Clone) of the helper wrapper',
}


def helper_clones(chk, F, rule, config):
    clone = F.method('Unimock', 'clone', 'core::clone::Clone')
    sites = F.callers_of(clone.defp)
    n = 0
    for f, bb, t in sites:
        n += 1
        reason = None
        for pat, why in HELPER_CLONE_ALLOW.items():
            if re.search(pat, f.defp):
                reason = why
        chk.ob(rule, 'internal clone of the mock at %s is a known helper site' % f.defp, reason is not None, config=config, fn=f,
               site='Unimock::clone', what='unexpected internal clone site',
               found='call to <Unimock as Clone>::clone', expected='one of: ' + '; '.join(sorted(set(HELPER_CLONE_ALLOW.values()))))
    chk.call_sites += n
    chk.floor(rule, 'internal call sites of <Unimock as Clone>::clone', n, 5, config=config)
    # cell-stored helpers: the get_or_init closure builds DefaultImplDelegator{unimock: self.clone()}
    for tr in ('core::convert::AsRef', 'core::convert::AsMut'):
        for fn in F.fns.values():
            io = fn.impl_of or {}
            if fn.kind == 'assoc' and io.get('self_adt') == 'Unimock' and (io.get('trait') or '').startswith(tr) and 'DefaultImplDelegator' in io.get('trait_ref', ''):
                ps = symex.Interp(F).run(fn)
                for p in ps:
                    goi = [e for e in p.calls(r'OnceCell::get_or_init$')]
                    ok = len(goi) == 1 and field_path(goi[0].data[2][0])[1] == ['default_impl_delegator_cell']
                    chk.ob(rule, '%s keeps its helper in the per-instance cell' % fn.defp, ok, config=config, fn=fn, site='get_or_init',
                           what='helper not stored in default_impl_delegator_cell', found=[e.data[1] for e in p.calls()],
                           expected='default_impl_delegator_cell.get_or_init(..)')


# ------------------------------------------------------------------------------------------
# explicit panic sites, may-panic summaries, lock discipline (C08 / C11 / C12)
# ------------------------------------------------------------------------------------------

def panic_sites(fn):
    """explicit panic entry call sites of one body (normal and cleanup blocks)"""
    out = []
    for bb, t in fn.calls(include_cleanup=True):
        n = symex.callee_name(t)
        if is_panic_entry(n):
            out.append((bb, n, t))
    return out


def may_panic_map(F):
    """def -> list of (fn def, bb, entry) reachable explicit panic sites through local calls"""
    direct = {d: [(d, bb, n) for bb, n, _ in panic_sites(fn)] for d, fn in F.fns.items()}
    cg = F.callgraph()
    res = {d: list(v) for d, v in direct.items()}
    changed = True
    while changed:
        changed = False
        for d in res:
            cur = set(map(tuple, res[d]))
            for c in cg.get(d, ()):
                for s in res.get(c, ()):
                    if tuple(s) not in cur:
                        cur.add(tuple(s))
                        res[d].append(tuple(s))
                        changed = True
    return res


def no_panic_unless_not_panicking(chk, F, rule, config, fn, rows):
    """R11.1: on every teardown path that has not established `panicking == false`, nothing that can
    panic explicitly is called, and the result is Ok."""
    mp = may_panic_map(F)
    n = 0
    for r in rows:
        pan = r.valuation.get('panicking')
        guarded_at = None
        for i, d in enumerate(r.path.decisions):
            a = teardown_atomizer(F, 'nostd' in config)(d, r.path)
            if a and a != IGNORE and a[0] == 'panicking' and a[1] == {0}:
                guarded_at = i + 1
                break
        for e in r.path.effects:
            if e.kind != 'call':
                continue
            if guarded_at is not None and e.ndec >= guarded_at:
                continue
            n += 1
            name = e.data[1]
            bad = None
            if is_panic_entry(name):
                bad = 'explicit panic entry %s' % name
            else:
                d = symex.callee_def(e.term)
                sites = mp.get(d) if d in F.fns else None
                if sites:
                    # recursion into Drop for a helper clone is fine: it is this very analysis (teardown)
                    bad = 'local callee %s can panic explicitly at %s' % (name, ['%s bb%d %s' % s for s in sites[:3]])
            chk.ob(rule, 'call made by teardown before the not-panicking guard cannot panic explicitly', bad is None, config=config,
                   fn=fn, site='call:%s' % name, what='panic reachable while unwinding', found=bad,
                   expected='every explicit panic site of the drop path lies behind `thread::panicking() == false`')
        if pan is None or 1 in pan:
            ok = r.outcome in ('ok',)
            chk.ob(rule, 'teardown path that may run while unwinding returns Ok without verifying', ok, config=config, fn=fn,
                   site='outcome', what='non-Ok outcome while possibly unwinding: %s' % r.outcome, found={'valuation': r.val_str(), 'outcome': r.outcome},
                   expected='ok')
    chk.call_sites += n
    return n


READONLY_STD = re.compile(r'^(core::mem::take|std::vec::Vec::(len|is_empty|capacity)|core::slice::<impl \[T\]>::(len|is_empty|first|last)|<std::vec::Vec<T, A> as core::ops::Deref>::deref|core::option::Option::(is_some|is_none))$')


def locked_census(chk, F, rule, config, allow, floor):
    """R11.3 / R08.3 / R12.2: every closure run under MutexIsh::locked only calls allow-listed, non-user code.
    allow: list of (receiver-field regex, callee regex list)"""
    locked = F.fn('private::MutexIsh::locked')
    # the lock wrapper itself: lock, unwrap (poison), deref_mut, call_once
    lock_calls = []
    for bb, t in locked.calls():
        d_ = symex.callee_def(t)
        hf_ = F.fns.get(d_)
        if hf_ is not None and symex.is_new_helper(hf_):
            # the per-backend lock primitive extracted into a helper of its own: what it calls is what `locked` calls
            lock_calls += list(hf_.calls())
        else:
            lock_calls.append((bb, t))
    for bb, t in lock_calls:
        n = symex.callee_name(t)
        ok = bool(re.search(r'(Mutex::lock$|Result::unwrap$|DerefMut>?::deref_mut$|Deref>?::deref$|FnOnce::call_once$|RefCell::borrow_mut$)', n))
        chk.ob(rule, 'MutexIsh::locked only locks and runs the closure', ok, config=config, fn=locked, site='call:%s' % n,
               what='unexpected call in lock wrapper', found=n, expected='lock / unwrap / deref_mut / call_once', unrecognised=not ok)
    sites = F.callers_of(locked.defp, collapse_helpers=False)      # the census is keyed by the locked field, not by the calling function
    count = 0
    for f, bb, t in sites:
        if f.blocks[bb]['cleanup']:
            continue
        count += 1
        # receiver field and closure
        ps = symex.Interp(F).run(f) if f.kind != 'promoted' else []
        recv_field = None
        closure = None
        fn_item = None
        for p in ps:
            for e in p.calls(r'^private::MutexIsh::locked$'):
                if e.bb != bb:
                    continue
                a0, a1 = e.data[2][0], e.data[2][1]
                names = field_path(a0)[1]
                recv_field = names[-1] if names else show(a0)
                if f.kind == 'closure' and field_path(a0)[0] == ('param', 0, 1) and len(names) == 1:
                    recv_field = 'captured'      # (a lock the closure captured, whatever the variable is called)
                if not names and (f.impl_of or {}).get('self_adt') in getattr(F, 'transparent', ()):
                    recv_field = 'captured'      # (the lock is the single field of a wrapper type that does not exist on the reference tree)
                c = strip(a1)
                if c[0] == 'agg' and c[1] == 'closure':
                    closure = c[2]
                elif c[0] == 'c' and isinstance(c[1], tuple) and c[1] and c[1][0] == 'fn':
                    from facts import strip_generics
                    fn_item = strip_generics(str(c[1][1]))      # a function item handed to `locked` (`locked(core::mem::take)`): the one call made under the lock
        if recv_field is None:
            # closure may capture the mutex (e.g. `mutex.locked(..)` inside a returned closure): use the operand type
            recv_field = 'captured'
            a1 = t['args'][1]
        cf = F.fns.get(closure) if closure else None
        if cf is None and not (fn_item and re.match(r'^(core|std|alloc)::', fn_item)):
            chk.ob(rule, 'closure passed to locked at %s is a local closure literal' % f.defp, False, config=config, fn=f,
                   site='locked@bb', what='non-literal closure under lock', unrecognised=True, found=closure or fn_item, expected='closure literal')
            continue
        allowed = None
        for fld_rx, callees in allow:
            if re.search(fld_rx, recv_field):
                allowed = callees
        under = [(symex.callee_name(ct), symex.callee_kind(ct)) for cbb, ct in cf.calls(include_cleanup=True)] if cf is not None else [(fn_item, 'item')]
        for n, kind in under:
            # (read-only inspection of the std container under the lock is mock-internal std code too: it runs no user code)
            ok = allowed is not None and kind in ('item', 'intrinsic') and (any(re.search(rx, n) for rx in allowed) or bool(READONLY_STD.search(n)))
            chk.ob(rule, 'code run under the lock on `%s` is mock-internal (%s)' % (recv_field, n), ok, config=config, fn=cf or f,
                   site='under-lock:%s' % recv_field, what='call under lock: %s' % n,
                   found={'callee': n, 'kind': kind}, expected=allowed or 'a known lock site')
        # no dyn / indirect / user-generic calls at all
        if cf is not None:
            chk.analysed(cf)
    chk.floor(rule, 'MutexIsh::locked call sites', count, floor, config=config)
    # nobody but MutexIsh's own methods touches MutexIsh.inner
    for fn in F.fns.values():
        for body in [fn] + fn.promoted:
            for bb, s in body.stmts(include_cleanup=True):
                for pl in _places_of_stmt(s):
                    for e in pl['pr']:
                        if isinstance(e, dict) and e.get('adt') == 'private::MutexIsh' and e.get('name') == 'inner':
                            ok = (fn.impl_of or {}).get('self_adt') == 'private::MutexIsh'
                            chk.ob(rule, 'MutexIsh.inner is only touched by MutexIsh methods', ok, config=config, fn=fn,
                                   site='field:inner', what='lock bypass', found=fn.defp, expected='private::MutexIsh::{new,locked}')
    return count


def _places_of_stmt(s):
    out = []
    if s.get('k') == 'assign':
        out.append(s['p'])
        rv = s['rv']
        for k in ('ref', 'rawptr', 'discr'):
            if k in rv:
                out.append(rv[k])
        for k in ('use', 'x', 'l', 'r', 'repeat'):
            if k in rv and isinstance(rv[k], dict):
                for m in ('cp', 'mv'):
                    if m in rv[k]:
                        out.append(rv[k][m])
        for o in rv.get('ops', []):
            for m in ('cp', 'mv'):
                if m in o:
                    out.append(o[m])
    return out


def places_of_term(t):
    out = []
    for k in ('on', 'cond', 'value', 'func'):
        if k in t and isinstance(t[k], dict):
            for m in ('cp', 'mv'):
                if m in t[k]:
                    out.append(t[k][m])
    for a in t.get('args', []):
        for m in ('cp', 'mv'):
            if m in a:
                out.append(a[m])
    for k in ('dest', 'p'):
        if k in t and isinstance(t[k], dict) and 'l' in t[k]:
            out.append(t[k])
    return out


def attributed(F, accesses, kinds=None, root=False):
    """def paths of the functions a list of field accesses (from field_accesses) is attributed to. An access inside a function
    that does not exist on the reference tree (an extracted helper) counts for the helper's callers: allow-lists name the reference
    tree's functions."""
    out = set()
    for b, _, k, _ in accesses:
        if kinds is not None and k not in kinds:
            continue
        out |= owners_of(F, b, root=root)
    return sorted(out)


def owners_of(F, b, root=False, _depth=0):
    owner = F.fns.get(b.root) if b.kind in ('closure', 'promoted') and b.root in F.fns else b
    tw = symex.twins(F).get(owner.defp) if owner is not None else None
    if tw:
        return {tw[0]}       # (the body of a reference function that moved here: see symex.twins)
    if owner is not None and symex.is_new_helper(owner) and _depth < 4:
        ups = F.callers_of(owner.defp, collapse_helpers=False)
        if ups:
            res = set()
            for f, _, _ in ups:
                res |= owners_of(F, f, root=root, _depth=_depth + 1)
            return res
    return {(b.root if root else b.defp)}


def field_accesses(F, adt, field):
    """every (fn, bb, kind) that mentions field `field` of ADT `adt` in a place projection or aggregate"""
    out = []
    for fn in F.fns.values():
        for body in [fn] + fn.promoted:
            for i, b in enumerate(body.blocks):
                for s in b['stmts']:
                    if s.get('k') != 'assign':
                        continue
                    for pl in _places_of_stmt(s):
                        for e in pl['pr']:
                            if isinstance(e, dict) and e.get('adt') == adt and e.get('name') == field:
                                kind = 'write' if pl is s['p'] and pl['pr'] and pl['pr'][-1] is e else 'read'
                                out.append((body, i, kind, s))
                    rv = s['rv']
                    if rv.get('agg') == 'adt' and rv.get('adt') == adt and field in rv.get('fields', []):
                        out.append((body, i, 'construct', s))
                for pl in places_of_term(b['term']):
                    for e in pl['pr']:
                        if isinstance(e, dict) and e.get('adt') == adt and e.get('name') == field:
                            out.append((body, i, 'read', b['term']))
    return out


def field_accesses_fn(fn, adt, field):
    out = []
    for body in [fn] + fn.promoted:
        for i, b in enumerate(body.blocks):
            for s in b['stmts']:
                if s.get('k') != 'assign':
                    continue
                for pl in _places_of_stmt(s):
                    for e in pl['pr']:
                        if isinstance(e, dict) and e.get('adt') == adt and e.get('name') == field:
                            out.append((body, i, 'use', s))
                rv = s['rv']
                if rv.get('agg') == 'adt' and rv.get('adt') == adt and field in rv.get('fields', []):
                    out.append((body, i, 'construct', s))
            for pl in places_of_term(b['term']):
                for e in pl['pr']:
                    if isinstance(e, dict) and e.get('adt') == adt and e.get('name') == field:
                        out.append((body, i, 'use', b['term']))
    return out
