"""Rules over the clause builder: quantify/push_responder arithmetic and the API -> (count, exactness) table (C02 C03 C04)."""
import re
import symex
from symex import show, is_call, strip, field_path, mentions, linear, decision_variant
import tables
from props import lifecycle as L
from props import evalcore as E

WRAPPER = lambda v: field_path(v)[1][-1:] == ['wrapper'] or mentions(v, lambda x: x[0] == 'field' and x[2] == 'wrapper')  # noqa: E731


def builder_field(lv, name):
    """lvalue is `<builder>.name` through the wrapper enum (Borrowed/Owned)"""
    root, path = lv
    names = [e[1] for e in path if e[0] == 'f']
    return names[-len(name):] == name


def quantify_arith(chk, F, rule, cfg):
    """R02.1"""
    q = F.fn('build::dyn_builder::DynBuilderWrapper::quantify')
    inline = lambda f, d, n: f.kind in ('fn', 'assoc') and len(f.blocks) < 20  # noqa: E731
    paths = symex.Interp(F, inline=inline).run(q)
    chk.analysed(q)
    live = [p for p in paths if p.outcome[0] == 'return']
    chk.ob(rule, 'quantify has returning paths', len(live) >= 1, config=cfg, fn=q, site='paths', unrecognised=True, what='no returning path')
    for p in live:
        ws = {}
        for e in p.effects:
            if e.kind == 'write':
                lv, v = e.data
                names = tuple(x[1] for x in lv[1] if x[0] == 'f')
                ws.setdefault(names[-2:] if names[-2:-1] == ('count_expectation',) else names[-1:], []).append((lv, v))
        # also local (Owned) builders: writes land in env/heap of param; collect from heap
        for (root, path), v in p.heap.items():
            names = tuple(x[1] for x in path if x[0] == 'f')
            key = names[-2:] if names[-2:-1] == ('count_expectation',) else names[-1:]
            ws.setdefault(key, []).append(((root, path), v))

        def check_add(key, what, by):
            cands = ws.get(key, [])
            ok = False
            found = None
            for lv, v in cands:
                lin = linear(v)
                found = show(v)
                if lin and lin[1] == 0 and len(lin[0]) == 2 and lin[0].get(by) == 1:
                    other = [s for s in lin[0] if s != by][0]
                    names = field_path(other)[1]
                    if lin[0][other] == 1 and tuple(names[-len(key):]) == key:
                        ok = True
            chk.ob(rule, 'quantify(times): %s\' = %s + times' % (what, what), ok, config=cfg, fn=q, site=what, what='%s update: %s' % (what, found), found=found, expected='%s + times + 0' % what)
        check_add(('current_response_index',), 'current_response_index', ('param', 0, 2))
        check_add(('count_expectation', 'minimum'), 'minimum', ('param', 0, 2))
        ex = ws.get(('count_expectation', 'exactness'), [])
        chk.ob(rule, 'quantify(_, exactness) stores the given exactness', any(strip(v) == ('param', 0, 3) for _, v in ex), config=cfg, fn=q, site='exactness', what='exactness update',
               found=[show(v) for _, v in ex], expected='exactness argument')
    pr = F.fn('build::dyn_builder::DynBuilderWrapper::push_responder')
    for p in symex.Interp(F, inline=inline).run(pr):
        if p.outcome[0] != 'return':
            continue
        pushes = list(p.calls(r'Vec::push$'))
        ok = len(pushes) == 1
        if ok:
            tgt = pushes[0].data[2][0]
            el = strip(pushes[0].data[2][1])
            d = dict(el[4]) if el[0] == 'agg' else {}
            ri = d.get('response_index', ('unk', ''))
            lin = linear(ri)
            okri = lin is not None and lin[1] == 0 and len(lin[0]) == 1 and field_path(list(lin[0])[0])[1][-1:] == ['current_response_index']
            okr = strip(d.get('responder', ('unk', ''))) == ('param', 0, 2)
            okt = field_path(tgt)[1][-1:] == ['responders']
            ok = okri and okr and okt
            chk.ob(rule, 'push_responder records the response at the running index (offset 0) in the responders list', ok, config=cfg, fn=pr, site='push', what='response_index = %s' % show(ri),
                   found={'response_index': show(ri), 'responder': show(d.get('responder', ('unk', ''))), 'target': show(tgt)}, expected='responders.push({response_index: current_response_index, responder})')
        else:
            chk.ob(rule, 'push_responder pushes exactly once', False, config=cfg, fn=pr, site='push', what='push count', found=len(pushes))
    # who writes current_response_index / responders
    for field, allowed in (('current_response_index', {'build::dyn_builder::DynBuilderWrapper::<\'p>::quantify', 'build::dyn_builder::DynBuilderWrapper::<\'p>::push_responder', 'build::dyn_builder::DynCallPatternBuilder::new'}),):
        users = L.attributed(F, L.field_accesses(F, 'build::dyn_builder::DynCallPatternBuilder', field))
        chk.ob(rule, 'the running response index is only used by new / push_responder / quantify', set(users) <= allowed, config=cfg, site='field:%s' % field, what='users of %s' % field, found=users)
    atm = F.fn('counter::CallCountExpectation::add_to_minimum')
    for p in symex.Interp(F).run(atm):
        ws = {tuple(x[1] for x in e.data[0][1] if x[0] == 'f')[-1]: e.data[1] for e in p.effects if e.kind == 'write'}
        lin = linear(ws.get('minimum', ('unk', '')))
        ok = lin is not None and lin[1] == 0 and lin[0].get(('param', 0, 2)) == 1 and len(lin[0]) == 2 and strip(ws.get('exactness', ('unk', ''))) == ('param', 0, 3)
        chk.ob(rule, 'add_to_minimum(delta, ex): minimum += delta, exactness = ex', ok, config=cfg, fn=atm, site='add_to_minimum', what='add_to_minimum effect', found={k: show(v) for k, v in ws.items()})


API = {
    # fn regex -> (needs push before quantify, expected (times, exactness) or None)
    r'^build::QuantifyReturnValue::<.*>::once$': ('push_returner_result', (('c', 1), 'Exact')),
    r'^build::QuantifyReturnValue::<.*>::n_times$': ('push_returner_result', (('param', 0, 2), 'Exact')),
    r'^build::QuantifyReturnValue::<.*>::at_least_times$': ('push_returner_result', (('param', 0, 2), 'AtLeast')),
    r'^build::Quantify::<.*>::once$': (None, (('c', 1), 'Exact')),
    r'^build::Quantify::<.*>::n_times$': (None, (('param', 0, 2), 'Exact')),
    r'^build::Quantify::<.*>::at_least_times$': (None, (('param', 0, 2), 'AtLeast')),
}
RESPONSE_FNS = ['returns', 'returns_default', 'answers', 'answers_arc', 'panics', 'applies_unmocked', 'applies_default_impl']


def module_private(f, d=0, n=''):
    """inline policy: helpers private to their module (`fn`, `pub(self)`, `pub(in module)`) are part of the function that calls
    them; crate-visible and public functions are analysed on their own"""
    if f.kind not in ('fn', 'assoc') or not f.vis or not f.vis.startswith('Restricted') or '::' not in f.vis.split('~', 1)[-1] or len(f.blocks) >= 60:
        return False
    # (narrowing the visibility of a function of the reference tree - `pub(crate)` -> `pub(super)` - does not make it a helper: the
    #  functions the rules know by name are analysed on their own whatever their visibility is today)
    if not symex.is_new_helper(f) and _was_wider(f):
        return False
    return True


_BASE_VIS = {}


def _was_wider(f):
    """the function exists on the reference tree and was not module-private there"""
    import json
    import names
    crate = getattr(f.facts, 'crate', None)
    if crate not in _BASE_VIS:
        try:
            base = json.load(open(names.BASELINE))
            for c, inv in base.items():
                _BASE_VIS[c] = {d: v.get('modpriv') for d, v in inv.get('fns', {}).items()}
        except Exception:
            _BASE_VIS[crate] = {}
    known = _BASE_VIS.get(crate) or {}
    mp = known.get(f.defp, known.get(f.rawdef))
    return mp is False


FLAVOUR = [
    # (function, documented conversion)
    (r'^build::QuantifyReturnValue::<.*>::once$', 'single-use'),
    (r'^<build::QuantifyReturnValue<.*> as core::ops::Drop>::drop$', 'single-use'),
    (r'^build::QuantifyReturnValue::<.*>::n_times$', 'multi-use'),
    (r'^build::QuantifyReturnValue::<.*>::at_least_times$', 'multi-use'),
    (r'^build::DefineMultipleResponses::<.*>::returns$', 'multi-use'),
]


def conversion_table(chk, F, rule, cfg):
    """which conversion stores a returned value: single-use (moved out once, no Clone) exactly for `.returns(v)` that is quantified
    `once()` or left unquantified; multi-use (cloned per call, original kept until teardown) for n_times / at_least_times /
    each_call().returns — on every path, whatever the count argument is."""
    seen = set()
    n = 0
    for rx, want in FLAVOUR:
        fns = [f for f in F.fns.values() if re.search(rx, f.defp)]
        chk.ob(rule, 'builder function %s exists' % rx, len(fns) == 1, config=cfg, site='anchor:%s' % rx, unrecognised=True, what='anchor %s' % rx, found=[f.defp for f in fns])
        for fn in fns:
            seen.add(fn.defp)
            for p in symex.Interp(F, inline=module_private).run(fn):
                conv = [e.data[1] for e in p.calls(r'output::IntoReturn(Once)?::into_return(_once)?$')]
                kinds = set('single-use' if c.endswith('into_return_once') else 'multi-use' for c in conv)
                pushes = list(p.calls(r'DynBuilderWrapper::push_returner_result$'))
                if not conv and not pushes:
                    continue      # a path that stores nothing (Drop with the value already taken)
                n += 1
                ok = kinds == {want} and len(conv) == 1
                chk.ob(rule, '%s stores the returned value with the %s conversion on every path' % (fn.defp.split('::<')[0].split('<')[-1] + '::' + fn.name, want), ok, config=cfg, fn=fn, site='conversion',
                       what='%s converts with %s' % (fn.name, sorted(kinds)), found=conv, expected=want)
    # nobody else converts a user value
    for fn in F.fns.values():
        if not fn.defp.startswith('build::') and not fn.defp.startswith('<build::'):
            continue
        if fn.kind == 'closure' or fn.defp in seen or module_private(fn):
            continue
        own = [symex.callee_name(t) for _, t in fn.calls() if re.search(r'output::IntoReturn(Once)?::into_return(_once)?$', symex.callee_name(t))]
        chk.ob(rule, 'no other builder function converts a returned value', not own, config=cfg, fn=fn, site='conversion-census', unrecognised=True, what='undocumented conversion site %s' % fn.defp, found=own)
    chk.floor(rule, 'value-storing builder paths', n, 5, config=cfg)


def api_table(chk, F, rule, cfg):
    """R02.2 / R03.4"""
    nq = 0
    for rx, (needs_push, (times, ex)) in API.items():
        fns = F.fns_matching(rx.replace('<.*>::', '').replace('^', '^').replace('$', '$'))
        fns = [f for f in F.fns.values() if re.search(rx, f.defp)]
        chk.ob(rule, 'builder API function %s exists' % rx, len(fns) == 1, config=cfg, site='anchor:%s' % rx, unrecognised=True, what='anchor %s' % rx, found=[f.defp for f in fns])
        for fn in fns:
            for p in symex.Interp(F, inline=module_private).run(fn):
                qs = list(p.calls(r'DynBuilderWrapper::quantify$'))
                nq += len(qs)
                ok = len(qs) == 1 and strip(qs[0].data[2][1]) == times and strip(qs[0].data[2][2])[0] == 'agg' and strip(qs[0].data[2][2])[3] == ex
                if not qs:
                    # delegation to a sibling of this table (`once()` = `n_times(1)`): that sibling's own row is decided on its own,
                    # so this function quantifies (the argument it passes, the sibling's exactness) and pushes as the sibling does
                    for rx2, (np2, (times2, ex2)) in API.items():
                        if rx2 == rx:
                            continue
                        sib = [e for e in p.calls() if re.search(rx2.replace('::<.*>::', '(::<.*>)?::').lstrip('^'), e.data[1]) or re.search(rx2, e.data[1])]
                        sib = [e for e in sib if e.term and F.fns.get(symex.callee_def(e.term)) is not None and re.search(rx2, F.fns[symex.callee_def(e.term)].defp)]
                        if len(sib) == 1 and rx2.split('::<')[0] == rx.split('::<')[0]:
                            eff_times = strip(sib[0].data[2][1]) if times2 == ('param', 0, 2) else times2
                            ok = eff_times == times and ex2 == ex and strip(sib[0].data[2][0]) == ('param', 0, 1) and \
                                p.outcome[0] == 'return' and strip(p.outcome[1])[0] == 'call' and strip(p.outcome[1])[3] == sib[0].data[3]
                            nq += 1
                            qs = ['delegated']
                            chk.ob(rule, '%s quantifies (%s, %s)' % (fn.name, show(times), ex), ok, config=cfg, fn=fn, site='quantify', what='delegates to %s(%s)' % (sib[0].data[1].rsplit('::', 1)[-1], show(eff_times)),
                                   found=(show(eff_times), ex2), expected=(show(times), ex))
                            break
                    if qs == ['delegated']:
                        continue
                chk.ob(rule, '%s quantifies (%s, %s)' % (fn.name, show(times), ex), ok, config=cfg, fn=fn, site='quantify', what='quantify args %s' % ([(show(q.data[2][1]), show(q.data[2][2])) for q in qs]),
                       found=[(show(q.data[2][1]), show(q.data[2][2])) for q in qs], expected=(show(times), ex))
                if needs_push and qs:
                    pushes = [e for e in p.calls(r'DynBuilderWrapper::(push_returner_result|push_responder)$')]
                    order = len(pushes) == 1 and p.effects.index(pushes[0]) < p.effects.index(qs[0])
                    chk.ob(rule, '%s records the response before the running index moves' % fn.name, order, config=cfg, fn=fn, site='push-before-quantify', what='push/quantify order',
                           found=[e.data[1].rsplit('::', 1)[-1] for e in p.effects if e.kind == 'call' and 'DynBuilderWrapper' in e.data[1]])
    # then(): add_to_minimum(0, AtLeastPlusOne), no quantify
    th = [f for f in F.fns.values() if re.search(r'^build::QuantifiedResponse::<.*>::then$', f.defp)]
    for fn in th:
        for p in symex.Interp(F, inline=module_private).run(fn):
            a = list(p.calls(r'CallCountExpectation::add_to_minimum$'))
            ok = len(a) == 1 and strip(a[0].data[2][1]) == ('c', 0) and strip(a[0].data[2][2])[3] == 'AtLeastPlusOne' and not p.called(r'DynBuilderWrapper::quantify$')
            nq += len(a)
            chk.ob(rule, 'then(): open-ended continuation => (minimum + 0, AtLeastPlusOne)', ok, config=cfg, fn=fn, site='then', what='then() effect', found=[(show(x.data[2][1]), show(x.data[2][2])) for x in a])
    # response definers: push exactly once, then hand the same wrapper on
    nresp = 0
    for ty in ('DefineResponse', 'DefineMultipleResponses'):
        for name in RESPONSE_FNS:
            fns = [f for f in F.fns.values() if re.search(r'^build::%s::<.*>::%s$' % (ty, name), f.defp)]
            if ty == 'DefineResponse' and name == 'returns':
                continue   # single-use returns(): the value is kept aside, pushed by once()/n_times()/drop
            chk.ob(rule, '%s::%s exists' % (ty, name), len(fns) == 1, config=cfg, site='anchor:%s::%s' % (ty, name), unrecognised=True, what='anchor')
            for fn in fns:
                nresp += 1
                for p in symex.Interp(F, inline=module_private).run(fn):
                    pushes = [e for e in p.calls(r'DynBuilderWrapper::(push_returner_result|push_responder)$')]
                    qz = list(p.calls(r'::quantify$'))
                    ok = len(pushes) == 1 and not any(re.search(r'DynBuilderWrapper::quantify$', e.data[1]) for e in qz)
                    chk.ob(rule, '%s::%s records exactly one response and leaves the running index alone' % (ty, name), ok, config=cfg, fn=fn, site='push', what='response definer effects',
                           found=[e.data[1].rsplit('::', 1)[-1] for e in p.effects if e.kind == 'call'])
    chk.floor(rule, 'quantify/add_to_minimum call sites in the builder API', nq, 7, config=cfg)
    chk.floor(rule, 'response definer functions', nresp, 13, config=cfg)
    # Drop for QuantifyReturnValue (unquantified returns in a stub): push once if the value is still there, never quantify
    dr = F.method('build::QuantifyReturnValue', 'drop', 'core::ops::Drop')
    for p in symex.Interp(F).run(dr):
        chk.ob(rule, 'dropping an unquantified returns() in a stub never moves the running index', not p.called(r'DynBuilderWrapper::quantify$'), config=cfg, fn=dr, site='drop', what='quantify in drop')


def ordered_implicit_once(chk, F, rule, cfg):
    """R04.6: unquantified ordered clauses mean exactly once"""
    fn = F.method('build::Quantify', 'deconstruct', 'Clause')
    inline = lambda f, d, n: f.kind in ('fn', 'assoc') and f.locals[0]['ty'] == 'bool' and len(f.blocks) < 30  # noqa: E731
    paths = symex.Interp(F, inline=inline).run(fn)

    def atom(d, p):
        inner, t = L.truth_of(d)
        cmp = symex.as_comparison(inner) if t is not None else None
        if cmp and cmp[0] in ('Eq', 'Ne'):
            for a, b in ((cmp[1], cmp[2]), (cmp[2], cmp[1])):
                a = strip(a)
                if a[0] == 'discr' and mentions(a, lambda x: x[0] == 'field' and x[2] == 'pattern_match_mode') and strip(b)[0] == 'c':
                    var = F.variant_by_discr('fn_mocker::PatternMatchMode', strip(b)[1])
                    eq = (cmp[0] == 'Eq') == t
                    return ('mode', {var if eq else ('InAnyOrder' if var == 'InOrder' else 'InOrder')})
        v = strip(d.value)
        if v[0] == 'discr' and mentions(v, lambda x: x[0] == 'field' and x[2] == 'pattern_match_mode'):
            return ('mode', {decision_variant(F, d)})
        return None

    def outcome(p):
        qs = list(p.calls(r'DynBuilderWrapper::quantify$'))
        q = ['(%s,%s)' % (show(e.data[2][1]), strip(e.data[2][2])[3]) for e in qs]
        pushes = list(p.calls(r'clause::term::Sink::push$'))
        return 'quantify=%s push=%d' % (','.join(q) or 'none', len(pushes))
    rows = tables.abstract(paths, atom, outcome)
    tables.check_table(chk, rule, fn, rows, [
        ('unquantified ordered clause = exactly once', {'mode': {'InOrder'}}, 'quantify=(1,Exact) push=1'),
        ('unquantified unordered clause keeps its open count', {'mode': {'InAnyOrder'}}, 'quantify=none push=1'),
    ], config=cfg)
    qrv = F.method('build::QuantifyReturnValue', 'deconstruct', 'Clause')
    for p in symex.Interp(F).run(qrv):
        names = [e.data[1] for e in p.calls()]
        ok = any(re.search(r'QuantifyReturnValue::once$', n) for n in names) and any(re.search(r'^Clause::deconstruct$|QuantifiedResponse.*deconstruct$', n) for n in names)
        chk.ob(rule, 'unquantified returns(v) as a clause = once()', ok, config=cfg, fn=qrv, site='once', what='QuantifyReturnValue::deconstruct', found=names)


def returner_error_latched(chk, F, rule, cfg):
    """push_returner_result(result): Ok(r) files r's responder and leaves the builder's error slot alone; Err(e) files nothing and leaves
    the error slot filled (with e, or with an earlier error). The slot is only ever written `Some(..)` here and emptied by the assembler
    when the pattern is registered - so a return value that cannot be produced in this feature set always reaches the assembler,
    however many further responses are chained after it."""
    fn = F.fn('build::dyn_builder::DynBuilderWrapper::push_returner_result')
    pol = lambda f_, d_, n_: f_.defp.startswith('build::dyn_builder::') and f_.kind in ('fn', 'assoc', 'closure') and not re.search(r'::push_responder$', f_.defp)  # noqa: E731
    paths = symex.Interp(F, inline=pol).run(fn)
    chk.analysed(fn)
    seen = set()
    for p in paths:
        if p.outcome[0] != 'return':
            continue
        var = None
        filled = None
        for d in p.decisions:
            v = strip(d.value)
            if v[0] == 'discr' and strip(v[1]) == ('param', 0, 2):
                var = symex.decision_variant(F, d)
            inner, t = L.truth_of(d)
            if t is not None and is_call(inner, r'Option::(is_none|is_some)$') and field_path(inner[2][0])[1][-1:] == ['responder_error']:
                filled = (inner[1].endswith('is_some') == t)
            if v[0] == 'discr' and field_path(v[1])[1][-1:] == ['responder_error'] and symex.decision_variant(F, d) in ('Some', 'None'):
                filled = symex.decision_variant(F, d) == 'Some'
        ws = [e for e in p.effects if e.kind == 'write' and e.data[0][1][-1:] == (('f', 'responder_error'),)]
        pushes = list(p.calls(r'Dyn\w+::push_responder$'))
        if var is None:
            chk.ob(rule, 'push_returner_result decides on the conversion result', False, config=cfg, fn=fn, site='result', unrecognised=True, what='no decision on the result', found=[show(d.value)[:80] for d in p.decisions])
            continue
        seen.add(var)
        some_ws = [e for e in ws if strip(e.data[1])[0] == 'agg' and strip(e.data[1])[3] == 'Some']
        if var == 'Ok':
            ok = not ws and len(pushes) == 1 and mentions(pushes[0].data[2][1], lambda x: x[0] == 'as' and x[2] == 'Ok' and strip(x[1]) == ('param', 0, 2))
            chk.ob(rule, 'a producible return is filed as a response and leaves the error slot alone', ok, config=cfg, fn=fn, site='ok', what='Ok: %d writes to the error slot, %d responses filed' % (len(ws), len(pushes)),
                   found={'error slot writes': [show(e.data[1])[:80] for e in ws], 'push_responder': len(pushes)})
        else:
            # (`slot.get_or_insert(e)` / `slot.insert(e)`: std's spelling of "fill it with e unless / even if it is filled")
            fills = [e for e in p.calls(r'Option::(get_or_insert|get_or_insert_with|insert)$') if field_path(e.data[2][0])[1][-1:] == ['responder_error']]
            empt = [e for e in p.calls(r'Option::take$|mem::(take|replace|swap)$') if field_path(e.data[2][0])[1][-1:] == ['responder_error']]
            if fills and not ws and not empt and not pushes:
                okf = mentions(fills[-1].data[2][1], lambda x: x[0] == 'as' and x[2] == 'Err' and strip(x[1]) == ('param', 0, 2)) or fills[-1].data[1].endswith('_with')
                chk.ob(rule, 'an unproducible return leaves the error slot filled (this error, or an earlier one) and files nothing', okf, config=cfg, fn=fn, site='err', what='Err: %s' % fills[-1].data[1].rsplit('::', 1)[-1],
                       found=show(fills[-1].data[2][1])[:120])
                continue
            ends_filled = not empt and (bool(ws) and ws[-1] in some_ws and mentions(ws[-1].data[1], lambda x: x[0] == 'as' and x[2] == 'Err' and strip(x[1]) == ('param', 0, 2)) or (not ws and filled is True))
            ok = ends_filled and len(some_ws) == len(ws) and not pushes
            chk.ob(rule, 'an unproducible return leaves the error slot filled (this error, or an earlier one) and files nothing', ok, config=cfg, fn=fn, site='err', what='Err: slot filled=%s, responses filed=%d' % (ends_filled, len(pushes)),
                   found={'error slot writes': [show(e.data[1])[:80] for e in ws], 'slot was filled': filled, 'push_responder': len(pushes)})
    chk.floor(rule, 'outcomes of the conversion handled by push_returner_result', len(seen), 2, config=cfg)
    # the slot's writers
    acc = L.field_accesses(F, 'build::dyn_builder::DynCallPatternBuilder', 'responder_error')
    writers = L.attributed(F, acc, kinds=('write', 'construct'))
    okw = set(writers) <= {fn.defp, 'build::dyn_builder::DynCallPatternBuilder::new'}
    chk.ob(rule, 'the error slot is written only by the constructor (empty) and by push_returner_result', okw, config=cfg, site='field:responder_error', what='writers of responder_error', found=writers)
