"""K1: leak / ownership-escape primitives census (R12.4 / R13.4), with a positive control of the matcher."""
import re
import symex

LEAK = re.compile(r'(^core::mem::forget$|^std::boxed::Box::(leak|into_raw|into_raw_with_allocator|into_non_null)$|^core::mem::ManuallyDrop::new$|'
                  r'^std::(rc::Rc|sync::Arc)::(into_raw|increment_strong_count|from_raw)$|^std::vec::Vec::(leak|into_raw_parts|set_len)$|'
                  r'^core::mem::(transmute|transmute_copy|zeroed|uninitialized)$|^core::ptr::(read|write|read_volatile|drop_in_place|copy|copy_nonoverlapping)$|'
                  r'^core::mem::MaybeUninit::assume_init$)')
CONTROL = ['core::mem::forget', 'std::boxed::Box::leak', 'std::boxed::Box::into_raw', 'core::mem::ManuallyDrop::new', 'std::sync::Arc::into_raw', 'std::rc::Rc::into_raw', 'std::vec::Vec::leak']


def census(chk, F, rule, cfg):
    for c in CONTROL:
        chk.ob(rule, 'positive control: the leak-primitive matcher recognises %s' % c, bool(LEAK.search(c)), config=cfg, site='control:%s' % c, unrecognised=True, what='matcher control')
    n = 0
    for fn in F.fns.values():
        for body in [fn] + fn.promoted:
            for bb, t in body.calls(include_cleanup=True):
                n += 1
                name = symex.callee_name(t)
                # the `vec![x]` macro expands to box_assume_init_into_vec_unsafe etc.: compiler-provided, not a leak
                if LEAK.search(name):
                    chk.ob(rule, 'no leak / ownership-escape primitive in the crate', False, config=cfg, fn=body, site='call:%s' % name, what='leak primitive %s' % name, found={'callee': name, 'line': t.get('line')},
                           expected='every stored value is owned by the mock and dropped with it')
    chk.call_sites += n
    chk.ob(rule, 'leak-primitive census over %d call sites: none found beyond those reported' % n, True, config=cfg, site='census')
    chk.ob(rule, 'unsafe_code is forbidden', F.unsafe_code_lint == 'Forbid', config=cfg, site='lint', what='unsafe_code lint %s' % F.unsafe_code_lint, found=F.unsafe_code_lint, expected='Forbid')
