"""C19 — panic messages identify the call, its arguments and the pattern involved (runtime half; macro half in xpand)."""
import re
import symex
from symex import strip, show, is_call, field_path, mentions, decision_variant
from props import lifecycle as L, evalcore as E
from props.util import configs, load

LEVEL = 'other'   # FACTS rules + translation validation of the generated debug_inputs / diagnostics arms


def written_values(p):
    """values that flow into what a fmt function writes on this path (args of write_fmt / write_str)"""
    out = []
    for e in p.calls(r'Formatter::write_fmt$|Formatter::write_str$|Write>?::write_str$|Write>?::write_fmt$|Display>?::fmt$|Debug>?::fmt$'):
        out.extend(e.data[2][1:])
    return out


def _subst(v, old, new):
    if v == old:
        return new
    if isinstance(v, tuple):
        return tuple(_subst(x, old, new) for x in v)
    return v


def opened_displays(F, p, depth=0):
    """values written by Display/Debug impls that do not exist on the reference tree (a piece of a message moved into a `Display` impl
    of its own) for the values this path hands to the formatting machinery: their own writes, with `self` replaced by the value shown"""
    out = []
    if depth > 2:
        return out
    for e in p.effects:
        if e.kind != 'call' or not re.search(r'rt::Argument::new_(display|debug)$', e.data[1]) or not e.data[2]:
            continue
        tys = [x_ for x_ in (((e.term or {}).get('callee') or {}).get('args') or []) if not x_.startswith("'")]
        if not tys:
            continue
        tr = 'core::fmt::Display' if e.data[1].endswith('display') else 'core::fmt::Debug'
        ty = tys[0].lstrip('&').strip()
        from facts import strip_generics
        f = F.method(strip_generics(ty), 'fmt', tr, optional=True)
        if f is None or not symex.is_new_helper(f):
            continue
        shown = strip(e.data[2][0])
        for q in symex.Interp(F).run(f):
            for v in written_values(q) + opened_displays(F, q, depth + 1):
                out.append(_subst(v, ('param', 0, 1), shown))
    return out


def field_names(vals):
    """names of the fields read by the given values"""
    names = set()
    for v in vals:
        for x in symex.subvalues(v):
            if x[0] == 'field':
                names.add(x[2])
            elif x[0] == 'ref':
                for el in x[1][1]:
                    if el[0] == 'f':
                        names.add(el[1])
    return names


def mismatch_entries_show_actual(chk, F, rule, cfg):
    """'each with that value': for every entry of a mismatch report whose actual value has a rendering, what is written for that entry
    includes that rendering (directly, or through the actual/expected diff) - for every kind of mismatch, on every path"""
    fn = F.method('mismatch::Mismatches', 'fmt', 'core::fmt::Display')
    paths = symex.Interp(F, loop_bound=3).run(fn)
    chk.analysed(fn)
    n = 0
    for p in paths:
        if p.outcome[0] != 'return' or is_call(strip(p.outcome[1]), r'from_residual$') or (strip(p.outcome[1])[0] == 'agg' and strip(p.outcome[1])[3] == 'Err'):
            continue
        nexts = [e for e in p.effects if e.kind == 'call' and re.search(r'Iterator>?::next$', e.data[1])]
        bounds = [e.ndec for e in nexts] + [len(p.decisions) + 1]
        for k in range(len(nexts)):
            lo, hi = bounds[k], bounds[k + 1]
            decs = p.decisions[lo:hi]
            shown = False
            kind = None
            has = {}
            for d in decs:
                v = strip(d.value)
                if v[0] == 'discr' and field_path(v[1])[1][-1:] in (['actual'], ['expected']):
                    has[field_path(v[1])[1][-1]] = decision_variant(F, d)
                    # (the arms that show values need both renderings; with one missing the entry says so instead)
                    shown = has.get('actual') == 'Some' and has.get('expected') == 'Some'
                if v[0] == 'discr' and field_path(v[1])[1][-1:] == ['kind']:
                    kind = decision_variant(F, d)
            vals = []
            for e in p.effects:
                if e.kind == 'call' and lo <= e.ndec < hi and re.search(r'Formatter::write_fmt$|Formatter::write_str$|Write>?::write_str$|Write>?::write_fmt$|Display>?::fmt$|Debug>?::fmt$|Diff::new$', e.data[1]):
                    vals.extend(e.data[2])
            names_ = field_names(vals)
            # (which entries have both renderings may be decided on the two Options themselves or on something built from them, e.g.
            #  `actual.as_ref().zip(expected.as_ref())`: an entry that shows a value of the mismatch at all must show the actual one)
            if not shown and not ({'actual', 'expected'} & names_):
                continue
            n += 1
            ok = 'actual' in names_
            chk.ob(rule, 'a mismatch entry (%s) whose actual value has a rendering shows that rendering' % (kind,), ok, config=cfg, fn=fn, site='entry:%s' % (kind,),
                   what='mismatch entry of kind %s is written without its actual value' % (kind,), found=sorted(field_names(vals)), expected='the entry\'s `actual` (alone or in the actual/expected diff)')
    chk.floor(rule, 'mismatch entries with a rendered actual value (paths x kinds)', n, 3, config=cfg)


def mentions_field(vals, variant, field):
    def pred(x):
        if x[0] == 'field' and x[2] == field and strip(x[1])[0] == 'as' and strip(x[1])[2] == variant:
            return True
        if x[0] == 'ref':
            path = x[1][1]
            for i, e in enumerate(path):
                if e == ('f', field) and i > 0 and path[i - 1] == ('dc', variant):
                    return True
        return False
    return any(mentions(v, pred) for v in vals)


def run(chk, tier):
    chk.explain('K6 completeness over Display impls: for every MockError variant the call identity (fn_call, or info.path for the '
                'path-only variants) flows into the written output on every path, a pattern payload on every path where it exists, every '
                'other payload field on at least one path; FnActualCall renders the path then all argument renderings forward with `?` for '
                'None; CallPatternDebug renders pattern text + file:line or the index; error constructors on the call path take the pattern '
                'index of the pattern they are about. The generated debug_inputs / matching! diagnostics are validated by the XPAND engine.')
    for cfg in configs(tier, thorough=('std', 'mocks', 'nostd-spin', 'nostd')):
        F = load(chk, cfg)
        display_mockerror(chk, F, 'R19.1', cfg)
        display_call(chk, F, 'R19.2', cfg)
        # R19.8 'panics naming the call': the text the mock panics with is the rendering of this call's own error
        from props.c08 import panic_message_is_the_error
        panic_message_is_the_error(chk, F, 'R19.8', cfg)
        pattern_indices(chk, F, 'R19.5', cfg)
        from props import ctor
        ctor.reporter_storage(chk, F, 'R19.6', cfg)
        expected_pattern_lookup(chk, F, 'R19.7', cfg)
        mismatch_entries_show_actual(chk, F, 'R19.9', cfg)
        E.index_is_position(chk, F, 'R19.5.sel', cfg)
        ctor.matcher_storage(chk, F, 'R19.4.store', cfg)
    from xpand import rules as X
    X.check_traits(chk, tier, chk.seed, {'C19'})
    X.check_patterns(chk, tier, chk.seed, {'C19'})


def display_mockerror(chk, F, rule, cfg):
    fn = F.method('error::MockError', 'fmt', 'core::fmt::Display')
    paths = symex.Interp(F).run(fn)
    chk.analysed(fn)
    adt = F.adt('error::MockError')
    chk.floor(rule, 'MockError variants', len(adt['variants']), 14, config=cfg)
    by_variant = {}
    for p in paths:
        if p.outcome[0] == 'return' and (is_call(strip(p.outcome[1]), r'from_residual$') or (strip(p.outcome[1])[0] == 'agg' and strip(p.outcome[1])[3] == 'Err')):
            continue        # (the formatter refused an earlier piece: the rest of the message is not written - nothing to say about it)
        var = None
        for d in p.decisions:
            v = strip(d.value)
            if v[0] == 'discr' and strip(v[1]) in (('deref', ('param', 0, 1)), ('param', 0, 1)):
                var = decision_variant(F, d)
        if not isinstance(var, str):
            chk.ob(rule, 'Display for MockError dispatches on the variant', False, config=cfg, fn=fn, site='dispatch', unrecognised=True, what='catch-all or unrecognised dispatch %s' % (var,), found=str(var))
            continue
        by_variant.setdefault(var, []).append(p)
    for v in adt['variants']:
        name = v['name']
        ps = by_variant.get(name, [])
        chk.ob(rule, 'variant %s has a rendering' % name, bool(ps), config=cfg, fn=fn, site='arm:%s' % name, what='no Display arm for %s' % name)
        fields = [f['name'] for f in v['fields']]
        ident = 'fn_call' if 'fn_call' in fields else ('info' if 'info' in fields else fields[0])
        seen = {f: 0 for f in fields}
        for p in ps:
            vals = written_values(p)
            for f in fields:
                if mentions_field(vals, name, f):
                    seen[f] += 1
            ok = mentions_field(vals, name, ident)
            chk.ob(rule, '%s: the call identity (%s) is rendered on every path' % (name, ident), ok, config=cfg, fn=fn, site='identity:%s' % name, what='%s rendering lacks %s' % (name, ident),
                   found=[show(x)[:120] for x in vals][:3], expected='{%s} in the message' % ident)
            if 'pattern' in fields:
                chk.ob(rule, '%s: the pattern is named on every path' % name, mentions_field(vals, name, 'pattern'), config=cfg, fn=fn, site='pattern:%s' % name, what='%s rendering lacks pattern' % name)
            if 'expected' in fields:
                has_some = any(strip(d.value)[0] == 'discr' and field_path(strip(d.value)[1])[1][-1:] == ['expected'] and decision_variant(F, d) == 'Some' for d in p.decisions)
                if has_some:
                    chk.ob(rule, '%s: the expected pattern is named whenever there is one' % name, mentions_field(vals, name, 'expected'), config=cfg, fn=fn, site='expected:%s' % name, what='%s rendering lacks expected pattern' % name)
        for f in fields:
            if ps:
                chk.ob(rule, '%s: payload field `%s` reaches the message on some path' % (name, f), seen[f] >= 1, config=cfg, fn=fn, site='field:%s.%s' % (name, f), what='%s.%s is never rendered' % (name, f))
    chk.sample({'fn': fn.defp, 'config': cfg, 'variants': {k: len(v) for k, v in by_variant.items()}})


def _const_str(v):
    """the text of a constant &str value, else None"""
    import ast
    v = strip(v)
    for _ in range(3):
        if v[0] == 'ref' and v[1][0][0] == 'ptr' and not v[1][1]:
            v = strip(v[1][0][1])
        elif v[0] == 'ref' and len(v) > 3:
            v = strip(v[3])
        elif v[0] == 'deref':
            v = strip(v[1])
    if v[0] == 'c' and isinstance(v[1], tuple) and v[1] and v[1][0] == 'repr' and len(v[1]) > 2 and v[1][2] in ('&str', "&'static str"):
        try:
            r = ast.literal_eval(v[1][1])
            return r if isinstance(r, str) else None
        except Exception:
            return None
    return None


def _template(v):
    """bytes of a format_args! template constant (`&[u8; N]`), else None"""
    import ast
    v = strip(v)
    if v[0] == 'ref' and v[1][0][0] == 'ptr' and not v[1][1]:
        v = strip(v[1][0][1])
    elif v[0] == 'ref' and len(v) > 3:
        v = strip(v[3])
    if v[0] == 'deref':
        v = strip(v[1])
    if v[0] == 'c':
        v = v[1]
    if isinstance(v, tuple) and v and v[0] == 'repr' and str(v[2]).startswith('&[u8;'):
        try:
            r = ast.literal_eval(v[1])
            return r if isinstance(r, bytes) else None
        except Exception:
            return None
    return None


def rendered(p):
    """what a fmt function writes on this path, as a list of ('lit', text) / ('val', value) in output order; None if a write is not understood.
    format_args! templates are decoded by the encoding documented in core::fmt (length-prefixed literal pieces, 0xC0 = next argument)."""
    out = []
    for e in p.effects:
        if e.kind != 'call':
            continue
        n = e.data[1]
        a = e.data[2]
        if re.search(r'(Formatter|Write>?)::write_str$', n):
            t = _const_str(a[1])
            out.append(('lit', t) if t is not None else ('val', strip(a[1])))
        elif re.search(r'(Formatter|Write>?)::write_char$', n):
            out.append(('val', strip(a[1])))
        elif re.search(r'(Formatter|Write>?)::write_fmt$', n):
            ar = strip(a[1])
            if is_call(ar, r'fmt::Arguments::from_str$'):
                t = _const_str(ar[2][0])
                if t is None:
                    return None
                out.append(('lit', t))
                continue
            if not is_call(ar, r'fmt::Arguments::new$'):
                return None
            tpl = _template(ar[2][0])
            arr = strip(ar[2][1])
            if arr[0] == 'ref' and len(arr) > 3:
                arr = strip(arr[3])
            if tpl is None or arr[0] != 'agg':
                return None
            vals = [x for _, x in arr[4]]
            i = 0
            k = 0
            while i < len(tpl):
                b = tpl[i]
                i += 1
                if b == 0:
                    break
                if b < 0x80:
                    out.append(('lit', tpl[i:i + b].decode('utf-8', 'replace')))
                    i += b
                elif b == 0x80:
                    ln = tpl[i] | (tpl[i + 1] << 8)
                    out.append(('lit', tpl[i + 2:i + 2 + ln].decode('utf-8', 'replace')))
                    i += 2 + ln
                else:
                    if b != 0xC0:
                        if b & 1:
                            i += 4
                        if b & 2:
                            i += 2
                        if b & 4:
                            i += 2
                        if b & 8:
                            k = tpl[i] | (tpl[i + 1] << 8)
                            i += 2
                    if k >= len(vals):
                        return None
                    v = strip(vals[k])
                    k += 1
                    inner = v[2][0] if v[0] == 'call' and re.search(r'rt::Argument::new_\w+$', v[1]) and v[2] else v
                    t = _const_str(inner)
                    out.append(('lit', t) if t is not None else ('val', strip(inner)))
        elif re.search(r'(Display|Debug)>?::fmt$', n) and len(a) == 2:
            out.append(('val', strip(a[0])))
    return out


def display_call_exact(chk, F, rule, cfg):
    """the rendering of a call, exactly: `<path>(` e1 `, ` e2 .. `)` with e_i = the argument's own rendering, or `?` where there is none -
    for every sequence of up to two arguments explored (all four Some/None combinations)"""
    fn = F.method('debug::FnActualCall', 'fmt', 'core::fmt::Display')
    paths = symex.Interp(F, loop_bound=3).run(fn)
    seen = {}
    for p in paths:
        if p.outcome[0] != 'return' or is_call(strip(p.outcome[1]), r'from_residual$'):
            continue
        # std contract: what `peek()` saw is what the following `next()` yields - paths on which the two disagree do not exist
        pk = None
        feasible = True
        for d in p.decisions:
            v = strip(d.value)
            if v[0] == 'discr' and (is_call(strip(v[1]), r'Peekable<I>>?::peek$|Peekable::peek$') or mentions(v[1], lambda x: is_call(x, r'Peekable(<I>)?>?::peek$')) and not L.is_iter_next(v)):
                pk = decision_variant(F, d)
            elif L.truth_of(d)[1] is not None and is_call(L.truth_of(d)[0], r'Option::(is_some|is_none)$') and mentions(L.truth_of(d)[0], lambda x: is_call(x, r'Peekable(<I>)?>?::peek$')):
                inner_, t_ = L.truth_of(d)
                pk = 'Some' if (inner_[1].endswith('is_some') == t_) else 'None'
            elif L.is_iter_next(v):
                if pk is not None and decision_variant(F, d) != pk:
                    feasible = False
                pk = None
        # std contract: the k-th item of `enumerate()` carries index k - 1: tests of that index against a constant have one feasible outcome
        nexts = [e.data[3] for e in p.effects if e.kind == 'call' and re.search(r'Enumerate<I> as core::iter::Iterator>::next$', e.data[1])]
        for d in p.decisions:
            inner_, t_ = L.truth_of(d)
            cmp_ = symex.as_comparison(inner_) if t_ is not None else None
            if not cmp_:
                continue
            for a_, b_, op_ in ((cmp_[1], cmp_[2], cmp_[0]), (cmp_[2], cmp_[1], symex.CMP_FLIP[cmp_[0]])):
                a_, b_ = strip(a_), strip(b_)
                if b_[0] == 'c' and isinstance(b_[1], int) and not isinstance(b_[1], bool) and a_[0] == 'field' and a_[2] == '0':
                    src = [x for x in symex.subvalues(a_) if x[0] == 'call' and re.search(r'Enumerate<I> as core::iter::Iterator>::next$', x[1])]
                    if src and src[0][3] in nexts and mentions(a_, lambda x: x[0] == 'as' and x[2] == 'Some'):
                        if symex.cmp_holds(op_, nexts.index(src[0][3]) - b_[1]) != t_:
                            feasible = False
        if not feasible:
            continue
        toks = rendered(p)
        elems = []
        for d in p.decisions:
            v = strip(d.value)
            if v[0] == 'discr' and strip(v[1])[0] in ('deref', 'field') and mentions(v[1], lambda x: x[0] == 'call' and re.search(r'Iterator>?::next$|<impl \[T\]>::split_first$', x[1])) and not L.is_iter_next(v):
                elems.append(decision_variant(F, d))      # (an element: what `next()` yielded, or the head `split_first()` split off)
        if toks is None:
            chk.ob(rule, 'every write of FnActualCall::fmt is understood', False, config=cfg, fn=fn, site='render', unrecognised=True, what='unknown write on a path with elements %s' % elems)
            continue
        got = ''
        for k, x in toks:
            if k == 'lit':
                got += x
            elif mentions(x, lambda y: y[0] == 'ref' and y[1][0] == ('ptr', ('param', 0, 1)) and y[1][1][-1:] == (('f', 'path'),)) or (field_path(x)[0] == ('param', 0, 1) and field_path(x)[1][-1:] == ['path']):
                got += '<path>'
            elif mentions(x, lambda y: y[0] == 'as' and y[2] == 'Some' and mentions(y, lambda z: z[0] == 'call' and re.search(r'Iterator>?::next$|<impl \[T\]>::split_first$', z[1]))) or \
                    mentions(x, lambda y: y[0] == 'ref' and ('dc', 'Some') in y[1][1] and mentions(y[1][0], lambda z: z[0] == 'call' and re.search(r'Iterator>?::next$', z[1]))):
                got += '<arg>'
            else:
                got += '<other>'
        want = '<path>(' + ', '.join('<arg>' if v_ == 'Some' else '?' for v_ in elems) + ')'
        seen[tuple(elems)] = seen.get(tuple(elems), 0) + 1
        chk.ob(rule, 'a call with arguments %s is rendered as %s' % (list(elems), want), got == want, config=cfg, fn=fn, site='render:%s' % ','.join(elems), what='rendering of %s' % list(elems), found=got, expected=want)
    need = [(), ('Some',), ('None',), ('Some', 'Some'), ('Some', 'None'), ('None', 'Some'), ('None', 'None')]
    chk.floor(rule, 'argument shapes (0..2 arguments, with and without Debug) rendered completely', sum(1 for k in need if k in seen), len(need), config=cfg)


def display_call(chk, F, rule, cfg):
    display_call_exact(chk, F, rule, cfg)
    fn = F.method('debug::FnActualCall', 'fmt', 'core::fmt::Display')
    paths = symex.Interp(F, loop_bound=2).run(fn)
    chk.analysed(fn)
    isfail = lambda p: p.outcome[0] != 'return' or is_call(strip(p.outcome[1]), r'from_residual$')  # noqa: E731
    L.loops_run_to_completion(chk, rule, fn, cfg, paths, fail_outcome=isfail)
    for p in paths:
        ws = [e for e in p.calls(r'Formatter::write_fmt$|Formatter::write_str$')]
        if ws:
            first = ws[0].data[2][1]
            ok = mentions(first, lambda x: x[0] == 'ref' and x[1][0] == ('ptr', ('param', 0, 1)) and x[1][1][-1:] == (('f', 'path'),))
            chk.ob(rule, 'the rendering starts with Trait::method', ok, config=cfg, fn=fn, site='path-first', what='first write %s' % show(first)[:80], found=show(first)[:160])
        # per element
        for d in p.decisions:
            v = strip(d.value)
            if v[0] == 'discr' and L.is_iter_next(v):
                src = v[1]
                names = L.pipeline_calls(src, lambda x: field_path(x)[1][:1] == ['inputs_debug'] and field_path(x)[0] == ('param', 0, 1))
                ok = names is not None and all(re.search(r'(Iterator>?::next|Iterator::peekable|Peekable::peek|::iter|Deref>?::deref|IntoIterator( for [^>]*)?>?::into_iter|Iterator::enumerate|<impl \[T\]>::split_first)$', n) for n in names)
                chk.ob(rule, 'arguments are rendered in declaration order (forward traversal of inputs_debug)', ok, config=cfg, fn=fn, site='order', what='traversal %s' % names, found=names)
        elem_decs = [d for d in p.decisions if strip(d.value)[0] == 'discr' and strip(strip(d.value)[1])[0] in ('deref', 'field') and mentions(strip(d.value)[1], lambda x: x[0] == 'call' and re.search(r'Iterator>?::next$', x[1]))]
        for d in elem_decs:
            var = decision_variant(F, d)
            later = [e for e in ws if e.ndec >= p.decisions.index(d) + 1]
            if not later:
                continue
            w = later[0].data[2][1]
            if var == 'Some':
                ok = mentions(w, lambda x: x[0] == 'as' and x[2] == 'Some' and mentions(x, lambda y: y[0] == 'call' and re.search(r'Iterator>?::next$', y[1])))
                chk.ob(rule, 'a Debug-renderable argument is written as its rendering', ok, config=cfg, fn=fn, site='elem:some', what='Some element writes %s' % show(w)[:80], found=show(w)[:160])
            elif var == 'None':
                ok = "'\"?\"'" in show(w) or '"?"' in show(w) or mentions(w, lambda y: y[0] in ('c', 'ref', 'deref') and _const_str(y) == '?')
                chk.ob(rule, 'an argument without Debug is written as `?`', ok, config=cfg, fn=fn, site='elem:none', what='None element writes %s' % show(w)[:80], found=show(w)[:160])
    cpd = F.method('debug::CallPatternDebug', 'fmt', 'core::fmt::Display')
    for p in symex.Interp(F).run(cpd):
        var = None
        for d in p.decisions:
            if strip(d.value)[0] == 'discr':
                var = decision_variant(F, d)
        vals = written_values(p) + opened_displays(F, p)
        txt = ' '.join(show(v) for v in vals)
        fns_ = field_names(vals)
        if var == 'Debug':
            ok = all(k in txt or k in fns_ for k in ('pat_debug', 'file', 'line')) and (re.search(r'\.path\b', txt) is not None or 'path' in fns_)
            chk.ob(rule, 'a pattern with matcher debug info is named by its source text and file:line', ok, config=cfg, fn=cpd, site='pattern:debug', what='CallPatternDebug(Debug) renders %s' % sorted(k for k in ('pat_debug', 'file', 'line', 'path') if k in txt))
        elif var == 'PatIndex':
            ok = 'PatIndex' in txt and 'path' in txt
            chk.ob(rule, 'a pattern without debug info is named by method path and index', ok, config=cfg, fn=cpd, site='pattern:index', what='CallPatternDebug(PatIndex)')
        else:
            chk.ob(rule, 'CallPatternDebug dispatches on its location kind', False, config=cfg, fn=cpd, site='pattern:dispatch', unrecognised=True, what='dispatch %s' % (var,))
    fc = F.fn('eval::DynCtx::fn_call')
    for p in symex.Interp(F, inline=lambda f, d, n: f.defp.endswith('::debug_inputs') and 'DynCtx' in f.defp).run(fc):
        r = strip(p.outcome[1])
        d = dict(r[4]) if r[0] == 'agg' else {}
        who_ = d.get('info', d.get('path', ('unk', '')))
        ok = field_path(who_) in ((('param', 0, 1), ['info']), (('param', 0, 1), ['info', 'path'])) and is_call(d.get('inputs_debug', ('unk', '')), r'core::ops::Fn::call$') and \
            mentions(d['inputs_debug'], lambda x: x[0] == 'field' and x[2] == 'input_debugger' or (x[0] == 'ref' and x[1][1][-1:] == (('f', 'input_debugger'),)))
        chk.ob(rule, 'the reported call = (this method\'s info, the renderings produced by the input debugger)', ok, config=cfg, fn=fc, site='fn_call', what='fn_call %s' % show(r)[:100], found=show(r)[:200])
    ev = F.fn('eval::eval')
    clos = [c for c in F.closures_of(ev)]
    okc = False
    for c in clos:
        for p in symex.Interp(F).run(c):
            r = strip(p.outcome[1]) if p.outcome[0] == 'return' else ('unk', '')
            if is_call(r, r'^MockFn::debug_inputs$') and mentions(r, lambda x: x[0] == 'field' and 'inputs' in str(x[2])):
                okc = True
    chk.ob(rule, 'the input debugger of an evaluation is F::debug_inputs(&inputs) of the call\'s own inputs', okc, config=cfg, fn=ev, site='input_debugger', what='input debugger closure')


def expected_pattern_lookup(chk, F, rule, cfg):
    """"Method matched in wrong order. Expected a call matching <pattern> at file:line": the pattern named is the owner of the
    consumed slot - found with the same slot lookup the selector uses (decided by R04.4), in any ordered method's list."""
    fn = F.fn('state::SharedState::find_ordered_expected_call_pattern_debug')
    own = lambda x: x[0] == 'ref' and x[1][1][-1:] == (('f', 'fn_mockers'),) and x[1][0] == ('ptr', ('param', 0, 1))  # noqa: E731
    n = 0
    paths = symex.Interp(F, loop_bound=3).run(fn)
    if paths and any(p.called(r'Iterator>?::next$') for p in paths) and not any(p.called(r'Iterator>?::(find_map|find|filter_map)$') for p in paths):
        # explicit loop over the method tables
        for p in paths:
            n += 1
            cur = None
            ok, why = True, ''
            returned = None
            for e in [e for e in p.effects if e.kind == 'call']:
                nm = e.data[1]
                if re.search(r'Iterator>?::next$', nm):
                    pn = L.pipeline_calls(e.data[2][0], own)
                    if pn is None or not all(re.search(r'(BTreeMap(<.*>)?::(values|iter)$|Iterator>?::next$|IntoIterator( for [^>]*)?>?::into_iter$)', x) for x in pn):
                        ok, why = False, 'the loop does not walk the method tables themselves: %s' % (pn,)
                        break
                    cur = ('call', nm, e.data[2], e.data[3])
                elif re.search(r'FnMocker::find_call_pattern_for_call_order$', nm):
                    if cur is None or not mentions(e.data[2][0], lambda x: x == cur) or strip(e.data[2][1]) != ('param', 0, 2):
                        ok, why = False, 'slot lookup not on the current table / not with the given index'
                        break
                    returned = ('lookup', ('call', nm, e.data[2], e.data[3]))
                elif re.search(r'FnMocker::debug_pattern$', nm):
                    lk = returned[1] if returned and returned[0] == 'lookup' else None
                    if lk is None or not mentions(e.data[2][1], lambda x: x == lk) or not mentions(e.data[2][0], lambda x: x == cur):
                        ok, why = False, 'the pattern described is not the one the slot lookup found in this table'
                        break
                    returned = ('debug', ('call', nm, e.data[2], e.data[3]))
                elif re.search(r'binary_search|partition_point|Iterator>?::(position|nth|skip|rev)$', nm):
                    ok, why = False, 'another search: %s' % nm
                    break
            r = strip(p.outcome[1]) if p.outcome[0] == 'return' else ('unk', '')
            if ok:
                found_owner = any(strip(d.value)[0] == 'discr' and is_call(strip(strip(d.value)[1]), r'FnMocker::find_call_pattern_for_call_order$') and symex.decision_variant(F, d) == 'Some' for d in p.decisions)
                if found_owner:
                    ok = r[0] == 'agg' and r[3] == 'Some' and returned is not None and returned[0] == 'debug' and mentions(r, lambda x: x == returned[1])
                    why = 'a found slot owner must be reported at once'
                else:
                    last = None
                    for d in p.decisions:
                        if L.is_iter_next(strip(d.value)):
                            last = symex.decision_variant(F, d)
                    ok = r[0] == 'agg' and r[3] == 'None' and last == 'None'
                    why = 'None only after every table has been consulted (last next: %s)' % last
            chk.ob(rule, 'the pattern named in a wrong-order error is the slot owner found by the selector\'s own lookup, in that method\'s list (loop form)', ok, config=cfg, fn=fn,
                   site='expected:loop', what='expected-pattern loop: %s' % why if not ok else 'expected-pattern loop', found=why if not ok else None)
        chk.floor(rule, 'paths of the expected-pattern search', n, 3, config=cfg)
        return
    for p in paths:
        v = p.outcome[1] if p.outcome[0] == 'return' else ('unk', '')
        names = L.pipeline_calls(v, own)
        ok = names is not None and all(re.search(r'(BTreeMap(<.*>)?::(values|iter)$|Iterator>?::(find_map|filter|filter_map|map|next|find)$|IntoIterator( for [^>]*)?>?::into_iter$)', x) for x in names)
        chk.ob(rule, 'the expected pattern is searched in every method\'s table', ok, config=cfg, fn=fn, site='expected:pipeline', unrecognised=(names is None), what='expected-pattern search %s' % (names,), found=names)
        for e in p.calls(r'Iterator>?::(find_map|filter|filter_map|map|find)$'):
            c = strip(e.data[2][1])
            if not (c[0] == 'agg' and c[1] == 'closure'):
                chk.ob(rule, 'closures of the expected-pattern search are literals', False, config=cfg, fn=fn, site='expected:closure', unrecognised=True, what='opaque closure')
                continue
            cf = F.fns[c[2]]
            for q in symex.Interp(F).run(cf):
                n += 1
                lookups = list(q.calls(r'FnMocker::find_call_pattern_for_call_order$'))
                dbg = list(q.calls(r'FnMocker::debug_pattern$'))
                # (looked up in this element's table, with what the closure captured from the caller - the order position, whatever it is called)
                okl = all(field_path(l.data[2][0])[0] == ('param', 0, 2) and ('ordered_call_index' in show(l.data[2][1]) or field_path(l.data[2][1])[0] == ('param', 0, 1)) for l in lookups)
                okd = True
                for d in dbg:
                    idx = strip(d.data[2][1])
                    okd = okd and len(lookups) == 1 and mentions(idx, lambda x: x[0] == 'call' and x[3] == lookups[0].data[3] and x[1] == lookups[0].data[1]) and \
                        field_path(d.data[2][0])[0] == ('param', 0, 2)
                # every path on which the slot lookup found an owner reports it
                found_owner = any(strip(dd.value)[0] == 'discr' and lookups and mentions(dd.value, lambda x: x[0] == 'call' and x[3] == lookups[0].data[3]) and
                                  symex.decision_variant(F, dd) in ('Continue', 'Some') for dd in q.decisions)
                r = strip(q.outcome[1]) if q.outcome[0] == 'return' else ('unk', '')
                oks = (not found_owner) or (r[0] == 'agg' and r[3] == 'Some' and bool(dbg))
                other = [x.data[1] for x in q.calls(r'binary_search|partition_point|Iterator>?::(position|find|nth|skip|rev)$')]
                chk.ob(rule, 'the pattern named in a wrong-order error is the slot owner found by the selector\'s own lookup, in that method\'s list', okl and okd and oks and not other, config=cfg, fn=cf,
                       site='expected:lookup', what='expected-pattern lookup: lookups=%d debug=%d other=%s' % (len(lookups), len(dbg), other), found={'lookups': len(lookups), 'debug_pattern': len(dbg), 'other_search': other})
    chk.floor(rule, 'paths of the expected-pattern search closures', n, 2, config=cfg)


def pattern_indices(chk, F, rule, cfg):
    dp = F.fn('fn_mocker::FnMocker::debug_pattern')
    # debug_pattern as a whole (CallPattern::debug_location and the location constructor, where they exist, are part of it):
    # the description is built from this method's info and from pattern i's own matcher debug info, or else from the index i itself
    dl_inline = lambda f_, d_, n_: bool(re.search(r'CallPattern::debug_location$|CallPatternLocation::new$', f_.defp))  # noqa: E731
    n = 0
    for p in symex.Interp(F, inline=dl_inline).run(dp):
        news = list(p.calls(r'CallPatternDebug::new$'))
        ok = len(news) == 1 and p.outcome[0] == 'return' and strip(p.outcome[1])[0] == 'call' and strip(p.outcome[1])[3] == news[0].data[3]
        if ok:
            n += 1
            info, loc = strip(news[0].data[2][0]), strip(news[0].data[2][1])
            ok = field_path(info) in ((('param', 0, 1), ['info']), (('param', 0, 1), ['info', 'path'])) and loc[0] == 'agg'      # (this method's info, or just its Trait::method path)
            if ok and loc[3] == 'PatIndex':
                ok = strip(loc[4][0][1]) == ('param', 0, 2)
            elif ok:
                pay = loc[4][0][1] if loc[4] else ('unk', '')
                ok = mentions(pay, lambda x: x[0] == 'field' and x[2] == 'matcher_debug') and \
                    mentions(pay, lambda x: (x[0] == 'index' and field_path(x[1])[1][-1:] == ['call_patterns'] and mentions(x[2], lambda y: y == ('param', 0, 2))) or
                             (is_call(x, r'Index<I>>?::index$|SliceIndex.*::index$') and field_path(x[2][0]) == (('param', 0, 1), ['call_patterns']) and mentions(x[2][1], lambda y: y == ('param', 0, 2))))
        chk.ob(rule, 'debug_pattern(i) describes pattern i of this method', ok, config=cfg, fn=dp, site='debug_pattern', what='debug_pattern description', found=[show(e.data[2][1])[:120] for e in news])
    chk.floor(rule, 'paths of debug_pattern', n, 2, config=cfg)
    # the diagnostics loop in eval_dyn and the ordered arm: collect_from_reporter(index of the very pattern the reporter was filled for)
    for fname in ('eval::DynCtx::eval_dyn', 'eval::DynCtx::match_call_pattern'):
        fn = F.fn(fname)
        seen = 0
        for p in symex.Interp(F).run(fn):
            ms = {e.data[3]: e for e in p.calls(r'core::ops::Fn::call$')}
            for e in p.calls(r'MismatchesBuilder::collect_from_reporter$'):
                seen += 1
                idx = strip(e.data[2][1])
                rep = strip(e.data[2][2])
                # the reporter was lent (as &mut, inside Some(..)) to exactly one matcher call: find it by the snapshot of that borrow
                cands = [m_ for m_ in ms.values() if mentions(m_.data[2][1], lambda x: x[0] == 'ref' and len(x) > 3 and x[2] and strip(x[3]) == rep)]
                m = cands[0] if len(cands) == 1 else None
                ok = m is not None
                if ok:
                    pat = strip(strip(m.data[2][1])[4][0][1])
                    # index and pattern come from the same source element
                    srcs_i = [x for x in symex.subvalues(idx) if x[0] == 'call']
                    srcs_p = [x for x in symex.subvalues(pat) if x[0] == 'call']
                    ok = bool(srcs_i) and bool(srcs_p) and any(a[3] == b[3] and a[1] == b[1] for a in srcs_i for b in srcs_p)
                chk.ob(rule, 'mismatches are filed under the index of the pattern whose matcher produced them', ok, config=cfg, fn=fn, site='collect', what='collect_from_reporter index %s' % show(idx)[:80],
                       found={'index': show(idx)[:120], 'reporter': show(rep)[:80]})
        chk.ob(rule, '%s files diagnostics' % fname, seen >= 1, config=cfg, fn=fn, site='collect', unrecognised=True, what='no collect_from_reporter')
    # errors about a selected pattern carry that pattern's index
    ed = F.fn('eval::DynCtx::eval_dyn')
    for p in symex.Interp(F).run(ed):
        for e in p.calls(r'FnMocker::debug_pattern$'):
            idx = strip(e.data[2][1])
            ok = mentions(idx, lambda x: is_call(x, r'^eval::DynCtx::match_call_pattern$'))
            chk.ob(rule, 'NoOutputAvailable names the selected pattern', ok, config=cfg, fn=ed, site='debug_pattern.idx', what='index %s' % show(idx)[:80])
