//@ expect: E0308
//@ mentions: expected an array with a size of | mismatched types
#![allow(unused)]
// control for c15_assoc_items_twin: the array-length encoding does tell two different constants apart - an implementor that keeps
// the trait's default (4) is not interchangeable with the mock configured with 2
use unimock::*;

#[unimock(api = AcMock, const N: usize = 2;)]
pub trait Ac {
    const N: usize = 4;
    fn req(&self, i: usize) -> i32;
    fn sum(&self) -> i32 { (0..Self::N).map(|i| self.req(i)).sum() }
}
pub struct Plain;
impl Ac for Plain { fn req(&self, i: usize) -> i32 { 0 } }

pub fn n_differs(a: [(); <Unimock as Ac>::N]) -> [(); <Plain as Ac>::N] { a }
