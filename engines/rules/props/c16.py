"""C16 — unmocking calls the registered real function with the mock as its dependency."""
import symex
from symex import strip
from props.util import configs, load
from props import evalcore as E, lifecycle as L
from xpand import rules as X
import tables

LEVEL = 'translation_validation'


def run(chk, tier):
    chk.explain('Translation validation on the generated trait grammar with unmock_with in its three forms (path, path(args..), _), varying '
                'the method\'s position in the list, receiver and sync/async: the compiled Unmock arm of method i calls exactly the i-th '
                'entry, once, with (mock, arguments in order) or the listed expressions, and returns its (awaited) result; methods without '
                'an entry have no Unmock arm and fall through to Continuation::report => CannotUnmock via induce_panic. Runtime: the '
                'Unmock continuation only arises from the documented rows of eval_dyn / eval::eval.')
    X.check_traits(chk, tier, chk.seed, {'C16'})
    for cfg in configs(tier, thorough=('std', 'mocks', 'nostd-spin', 'nostd')):
        F = load(chk, cfg)
        E.eval_dyn_table(chk, F, 'R16.4', cfg)
        E.eval_table(chk, F, 'R16.4.eval', cfg)
        # R16.8 'calls it makes back into mocked traits are evaluated by the same mock': whether a fall-through unmocks is decided by the
        # state every clone shares (set by the constructors, never written; a clone shares exactly that state)
        from props import lifecycle as L_
        L_.clone_and_ctor(chk, F, 'R16.8', cfg)
        acc_ = L_.field_accesses(F, 'state::SharedState', 'fallback_mode')
        writers_ = L_.attributed(F, acc_, kinds=('write', 'construct'))
        chk.ob('R16.8', 'fallback_mode lives in the shared state and is only written when that state is constructed', writers_ == ['state::SharedState::new'], config=cfg,
               site='field:fallback_mode', what='writers of fallback_mode', found=writers_, expected=['state::SharedState::new'])
        # R16.6 'panics naming the call': the text the mock panics with is the rendering of this call's own error
        from props.c08 import panic_message_is_the_error
        panic_message_is_the_error(chk, F, 'R16.6', cfg)
        rep = F.fn('private::Continuation::report')
        from symex import decision_variant
        rrows = tables.abstract(symex.Interp(F).run(rep),
                                lambda d, p: ('cont', {decision_variant(F, d)} if isinstance(decision_variant(F, d), str) else set(decision_variant(F, d)[1])) if strip(d.value)[0] == 'discr' and strip(strip(d.value)[1]) == ('param', 0, 1) else None,
                                lambda p: ('induce_panic(%s)' % strip(list(p.calls(r'^Unimock::induce_panic$'))[0].data[2][1])[3]) if p.called(r'^Unimock::induce_panic$') and p.outcome[0] == 'diverge' else str(p.outcome[0]))
        tables.check_table(chk, 'R16.3', rep, rrows, [('Unmock without a function => CannotUnmock (recorded panic)', {'cont': {'Unmock'}}, 'induce_panic(CannotUnmock)')], config=cfg)
