"""C20 — bundled std/core/tokio/futures/embedded-hal mocks act like hand-written impls (entry-point wiring)."""
import re
import symex
from symex import strip, show, is_call, field_path, mentions, decision_variant
from props import lifecycle as L, evalcore as E
from props.util import load

LEVEL = 'other'

FLOOR_TRAITS = 28
FLOOR_METHODS = 87


def mirrored(F, self_ty):
    return [im for im in F.impls if '#[unimock]' in im.get('macros', []) and im.get('trait') and not im.get('trait_local') and im['self_ty'] == self_ty]


def supertrait_forwarders(chk, F, rule, cfg, floor=2):
    """hand-written impls of upstream traits for the delegation helper (supertraits of mirrored traits, e.g. Display / Debug for
    `Error`): each method forwards to the wrapped mock's own impl of the *same* trait's *same* method with the arguments in order and
    returns its result - a default body that formats `self` is then evaluated against the patterns of the trait it actually used"""
    hand = [im for im in F.impls if im.get('self_ty') == 'default_impl_delegator::DefaultImplDelegator' and im.get('trait') and not im.get('trait_local')
            and '#[unimock]' not in im.get('macros', []) and not re.search(r'^core::(convert::As(Ref|Mut)|clone::Clone|marker::|ops::Drop)', im['trait'])]
    n = 0
    for im in hand:
        trait = im['trait']
        tname = trait.rsplit('::', 1)[-1]
        for it in im['items']:
            fn = F.fns.get(it['def'])
            if fn is None or not it['is_fn']:
                continue
            n += 1
            for p in symex.Interp(F).run(fn):
                fw = [e for e in p.calls() if (e.term.get('callee', {}).get('resolved') or {}).get('impl_self_ty') == 'Unimock' and e.term['callee'].get('name') == it['name'] and
                      (e.term['callee'].get('trait') == trait or ('<Unimock as %s>' % trait) in (e.term['callee'].get('resolved') or {}).get('def', ''))]
                ok = len(fw) == 1 and p.outcome[0] == 'return' and strip(p.outcome[1])[0] == 'call' and strip(p.outcome[1])[3] == fw[0].data[3]
                order = []
                if fw:
                    for a in fw[0].data[2][1:]:
                        order.append(param_index_of(F, fn, fn, a))
                    ok = ok and order == list(range(2, fn.arg_count + 1))
                    recv = fw[0].data[2][0]
                    ok = ok and mentions(recv, lambda x: x == ('param', 0, 1) or (x[0] == 'ref' and x[1][0] == ('ptr', ('param', 0, 1))))
                chk.ob(rule, 'helper %s::%s forwards to the mock\'s own %s::%s with the same arguments' % (tname, it['name'], tname, it['name']), ok, config=cfg, fn=fn, site='forward:%s::%s' % (tname, it['name']),
                       what='helper %s::%s forwards %s' % (tname, it['name'], [e.data[1] for e in p.calls()]), found={'calls': [e.data[1] for e in p.calls()], 'order': order}, expected='<Unimock as %s>::%s(&self.unimock, ..)' % (trait, it['name']))
    if floor:
        chk.floor(rule, 'hand-written supertrait forwarders of the helper', n, floor, config=cfg)


def fn_of_impl(F, im, name):
    for it in im['items']:
        if it['name'] == name and it['is_fn']:
            return F.fns.get(it['def'])
    return None


def param_index_of(F, fn, body, v):
    """which parameter (1-based local index of `fn`) does value v of `body` come from, unchanged?"""
    v = strip(v)
    while v[0] == 'ref' and v[1][0][0] == 'ptr' and not v[1][1]:
        v = strip(v[1][0][1])
    while v[0] == 'deref':
        v = strip(v[1])
    if body is fn:
        if v[0] == 'param':
            return v[2]
        return None
    # closure body: upvar of the closure parameter
    root, names = field_path(v)
    if root == ('param', 0, 1) and len(names) == 1:
        nm = names[0].replace('_ref__', '')
        for i in range(1, fn.arg_count + 1):
            if fn.locals[i].get('name') == nm:
                return i
    return None


def run(chk, tier):
    chk.explain('K7/K6 over the real expansions in /repo/src/mock (feature configuration `mocks`): every method of every '
                '`impl <upstream trait> for Unimock` evaluates exactly one private::eval::<F> whose F is the MockFn named after that '
                'method in the trait\'s Mock module, with the parameters in declaration order; every mirrored provided method has a '
                'default-impl arm whose resolved callee is the upstream default body applied to the helper; each '
                '`impl <upstream trait> for DefaultImplDelegator` defines only required methods and forwards each to Unimock\'s own '
                'method of the same name with the parameters in order; Termination::report is partial-by-default and its unmock arm runs '
                'the real verification.')
    cfg = 'mocks'
    F = load(chk, cfg)
    # R20.5 a script is a tuple of clauses: every element of every arity reaches the assembler, in order
    from props import assembly as A
    A.tuple_order(chk, F, 'R20.5', cfg)
    # R20.3.eval every call is resolved by eval_dyn's table (no shortcut in front of it that forgets default bodies)
    from props import evalcore as E
    E.eval_table(chk, F, 'R20.3.eval', cfg)
    uni = mirrored(F, 'Unimock')
    dele = mirrored(F, 'default_impl_delegator::DefaultImplDelegator')
    traits = sorted(set(im['trait'] for im in uni))
    chk.floor('R20.1', 'mirrored upstream traits implemented for Unimock', len(traits), FLOOR_TRAITS, config=cfg)
    nmeth = 0
    for im in uni:
        trait = im['trait']
        tname = trait.rsplit('::', 1)[-1]
        for it in im['items']:
            if not it['is_fn']:
                continue
            fn = F.fns.get(it['def'])
            if fn is None:
                chk.ob('R20.1', 'method body exported', False, config=cfg, site='%s::%s' % (tname, it['name']), unrecognised=True, what='no body for %s::%s' % (tname, it['name']))
                continue
            nmeth += 1
            m = it['name']
            bodies = [fn] + F.closures_of(fn)
            evals = []
            for b in bodies:
                for p in symex.Interp(F).run(b):
                    for e in p.calls(r'^private::eval$'):
                        evals.append((b, p, e))
            sites = sorted(set((b.defp, e.bb) for b, p, e in evals))
            chk.ob('R20.1', '%s::%s is served by exactly one mock entry point' % (tname, m), len(sites) == 1, config=cfg, fn=fn, site='eval-count', what='%s::%s has %d eval sites' % (tname, m, len(sites)), found=sites)
            for b, p, e in evals[:1]:
                targs_all = e.term['callee'].get('args', [])
                uids = e.term['callee'].get('args_uid', [None] * len(targs_all))
                pairs = [(a, u) for a, u in zip(targs_all, uids) if not a.startswith("'")]
                F_ty, F_uid = pairs[0] if pairs else ('', None)
                base = F_ty.split('<')[0]
                leaf = base.rsplit('::', 1)[-1]
                ok = (leaf == m and ('%sMock::' % tname) in base) or leaf == '__Generic%s' % m
                chk.ob('R20.1', '%s::%s evaluates its own MockFn (%sMock::%s)' % (tname, m, tname, m), ok, config=cfg, fn=fn, site='mockfn', what='%s::%s evaluates %s' % (tname, m, F_ty), found=F_ty, expected='…::%sMock::%s' % (tname, m))
                # receiver and inputs
                inputs = strip(e.data[2][1])
                n = fn.arg_count - 1

                def slot(x, k):
                    """parameter index carried by input slot k (1-based param k+1); `Impossible` stands in for `&mut T<'_>` parameters"""
                    x = strip(x)
                    if x[0] == 'agg' and x[2] == 'Impossible':
                        ty = fn.locals[k + 1]['ty']
                        return k + 1 if re.search(r"^&('\w+ )?mut .*<'", ty) else 'Impossible-for-%s' % ty
                    return param_index_of(F, fn, b, x)
                if n == 0:
                    ok_in = inputs in (('c', 'unit'),) or (inputs[0] == 'agg' and not inputs[4])
                    order = []
                elif n == 1:
                    order = [slot(inputs, 1)]
                    ok_in = order == [2]
                else:
                    order = [slot(x, i + 1) for i, (_, x) in enumerate(inputs[4])] if inputs[0] == 'agg' and inputs[1] == 'tuple' else [None]
                    ok_in = order == list(range(2, n + 2))
                chk.ob('R20.1', '%s::%s passes its parameters to the mock in declaration order' % (tname, m), ok_in, config=cfg, fn=fn, site='inputs', what='%s::%s inputs order %s' % (tname, m, order), found={'order': order, 'inputs': show(inputs)[:200]},
                       expected=list(range(2, n + 2)))
                # info().path and default_impl flag
                info = [g for g in F.fns.values() if g.name == 'info' and (g.impl_of or {}).get('trait') == 'MockFn' and (g.impl_of or {}).get('self_adt_uid') == F_uid]
                chk.ob('R20.1', 'MockFn::info of %sMock::%s exists' % (tname, m), len(info) == 1, config=cfg, site='info:%s::%s' % (tname, m), unrecognised=True, what='info fn for %s' % base, found=[g.defp for g in info])
                for g in info:
                    for ip in symex.Interp(F).run(g):
                        txt = show(ip.outcome[1]) if ip.outcome[0] == 'return' else ''
                        has_default = 'MockFnInfo::default_impl' in txt
                        is_provided = m in im['trait_provided']
                        if is_provided:
                            chk.ob('R20.3', 'mirrored provided method %s::%s is flagged as having a default body' % (tname, m), has_default, config=cfg, fn=g, site='default_impl-flag', what='%s::%s info lacks default_impl()' % (tname, m))
                        else:
                            chk.ob('R20.3', 'required method %s::%s is not flagged as default-bodied' % (tname, m), not has_default, config=cfg, fn=g, site='default_impl-flag', what='%s::%s info has default_impl()' % (tname, m))
                        pr = g.promoted[0] if g.promoted else None
                        names = []
                        if pr is not None:
                            for _, s in pr.stmts():
                                rv = s.get('rv', {})
                                if rv.get('agg') == 'array':
                                    names = [o.get('c', {}).get('repr', '') for o in rv['ops']]
                        ok_path = names == ['"%s"' % tname, '"%s"' % m]
                        chk.ob('R20.1', 'error messages will name %s::%s' % (tname, m), ok_path, config=cfg, fn=g, site='info-path', what='info path %s' % names, found=names, expected=[tname, m])
            # default-impl arm for provided methods
            if m in im['trait_provided']:
                found = False
                for b in bodies:
                    for p in symex.Interp(F).run(b):
                        for e in p.calls():
                            c = e.term.get('callee', {})
                            if c.get('trait') == trait and c.get('name') == m and 'DefaultImplDelegator' in (c.get('self_ty') or ''):
                                r = c.get('resolved') or {}
                                ok = r.get('trait_default') == trait and not r.get('local')
                                found = True
                                chk.ob('R20.3', '%s::%s unmocked runs the *upstream* default body over the helper' % (tname, m), ok, config=cfg, fn=fn, site='default-arm', what='%s::%s default arm resolves to %s' % (tname, m, r.get('def')),
                                       found=r, expected='default body of %s::%s' % (trait, m))
                                args = e.data[2][1:]
                                # the re-bound inputs in order
                                idxs = []
                                for a in args:
                                    root, ns = field_path(a)
                                    idxs.append(ns[-1] if ns else None)
                                if len(args) > 1:
                                    chk.ob('R20.3', '%s::%s default body receives the arguments in order' % (tname, m), idxs == [str(i) for i in range(len(args))], config=cfg, fn=fn, site='default-arm-args', what='default arm arg order %s' % idxs, found=idxs)
                chk.ob('R20.3', 'mirrored provided method %s::%s has a default-impl arm' % (tname, m), found, config=cfg, fn=fn, site='default-arm', what='%s::%s lacks the default-impl arm' % (tname, m))
    chk.floor("R20.1", "mirrored methods", nmeth, FLOOR_METHODS, config=cfg)
    # R20.2 delegator impls
    for im in dele:
        trait = im['trait']
        tname = trait.rsplit('::', 1)[-1]
        fns = [it['name'] for it in im['items'] if it['is_fn']]
        over = sorted(set(fns) & set(im['trait_provided']))
        chk.ob('R20.2', 'the helper impl of %s overrides no provided method (upstream defaults stay in force)' % tname, not over, config=cfg, site='delegator:%s' % tname, what='helper overrides %s' % over, found=over, expected=[])
        chk.ob('R20.2', 'the helper impl of %s defines exactly the required methods' % tname, sorted(fns) == sorted(im['trait_required']), config=cfg, site='delegator-req:%s' % tname, what='helper methods %s vs required %s' % (sorted(fns), sorted(im['trait_required'])), found=sorted(fns), expected=sorted(im['trait_required']))
        for it in im['items']:
            fn = F.fns.get(it['def'])
            if fn is None or not it['is_fn']:
                continue
            for p in symex.Interp(F).run(fn):
                fw = [e for e in p.calls() if (e.term.get('callee', {}).get('resolved') or {}).get('impl_self_ty') == 'Unimock' and e.term['callee'].get('name') == it['name'] and (e.term['callee'].get('trait') == trait or trait in (e.term['callee'].get('resolved') or {}).get('def', ''))]
                ok = len(fw) == 1 and p.outcome[0] == 'return' and strip(p.outcome[1])[0] == 'call' and strip(p.outcome[1])[3] == fw[0].data[3]
                order = []
                if fw:
                    for a in fw[0].data[2][1:]:
                        order.append(param_index_of(F, fn, fn, a))
                    ok = ok and order == list(range(2, fn.arg_count + 1))
                    recv = fw[0].data[2][0]
                    ok = ok and mentions(recv, lambda x: x == ('param', 0, 1) or (x[0] == 'ref' and x[1][0] == ('ptr', ('param', 0, 1))))
                chk.ob('R20.2', 'helper %s::%s forwards to Unimock\'s own %s with the same arguments' % (tname, it['name'], it['name']), ok, config=cfg, fn=fn, site='forward', what='helper %s::%s forwards %s' % (tname, it['name'], order),
                       found={'calls': [e.data[1] for e in p.calls()], 'order': order})
    supertrait_forwarders(chk, F, 'R20.2.super', cfg)
    # R20.7 'required methods replay a script': a script written as one clause (`returns(x).n_times(n).then().returns(y)`) hands out x for the
    # first n calls and y afterwards - every quantifier of the builder records its response before advancing the running index by its count
    from props import builder as B_
    B_.api_table(chk, F, 'R20.7', cfg)
    B_.quantify_arith(chk, F, 'R20.7.arith', cfg)
    # R20.6 'act like hand-written impls' includes being dropped like one: clones of the mock that answers parked in the instance's own
    # lent values (e.g. `Error::source` handing out `u.make_ref(u.clone())`) and the delegation helper are released before the
    # live-handle count is taken, so a mock used that way does not refuse to verify (shared with C09/C13/C18)
    from props import lifecycle as L_
    fn_, paths_, rows_ = L_.teardown_table(chk, F, 'R20.6.table', cfg)
    L_.teardown_pre_effects(chk, F, 'R20.6', cfg, fn_, paths_)
    # R20.3.helper the step every unmocked provided method takes to reach the upstream default body: the helper for each receiver kind
    # (shared with C15: cached per instance, built from a clone of this mock, a filled cache is used and never a reason to panic)
    from props import c15
    c15.delegator_runtime(chk, F, 'R20.3.helper', cfg)
    have = set(im['trait'] for im in dele)
    for im in uni:
        needs = bool(set(it['name'] for it in im['items'] if it['is_fn']) & set(im['trait_provided']))
        if needs:
            chk.ob('R20.2', 'trait %s with mirrored provided methods has a helper impl' % im['trait'], im['trait'] in have, config=cfg, site='delegator-exists:%s' % im['trait'], what='no helper impl for %s' % im['trait'])
    # unmocked provided methods resolve to the default body before any fallback (shared with R07.1 / R15.4)
    E.eval_dyn_table(chk, F, 'R20.3.precedence', cfg)
    # R20.4 Termination
    info = [g for g in F.fns.values() if g.name == 'info' and 'TerminationMock::report' in g.defp]
    chk.ob('R20.4', 'TerminationMock::report::info exists', len(info) == 1, config=cfg, site='termination-info', unrecognised=True, what='TerminationMock::report info')
    for g in info:
        for p in symex.Interp(F).run(g):
            v = p.outcome[1]
            ok = mentions(v, lambda x: x[0] == 'overlay' and dict(x[2]).get((('f', 'partial_by_default'),)) == ('c', True)) or (strip(v)[0] == 'agg' and dict(strip(v)[4]).get('partial_by_default') == ('c', True))
            chk.ob('R20.4', 'Termination::report is partial by default (unmocked unless a clause says otherwise)', ok, config=cfg, fn=g, site='partial_by_default', what='partial_by_default not set', found=show(v)[:200])
    L.report_table(chk, F, 'R20.4', cfg)
    chk.sample({'config': cfg, 'traits': traits[:6], 'methods': nmeth})
