"""C10 — counting, sequencing and ordering are exact under every thread interleaving."""
import re
import symex
from symex import show, is_call, strip, field_path, mentions
from props import lifecycle as L
from props.c11 import LOCK_ALLOW
from props.util import configs, load

LEVEL = 'other'

ATOMIC = re.compile(r'^core::sync::atomic::Atomic\w*::(\w+)$')
RMW_OK = {'fetch_add'}
NEVER = {'store', 'swap', 'compare_exchange', 'compare_exchange_weak', 'compare_and_swap', 'fetch_update', 'fetch_sub', 'fetch_max',
         'fetch_min', 'fetch_and', 'fetch_or', 'fetch_xor', 'fetch_nand', 'get_mut', 'into_inner', 'as_ptr', 'from_ptr', 'try_update', 'update'}

IMUT_ALLOW = {
    ('Unimock', 'shared_state'): [r'^std::sync::Arc$'],
    ('Unimock', 'default_impl_delegator_cell'): [r'^once_cell::sync::OnceCell$'],
    ('Unimock', 'panicked'): [r'Mutex$', r'^core::cell::RefCell$'],
    ('state::SharedState', 'next_ordered_call_index'): [r'^core::sync::atomic::Atomic\w*$'],
    ('counter::CallCounter', 'actual_count'): [r'^core::sync::atomic::Atomic\w*$'],
    ('private::MutexIsh', 'inner'): [r'^std::sync::Mutex$', r'^spin::mutex::\w*::?\w*Mutex$', r'^spin::mutex::Mutex$', r'^core::cell::RefCell$', r'^param:T$'],
    ('value_chain::ValueChain', 'root'): [r'^once_cell::sync::OnceCell$'],
    ('value_chain::Node', 'next'): [r'^once_cell::sync::OnceCell$'],
    ('value_chain::Value', '0'): [r'^dyn:\(dyn core::any::Any', r'^fragile::'],
    ('call_pattern::DynMatchingFn', '0'): [r'^dyn:\(dyn core::any::Any \+ core::marker::Send \+ core::marker::Sync'],
    ('responder::DynReturnResponder', '0'): [r'^dyn:\(dyn core::any::Any \+ core::marker::Send \+ core::marker::Sync'],
    ('responder::DynAnswerResponder', '0'): [r'^dyn:\(dyn core::any::Any \+ core::marker::Send \+ core::marker::Sync'],
}
BENIGN_LEAF = re.compile(r'^alias:<u64 as core::num::ZeroablePrimitive>::NonZeroInner$')


_BASE = {}


def _dissolved_wrapper_allow(F, adt, field):
    """the allow-list entry of a reference-tree wrapper struct W (one field) when W no longer exists and `adt.field`, which held a W on
    the reference tree, now holds W's content directly"""
    import json
    import names
    if 'adts' not in _BASE:
        try:
            _BASE['adts'] = json.load(open(names.BASELINE))['unimock']['adts']
        except Exception:
            _BASE['adts'] = {}
    b = _BASE['adts'].get(adt)
    if not b:
        return None
    for _, fs in b['variants']:
        for fname, fty in fs:
            if fname != field:
                continue
            for (w, wf), allow in IMUT_ALLOW.items():
                wb = _BASE['adts'].get(w)
                if wb and w not in F.adts and len(wb['variants']) == 1 and len(wb['variants'][0][1]) == 1 and re.search(r'(?<![A-Za-z0-9_])%s(?![A-Za-z0-9_])' % re.escape(w), fty):
                    return allow
    return None


def _result_unused(e):
    """the local receiving this call's result is not read anywhere else in the body"""
    t = e.term or {}
    dest = t.get('dest')
    if not dest or dest.get('pr'):
        return False
    loc = dest['l']

    def uses(x, skip):
        if x is skip:
            return 0
        if isinstance(x, dict):
            n = 1 if x.get('l') == loc and 'pr' in x else 0
            return n + sum(uses(v, skip) for v in x.values())
        if isinstance(x, list):
            return sum(uses(v, skip) for v in x)
        return 0
    total = 0
    for b in e.fn.blocks:
        for st_ in b['stmts']:
            total += uses(st_.get('rv'), None)
            if st_.get('k') == 'assign' and st_['p'].get('l') == loc and st_['p'].get('pr'):
                total += 1
        tt = b['term']
        if tt is t:
            total += uses({k: v for k, v in tt.items() if k != 'dest'}, None)
        else:
            total += uses(tt, None)
    return total == 0


def atomic_ops(F):
    """every call of an atomic operation in the crate: (fn, bb, op, receiver field names, ordering, term)"""
    out = []
    for fn in F.fns.values():
        if not any(ATOMIC.search(symex.callee_name(t)) for _, t in fn.calls(include_cleanup=True)):
            continue
        for p in symex.Interp(F).run(fn):
            for e in p.effects:
                if e.kind != 'call':
                    continue
                m = ATOMIC.search(e.data[1])
                if not m:
                    continue
                op = m.group(1)
                args = e.data[2]
                names = field_path(args[0])[1] if args and op != 'new' else []
                ordering = [strip(a)[3] for a in args if strip(a)[0] == 'agg' and strip(a)[2] == 'core::sync::atomic::Ordering']
                delta = args[1] if op.startswith('fetch_') and len(args) > 1 else None
                out.append((fn, e.bb, op, tuple(names), tuple(ordering), delta, e))
    # dedupe per (fn, bb)
    seen = {}
    for r in out:
        seen[(r[0].defp, r[1])] = r
    return list(seen.values())


def run(chk, tier):
    chk.explain('K1: census of every atomic operation in the crate (receiver field, operation, ordering): on the mocked-call path '
                'each position atomic is touched by exactly one fetch_add(1) with SeqCst/AcqRel, loads only occur on the teardown '
                'path, no store/swap/CAS anywhere. K6: the position handed to the response lookup / slot lookup is the RMW return '
                'value itself. K7: interior-mutability census of the state reachable from Unimock (atomics, the MutexIsh lock, '
                'OnceCells of the per-instance chains, type-erased user closures) and no manual Send/Sync; K1: no Arc::get_mut-style '
                'access to the shared state; closures under the lock contain no user code.')
    for cfg in configs(tier, quick=('std', 'nostd'), thorough=('std', 'mocks', 'nostd-spin', 'nostd')):
        F = load(chk, cfg)
        callpath = F.reachable_fns([F.fn('private::eval')])
        from props import evalcore as E10
        efn, epaths, erows = E10.eval_dyn_table(chk, F, 'R10.6.table', cfg)
        E10.counting_discipline(chk, F, 'R10.6', cfg, efn, erows)
        # values lent concurrently through a shared &Unimock: the append is one atomic try_insert per cell (no check-then-act)
        from props import c13 as _c13
        _c13.push_node(chk, F, 'R10.7', cfg)
        _c13.chain_writers(chk, F, 'R10.7', cfg)
        ops = atomic_ops(F)
        rmw_per_field = {}
        # write-only statistics: an atomic other than the two position counters that is only ever advanced / stored, with the result
        # thrown away, and never read anywhere in the crate, cannot influence any call or verdict
        by_field = {}
        for fn, bb, op, names, ordering, delta, e in ops:
            if names:
                by_field.setdefault(names[-1], []).append((fn, op, e))
        write_only = set()
        for field, lst in by_field.items():
            if field in ('actual_count', 'next_ordered_call_index'):
                continue
            if all(op in ('fetch_add', 'fetch_sub', 'store', 'fetch_or', 'fetch_and', 'fetch_max', 'fetch_min') and _result_unused(e) for _, op, e in lst):
                write_only.add(field)
        for fn, bb, op, names, ordering, delta, e in ops:
            if names and names[-1] in write_only:
                chk.ob('R10.1', 'atomic `%s` is a write-only statistic (advanced with the result discarded, never read): it carries no position' % names[-1], True, config=cfg, fn=fn,
                       site='atomic:%s:write-only' % names[-1])
        ops = [o for o in ops if not (o[3] and o[3][-1] in write_only)]
        for fn, bb, op, names, ordering, delta, e in ops:
            chk.call_sites += 1
            field = names[-1] if names else '?'
            where = 'call path' if fn.defp in callpath else 'off call path'
            if op == 'new':
                chk.ob('R10.1', 'atomic constructed with a constant', e.data[2] and e.data[2][0][0] == 'c', config=cfg, fn=fn, site='atomic:new',
                       what='atomic initial value not constant', found=show(e.data[2][0]) if e.data[2] else None)
                continue
            if op in NEVER:
                chk.ob('R10.1', 'no store/swap/compare_exchange/fetch_update on the position atomics', False, config=cfg, fn=fn,
                       site='atomic:%s:%s' % (field, op), what='non-RMW-add atomic op %s on %s' % (op, field), found={'op': op, 'field': field, 'fn': fn.defp},
                       expected='fetch_add(1) on the call path, load on the teardown path')
                continue
            if op in RMW_OK:
                rmw_per_field.setdefault(field, []).append(fn.defp)
                ok = delta == ('c', 1) and ordering and ordering[0] in ('SeqCst', 'AcqRel')
                chk.ob('R10.1', 'position atomic `%s` is advanced by one atomic fetch_add(1, SeqCst|AcqRel)' % field, ok, config=cfg, fn=fn,
                       site='atomic:%s:fetch_add' % field, what='weak or non-unit RMW', found={'delta': show(delta) if delta else None, 'ordering': ordering},
                       expected='fetch_add(1, SeqCst)')
                continue
            if op == 'load':
                ok = fn.defp not in callpath and ordering and ordering[0] in ('SeqCst', 'Acquire')
                chk.ob('R10.1', 'atomic `%s` is only *read* during verification, never on the call path' % field, ok, config=cfg, fn=fn,
                       site='atomic:%s:load' % field, what='load of %s on the %s' % (field, where), found={'fn': fn.defp, 'ordering': ordering, 'where': where},
                       expected='loads only in CallCounter::verify (teardown path), SeqCst/Acquire')
                continue
            chk.ob('R10.1', 'atomic operation is known', False, config=cfg, fn=fn, site='atomic:%s:%s' % (field, op), unrecognised=True,
                   what='unknown atomic op %s' % op, found=op)
        for field in ('actual_count', 'next_ordered_call_index'):
            sites = rmw_per_field.get(field, [])
            chk.ob('R10.1', 'exactly one RMW site advances `%s`' % field, len(sites) == 1, config=cfg, site='rmw-sites:%s' % field,
                   what='RMW sites of %s' % field, found=sites, expected='1 site')
        chk.floor('R10.1', 'atomic operation sites', len(ops), 5, config=cfg)
        chk.sample({'config': cfg, 'atomic_ops': [(f.defp, op, list(n), list(o)) for f, _, op, n, o, _, _ in ops]})

        # ---- R10.2 the position *is* the RMW return value
        position_is_rmw(chk, F, 'R10.2', cfg)
        # R10.8 'after joining the threads the verdict equals that of the same calls made sequentially': what a worker's clone did reaches the
        # original only through the shared counters and the shared error list - never through a flag that silences it (teardown decision table)
        L.teardown_table(chk, F, 'R10.8', cfg)
        # R10.9 a call rejected on any thread - through a clone or through the shared `&Unimock` itself - is recorded in the shared error list
        # before that thread panics: it is the only trace the call leaves (rejected calls bump no counter), so the verdict after `join` needs it
        from props import c08
        c08.records_before_panic(chk, F, 'R10.9', cfg, 'nostd' in cfg)

        # ---- R10.3 interior mutability census
        seen = set()
        q = [('Unimock', None)]
        nleaf = 0
        while q:
            a, via = q.pop(0)
            if a in seen or a not in F.adts:
                continue
            seen.add(a)
            for v in F.adts[a]['variants']:
                for f in v['fields']:
                    for x in f.get('imut_direct', []):
                        if x.startswith('local:'):
                            # (a single-field wrapper struct that does not exist on the reference tree stands for the field it wraps)
                            q.append((x[6:], (a, f['name']) if x[6:] in getattr(F, 'transparent', ()) else None))
                            continue
                        if BENIGN_LEAF.search(x):
                            continue
                        nleaf += 1
                        allow = IMUT_ALLOW.get((a, f['name']))
                        if allow is None and via is not None and a in getattr(F, 'transparent', ()):
                            allow = IMUT_ALLOW.get(via)
                        if allow is None:
                            # a single-field wrapper of the reference tree that was dissolved into the field that held it
                            allow = _dissolved_wrapper_allow(F, a, f['name'])
                        if allow is None and f['name'] in write_only and re.search(r'^core::sync::atomic::Atomic\w*$', x):
                            allow = [r'^core::sync::atomic::Atomic\w*$']      # a write-only statistic, see R10.1
                        ok = allow is not None and any(re.search(rx, x) for rx in allow)
                        chk.ob('R10.3', 'interior mutability reachable from the mock: %s.%s holds %s' % (a, f['name'], x.split('(')[0]), ok, config=cfg,
                               fn=None, site='imut:%s.%s' % (a, f['name']), what='unexpected shared mutable state: %s' % x[:60],
                               found={'adt': a, 'field': f['name'], 'leaf': x}, unrecognised=(allow is None),
                               expected='atomics (2 position counters), MutexIsh, OnceCell of per-instance chains, Send+Sync type-erased boxes')
        chk.floor('R10.3', 'interior-mutability leaves under Unimock', nleaf, 8, config=cfg)
        for im in F.impls:
            if im.get('trait') in ('core::marker::Send', 'core::marker::Sync'):
                chk.ob('R10.3', 'Send/Sync only by auto traits', False, config=cfg, site='impl:%s' % im['trait'], what='manual %s impl for %s' % (im['trait'], im['self_ty']),
                       found=im['def'])
        chk.ob('R10.3', 'unsafe_code is forbidden crate-wide', F.unsafe_code_lint == 'Forbid', config=cfg, site='lint', what='unsafe_code lint level',
               found=F.unsafe_code_lint, expected='Forbid')
        chk.ob('R10.3', 'no mutable statics', all(not s.get('mut') and s.get('freeze', True) for s in F.statics), config=cfg, site='statics', what='mutable static',
               found=[s['def'] for s in F.statics])

        # ---- R10.4 configuration immutable after construction: nobody obtains &mut to the shared state
        for fn in F.fns.values():
            for bb, t in fn.calls(include_cleanup=True):
                n = symex.callee_name(t)
                if re.search(r'^std::sync::Arc::(get_mut|make_mut|try_unwrap|into_inner|get_mut_unchecked|unwrap_or_clone)$', n):
                    args = t.get('callee', {}).get('args', [])
                    shared = any('SharedState' in a for a in args)
                    chk.ob('R10.4', 'shared state is never unwrapped or borrowed mutably after construction', not shared, config=cfg, fn=fn,
                           site='call:%s' % n, what='mutable access to Arc<SharedState>', found={'callee': n, 'args': args})
        chk.ob('R10.4', 'Arc<SharedState> mutable-access census done', True, config=cfg, site='census')
        # ---- R10.5 lock discipline
        L.locked_census(chk, F, 'R10.5', cfg, LOCK_ALLOW, 3 if cfg != 'nostd' else 2)


def position_is_rmw(chk, F, rule, cfg):
    inline_all = lambda f, d, n: f.kind in ('fn', 'assoc') and f.locals[0]['ty'] == 'usize' and len(f.blocks) < 30  # noqa: E731
    nr = F.fn('call_pattern::CallPattern::next_responder')
    for p in symex.Interp(F, inline=inline_all).run(nr):
        look = list(p.calls(r'^call_pattern::find_responder_by_call_index$'))
        ok = len(look) == 1
        k = strip(look[0].data[2][1]) if ok else ('unk', '')
        ok = ok and is_call(k, r'Atomic\w*::fetch_add$') and field_path(k[2][0]) == (('param', 0, 1), ['call_counter', 'actual_count'])
        chk.ob(rule, 'the response position handed to the lookup is the pattern counter\'s fetch_add return value, unchanged', ok, config=cfg, fn=nr,
               site='lookup.arg', what='position is not the RMW result', found=show(k), expected='Atomic::fetch_add(&self.call_counter.actual_count, 1, _)')
    sel = F.fn('eval::DynCtx::match_call_pattern')
    found = 0
    from facts import strip_generics
    from props import evalcore as E
    bumpers = E.slot_bumpers(F)
    for p in symex.Interp(F, inline=lambda f, d, n: f.kind in ('fn', 'assoc') and len(f.blocks) < 30 and (f.locals[0]['ty'] == 'usize' or strip_generics(f.defp) in bumpers)).run(sel):
        for e in p.calls(r'^fn_mocker::FnMocker::find_call_pattern_for_call_order$'):
            found += 1
            k = E.unwrap_newtype(e.data[2][1])      # (the slot may travel in a newtype: `CallOrder(i)`)
            ok = is_call(k, r'Atomic\w*::fetch_add$') and field_path(k[2][0])[1][-2:] == ['shared_state', 'next_ordered_call_index']
            chk.ob(rule, 'the ordered slot used for lookup is the global counter\'s fetch_add return value, unchanged', ok, config=cfg, fn=sel,
                   site='slot-lookup.arg', what='slot is not the RMW result', found=show(k), expected='Atomic::fetch_add(&self.shared_state.next_ordered_call_index, 1, _)')
    chk.ob(rule, 'ordered selection looks a slot up', found >= 1, config=cfg, fn=sel, site='slot-lookup', unrecognised=True, what='no slot lookup found')
