"""C14 — clause composition preserves order and rejects inconsistent setups up front."""
import re
import symex
from symex import strip, show, is_call, field_path, mentions
from props import assembly as A, lifecycle as L, evalcore as E
from props.util import configs, load
import tywit

LEVEL = 'other'


def run(chk, tier):
    chk.explain('K5/K2: every tuple Clause impl (arity 2..16, and ()) deconstructs fields 0..n-1 once each, in order, into the same sink, '
                'short-circuiting on the first error; K3: decision table of MockAssembler::push (unproducible output / mode conflict => Err '
                'before registration; same mode => append; new method => insert), Each::deconstruct (empty stub => Err), try_from_clause and '
                'from_assembler (Err => panic at construction); TYWIT + K7: ordered patterns only take exact counts, then() only follows an '
                'exact count, 17-tuples are not clauses (witnesses with compiling twins).')
    for cfg in configs(tier, quick=('std', 'nostd'), thorough=('std', 'mocks', 'nostd-spin', 'nostd')):
        F = load(chk, cfg)
        A.tuple_order(chk, F, 'R14.1', cfg)
        A.push_table(chk, F, 'R14.2', cfg)
        A.each_deconstruct(chk, F, 'R14.3', cfg)
        from props import builder as B
        B.returner_error_latched(chk, F, 'R14.5', cfg)
        # R14.6 'a configured return that cannot be produced' reaches the builder: composite conversions hand an inner failure on as the
        # failure of the whole value (never a shortened vector, never another variant)
        from props import outputs as O
        O.variant_maps(chk, F, 'R14.6', cfg)
        O.vec_traversals(chk, F, 'R14.6.vec', cfg)
        tfc = F.fn('assemble::MockAssembler::try_from_clause')
        for p in symex.Interp(F, inline=lambda f, d, n: f.kind == 'closure' or f.defp == 'assemble::MockAssembler::new').run(tfc):
            d = list(p.calls(r'^Clause::deconstruct$'))
            ok = len(d) == 1 and strip(d[0].data[2][0]) == ('param', 0, 1)
            r = p.outcome[1]
            okr = is_call(strip(r), r'Result::map$') and mentions(r, lambda x: x[0] == 'call' and x[3] == d[0].data[3]) if d else False
            if d and not okr:
                # `clause.deconstruct(&mut assembler)?; Ok(assembler)`: the error is handed on, success yields the assembler that was filled
                from props import evalcore as E
                lab = E.ret_label(p)
                sr = strip(r)
                if lab.startswith('Err:propagated(deconstruct'):
                    okr = True
                elif sr[0] == 'call' and sr[3] == d[0].data[3] and any(strip(d_.value)[0] == 'discr' and strip(strip(d_.value)[1]) == sr and symex.decision_variant(F, d_) == 'Err' for d_ in p.decisions):
                    okr = True      # (the failed result itself, handed on as it is)
                elif sr[0] == 'agg' and sr[3] == 'Ok' and sr[4]:
                    pay = sr[4][0][1]
                    okr = pay[0] == 'havoc' and len(pay) > 3 and pay[3].endswith('deconstruct') and strip(pay)[0] == 'agg' and strip(pay)[2] == 'assemble::MockAssembler'
            chk.ob('R14.3', 'try_from_clause deconstructs the whole clause into a fresh assembler and propagates its error', ok and okr, config=cfg, fn=tfc, site='try_from_clause', what='try_from_clause %s' % show(r)[:100], found=show(r)[:200])
        L.clone_and_ctor(chk, F, 'R14.3.ctor', cfg)
        # K7: bounds of the quantifier methods
        for name, need in (('at_least_times', r'Ordering<Kind = property::InAnyOrder>|<O as property::Ordering>::Kind == property::InAnyOrder'), ('then', r'Repetition<Kind = property::Exact>|<R as property::Repetition>::Kind == property::Exact')):
            fns = [f for f in F.fns.values() if f.kind == 'assoc' and f.name == name and f.defp.startswith('build::')]
            chk.floor('R14.4', 'builder methods named %s' % name, len(fns), 2 if name == 'at_least_times' else 1, config=cfg)
            for f in fns:
                ok = any(re.search(need, p) for p in f.predicates)
                chk.ob('R14.4', '%s carries the type-state bound' % f.defp, ok, config=cfg, fn=f, site='bound:%s' % name, what='%s bounds %s' % (name, f.predicates), found=f.predicates, expected=need)
        if cfg == 'nostd':
            iro = [f for f in F.fns.values() if re.search(r'^output::owning::<impl output::IntoReturnOnce<.*>::into_return_once$', f.defp)]
            for fn in iro:
                for p in symex.Interp(F).run(fn):
                    v = strip(p.outcome[1])
                    chk.ob('R14.2', 'a return that cannot be produced in this feature set is reported at construction (Err(NoMutexApi))', v[0] == 'agg' and v[3] == 'Err', config=cfg, fn=fn, site='nomutex', what='nostd into_return_once %s' % show(v)[:80])
    try:
        rs = tywit.run('c14_')
    except tywit.TywitError as e:
        chk.ob('R14.4', 'witness harness builds /repo', False, site='build', unrecognised=True, what='tywit build failed', found=str(e)[-800:])
        rs = []
    chk.programs = len(rs)
    for r in rs:
        chk.ob('R14.4', 'witness %s: %s' % (r['name'], 'must not type-check (%s)' % r['expect'] if r['expect'] != 'ok' else 'twin must compile'), r['ok'], site='witness:%s' % r['name'],
               what='witness %s: %s' % (r['name'], r['detail'][:120]), found=r['detail'], expected=r['expect'])
    chk.floor('R14.4', 'compile-fail witnesses + twins', len(rs), 11)
