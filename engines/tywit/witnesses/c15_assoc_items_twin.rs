//@ expect: ok
//@ mentions: -
#![allow(unused)]
// The helper that runs a trait's own default bodies (DefaultImplDelegator) must see the associated items the mock was
// configured with: a default body reading `Self::N` / naming `Self::Out` then runs "against the same mock". Stated at the type
// level: array types of the two lengths are the same type, and a value of one associated type is a value of the other.
use unimock::*;
use unimock::private::DefaultImplDelegator;

#[unimock(api = AcMock, const N: usize = 2; const M: usize = 3; const FLAG: bool = true; type Out = u8;)]
pub trait Ac {
    const N: usize = 4;
    const M: usize;
    const FLAG: bool = false;
    type Out;
    fn req(&self, i: usize) -> i32;
    fn sum(&self) -> i32 { (0..Self::N).map(|i| self.req(i)).sum() }
    fn width(&self) -> usize { Self::N + Self::M }
}

#[unimock(api = MutAcMock, const N: usize = 5;)]
pub trait MutAc {
    const N: usize = 1;
    fn req(&mut self, i: usize) -> i32;
    fn sum(&mut self) -> i32 { let mut s = 0; for i in 0..Self::N { s += self.req(i); } s }
}

pub fn n_agrees(a: [(); <Unimock as Ac>::N]) -> [(); <DefaultImplDelegator as Ac>::N] { a }
pub fn m_agrees(a: [(); <Unimock as Ac>::M]) -> [(); <DefaultImplDelegator as Ac>::M] { a }
pub fn flag_agrees(a: [(); <Unimock as Ac>::FLAG as usize]) -> [(); <DefaultImplDelegator as Ac>::FLAG as usize] { a }
pub fn out_agrees(a: <Unimock as Ac>::Out) -> <DefaultImplDelegator as Ac>::Out { a }
pub fn mut_n_agrees(a: [(); <Unimock as MutAc>::N]) -> [(); <DefaultImplDelegator as MutAc>::N] { a }
// and they are the configured values, not the trait's defaults
pub fn n_is_configured(a: [(); <Unimock as Ac>::N]) -> [(); 2] { a }
pub fn mut_n_is_configured(a: [(); <DefaultImplDelegator as MutAc>::N]) -> [(); 5] { a }
