"""Behaviour-preserving refactorings: every check must stay silent on each of them (false-alarm corpus).
Edits: (file, old, new) exact single-occurrence replacement, or ('re:<dir>', regex, repl) applied to every .rs under <dir>."""
from mutants import M, MUTANTS

ALL = ['C%02d' % i for i in range(1, 21)]
EV = 'src/eval.rs'
TD = 'src/teardown.rs'
LIB = 'src/lib.rs'
ASM = 'src/assemble.rs'
FM = 'src/fn_mocker.rs'


def N(id, edits, props=None):
    M('neutral-' + id, edits, silent=props or ALL)


N('rename-local', [(EV, '''                    |(pat_index, call_pattern)| match match_inputs(call_pattern, None) {
                        Ok(false) => None,
                        Ok(true) => Some(Ok((PatIndex(pat_index), call_pattern))),
                        Err(err) => Some(Err((PatIndex(pat_index), err))),
                    },''', '''                    |(idx, candidate)| match match_inputs(candidate, None) {
                        Ok(false) => None,
                        Ok(true) => Some(Ok((PatIndex(idx), candidate))),
                        Err(e) => Some(Err((PatIndex(idx), e))),
                    },''')])
N('scan-as-for-loop', [(EV, '''            PatternMatchMode::InAnyOrder => fn_mocker
                .call_patterns
                .iter()
                .enumerate()
                .filter_map(
                    |(pat_index, call_pattern)| match match_inputs(call_pattern, None) {
                        Ok(false) => None,
                        Ok(true) => Some(Ok((PatIndex(pat_index), call_pattern))),
                        Err(err) => Some(Err((PatIndex(pat_index), err))),
                    },
                )
                .next()
                .transpose()
                .map_err(|(pat_index, err)| self.map_pattern_error(err, fn_mocker, pat_index)),''', '''            PatternMatchMode::InAnyOrder => {
                for (pat_index, call_pattern) in fn_mocker.call_patterns.iter().enumerate() {
                    match match_inputs(call_pattern, None) {
                        Ok(false) => {}
                        Ok(true) => return Ok(Some((PatIndex(pat_index), call_pattern))),
                        Err(err) => return Err(self.map_pattern_error(err, fn_mocker, PatIndex(pat_index))),
                    }
                }
                Ok(None)
            }''')])
N('rename-private-fn', [('re:src', r'\bmatch_call_pattern\b', 'select_call_pattern')])
N('rename-private-fn2', [('re:src', r'\bnew_call_pattern\b', 'make_call_pattern')])
N('rename-private-fn3', [('re:src', r'\bfind_call_pattern_for_call_order\b', 'pattern_for_call_order')])
N('rename-field', [('re:src', r'\btorn_down\b', 'is_torn_down')])
N('rename-field2', [('re:src', r'\bcall_patterns\b', 'patterns_in_order')])
N('drop-merged-condition', [(LIB, '''        if self.torn_down {
            return;
        }

        if self.verify_in_drop {
            teardown::teardown_panic(self);
        }''', '''        if !self.torn_down && self.verify_in_drop {
            teardown::teardown_panic(self);
        }''')])
N('teardown-ge2', [(TD, 'if strong_count > 1 {', 'if strong_count >= 2 {')])
N('teardown-extract-helper', [(TD, '''    #[cfg(feature = "std")]
    if std::thread::current().id() != unimock.shared_state.original_thread {
        panic!''', '''    #[cfg(feature = "std")]
    if !on_original_thread(unimock) {
        panic!'''), (TD, '''#[track_caller]
pub(crate) fn teardown(unimock: &mut Unimock) -> Result<(), Vec<MockError>> {''', '''#[cfg(feature = "std")]
fn on_original_thread(unimock: &Unimock) -> bool {
    std::thread::current().id() == unimock.shared_state.original_thread
}

#[track_caller]
pub(crate) fn teardown(unimock: &mut Unimock) -> Result<(), Vec<MockError>> {''')])
N('teardown-verify-collect', [(TD, '''    if mock_errors.is_empty() {
        Ok(())
    } else {
        Err(mock_errors)
    }''', '''    if !mock_errors.is_empty() {
        return Err(mock_errors);
    }
    Ok(())''')])
N('find-as-position', [(FM, '''        self.call_patterns
            .iter()
            .enumerate()
            .find(|(_, pattern)| {
                pattern.ordered_call_index_range.start <= ordered_call_index
                    && pattern.ordered_call_index_range.end > ordered_call_index
            })
            .map(|(index, call_pattern)| (PatIndex(index), call_pattern))''', '''        let index = self.call_patterns.iter().position(|pattern| {
            pattern.ordered_call_index_range.start <= ordered_call_index
                && ordered_call_index < pattern.ordered_call_index_range.end
        })?;
        Some((PatIndex(index), &self.call_patterns[index]))''')])
N('range-contains', [(FM, '''                pattern.ordered_call_index_range.start <= ordered_call_index
                    && pattern.ordered_call_index_range.end > ordered_call_index''', '''                pattern.ordered_call_index_range.contains(&ordered_call_index)''')])
N('push-get-mut', [(ASM, '''        match self.fn_mockers.entry(mock_type_id) {
            Entry::Occupied(mut entry) => {
                if entry.get().pattern_match_mode != pattern_match_mode {''', '''        match self.fn_mockers.entry(mock_type_id) {
            Entry::Occupied(mut entry) => {
                let registered_mode = entry.get().pattern_match_mode;
                if registered_mode != pattern_match_mode {''')])
N('error-text', [(TD, 'Unimock cannot verify calls, because the original instance got dropped while there are clones still alive.', 'Unimock cannot verify calls: the original instance was dropped while clones of it are still alive.')], props=[p for p in ALL if p not in ()])
N('extra-field', [(FM, '''pub(crate) struct FnMocker {''', '''pub(crate) struct FnMocker {
    #[allow(dead_code)]
    pub(crate) generation: u32,'''), (ASM, '''                entry.insert(FnMocker {
                    info,''', '''                entry.insert(FnMocker {
                    generation: 0,
                    info,''')])
N('macro-rename-generated-ident', [('re:unimock_macros/src/matching', r'\breporter\b', 'mismatch_sink')])
N('statement-reorder', [(ASM, '''        let pattern_match_mode = builder.pattern_match_mode;
        let mock_type_id = info.type_id;
''', '''        let mock_type_id = info.type_id;
        let pattern_match_mode = builder.pattern_match_mode;
''')])
