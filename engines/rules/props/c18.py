"""C18 — behaviour depends only on clauses and call history, not on incidental layout."""
import re
import symex
from symex import strip, show, is_call, field_path, mentions
from props import lifecycle as L, evalcore as E, assembly as A
from props.util import configs, load
from props.c04 import range_assignment
import facts as factsmod

LEVEL = 'other'


def run(chk, tier):
    chk.explain('K7: no static / thread-local state in either crate; K6: a new mock gets a fresh Arc<SharedState> (fresh counters, fresh error '
                'list), clone shares exactly that Arc; K1: on the mocked-call path the only field of Unimock that is read is shared_state, so '
                'original and clones are interchangeable; only ordered clauses touch the slot cursor, per-method pattern lists are independent '
                'map entries keyed by TypeId::of::<F>(), teardown only accumulates over the map in whatever order.')
    for cfg in configs(tier, thorough=('std', 'mocks', 'nostd-spin', 'nostd')):
        F = load(chk, cfg)
        M = factsmod.load(cfg, crate='unimock_macros')
        # R18.1
        for crate, X in (('unimock', F), ('unimock_macros', M)):
            bad = [s for s in X.statics if s['def'] != '_::_DECLS' and (s.get('mut') or s.get('thread_local') or not s.get('freeze', True) or [l for l in s.get('imut', []) if not l.startswith('alias:')])]  # _::_DECLS = rustc's generated proc-macro table
            chk.ob('R18.1', 'no mutable / interior-mutable / thread-local static in %s' % crate, not bad, config=cfg, site='statics:%s' % crate, what='static state %s' % [s['def'] for s in bad], found=[s['def'] for s in bad])
            n = 0
            for fn in X.fns.values():
                for bb, s in fn.stmts(include_cleanup=True):
                    if 'thread_local_ref' in s.get('rv', {}):
                        n += 1
                        chk.ob('R18.1', 'no thread-local access', False, config=cfg, fn=fn, site='tls', what='thread local %s' % s['rv']['thread_local_ref'])
        chk.ob('R18.1', 'positive control: the statics table is exported (field present)', isinstance(F.statics, list), config=cfg, site='control', unrecognised=True, what='statics missing')
        # R18.2
        L.clone_and_ctor(chk, F, 'R18.2', cfg)
        # R18.3 which fields of Unimock does the call path read?
        callpath = F.reachable_fns([F.fn('private::eval')])
        used = {}
        for d in sorted(callpath):
            fn = F.fns[d]
            for body in [fn] + fn.promoted:
                for bb, s in body.stmts(include_cleanup=True):
                    for pl in L._places_of_stmt(s):
                        for e in pl['pr']:
                            if isinstance(e, dict) and e.get('adt') == 'Unimock':
                                used.setdefault(e['name'], set()).add(body.defp)
                for b in body.blocks:
                    for pl in L.places_of_term(b['term']):
                        for e in pl['pr']:
                            if isinstance(e, dict) and e.get('adt') == 'Unimock':
                                used.setdefault(e['name'], set()).add(body.defp)
        allowed = {'shared_state'} | ({'panicked'} if 'nostd' in cfg else set())
        # (a field of a type without any field carries no state: nothing a call could observe through it differs between instances)
        from facts import strip_generics
        for f_ in F.adts['Unimock']['variants'][0]['fields']:
            t_ = F.adts.get(strip_generics(f_['ty']))
            if t_ and t_.get('local') and t_['kind'] == 'struct' and all(not v_['fields'] for v_ in t_['variants']):
                allowed.add(f_['name'])
        chk.ob('R18.3', 'a mocked call only looks at the state shared by all clones (never at per-instance fields)', set(used) <= allowed, config=cfg, site='unimock-fields',
               what='call path reads Unimock.%s' % sorted(set(used) - allowed), found={k: sorted(v)[:3] for k, v in used.items()}, expected=sorted(allowed))
        chk.floor('R18.3', 'functions on the mocked-call path', len(callpath), 15, config=cfg)
        # R18.4
        range_assignment(chk, F, 'R18.4', cfg)
        fn, paths, rows = E.eval_dyn_table(chk, F, 'R18.4.table', cfg)
        E.method_isolation(chk, F, 'R18.4', cfg, paths)
        A.push_table(chk, F, 'R18.4.push', cfg)
        # R18.7 'clones share everything': a call's position (match index, ordered slot) is the result of one atomic RMW on the shared state, whichever handle it came through
        from props.c10 import position_is_rmw
        position_is_rmw(chk, F, 'R18.7', cfg)
        # R18.6 the verdict does not depend on which handle lent a value / ran a default body: the instance's own helper and chain are
        # released before teardown looks at anything (in particular before the live-clone count is read)
        tfn, tpaths, trows = L.teardown_table(chk, F, 'R18.6', cfg)
        L.teardown_pre_effects(chk, F, 'R18.6', cfg, tfn, tpaths)
    from xpand import rules as X
    X.check_traits(chk, tier, chk.seed, {'C18'})
    # R18.8 a clause written for one instantiation (`with_types::<A, B>()`) is filed under the instantiation the call with those type
    # arguments evaluates: the turbofish binds the parameters in declaration order (type-level witness)
    import tywit
    try:
        rs = tywit.run('c05_')
    except tywit.TywitError as e:
        chk.ob('R18.8', 'witness harness builds /repo', False, site='build', unrecognised=True, what='tywit build failed', found=str(e)[-800:])
        rs = []
    for r in rs:
        chk.ob('R18.8', 'witness %s: %s' % (r['name'], 'must not type-check (%s)' % r['expect'] if r['expect'] != 'ok' else 'must compile'), r['ok'], site='witness:%s' % r['name'],
               what='witness %s: %s' % (r['name'], r['detail'][:120]), found=r['detail'], expected=r['expect'])
    chk.floor('R18.8', 'with_types witnesses', len(rs), 2)
