#!/usr/bin/env python3
"""Regenerates engines/rules/baseline.json (item inventory + vocabulary of the reference tree = /repo as it is now).
Run only when the rules have been re-confirmed against the tree: the inventory is what renamed items are mapped back to."""
import json, os, sys
sys.path.insert(0, os.path.join(os.path.dirname(os.path.abspath(__file__)), '..', 'engines', 'rules'))
import facts, names
def boolinit(j):
    """{struct: {bool field: {function that gives it a constant: that constant}}} - what tells which variant of a two-variant enum stands
    for `true` when a flag is turned into one (Facts.resolve_flags)"""
    acc = {}
    adts = j['adts']
    for f in j['fns']:
        if f['kind'] not in ('fn', 'assoc'):
            continue
        for b in (f.get('body') or {}).get('blocks', []):
            for s in b['stmts']:
                rv = s.get('rv', {})
                if rv.get('agg') == 'adt' and adts.get(rv.get('adt'), {}).get('local') and adts[rv['adt']]['kind'] == 'struct':
                    for name, op in zip(rv.get('fields', []), rv.get('ops', [])):
                        c = op.get('c') if isinstance(op, dict) else None
                        if c and c.get('ty') == 'bool' and 'bool' in c:
                            acc.setdefault(rv['adt'], {}).setdefault(name, {}).setdefault(f['def'], set()).add(bool(c['bool']))
    res = {}
    for a, fs in acc.items():
        for n, m in fs.items():
            mm = {d: list(v)[0] for d, v in m.items() if len(v) == 1}
            if mm:
                res.setdefault(a, {})[n] = mm
    return res


out = {}
for crate in ('unimock', 'unimock_macros'):
    inv = {'fns': {}, 'adts': {}}
    vocab = set()
    for cfg in ('std', 'mocks', 'nostd-spin', 'nostd'):
        p = facts.raw_path(cfg, crate)
        txt = open(p).read().replace('alloc::alloc::', 'std::')
        i = names.inventory(json.loads(txt))
        for k in ('fns', 'adts'):
            for d, v in i[k].items():
                inv[k].setdefault(d, v)
        vocab |= names.vocabulary(txt)
    inv['vocab'] = sorted(vocab)
    inv['boolinit'] = boolinit(json.loads(open(facts.raw_path('std', crate)).read().replace('alloc::alloc::', 'std::')))
    out[crate] = inv
    print(crate, len(inv['fns']), 'fns', len(inv['adts']), 'adts', len(vocab), 'identifiers')
json.dump(out, open(names.BASELINE, 'w'), indent=0, sort_keys=True)
