#!/bin/sh
# usage: extract_facts.sh <config-name> <out-dir>
# Runs `cargo +nightly check` on /repo's CURRENT working tree with the mirfacts driver as
# RUSTC_WORKSPACE_WRAPPER and writes <out-dir>/<crate>.lib.json for both workspace members.
set -e
HERE="$(cd "$(dirname "$0")/.." && pwd)"
CONFIG="$1"; OUT="$2"
REPO="${VERIF_REPO:-/repo}"
DRV="$HERE/.cache/tools/mirfacts/release/mirfacts"
[ -x "$DRV" ] || { echo "mirfacts driver missing: run ./setup.sh" >&2; exit 2; }
case "$CONFIG" in
  std)        FLAGS="" ;;
  mocks)      FLAGS="--features fragile,mock-core,mock-std,mock-futures-io-0-3,mock-tokio-1,mock-embedded-hal-1" ;;
  nostd-spin) FLAGS="--no-default-features --features critical-section,spin-lock" ;;
  nostd)      FLAGS="--no-default-features --features critical-section" ;;
  full)       FLAGS="--features critical-section,spin-lock,fragile,mock-core,mock-std,mock-futures-io-0-3,mock-tokio-1,mock-embedded-hal-1" ;;
  *) echo "unknown config $CONFIG" >&2; exit 2 ;;
esac
mkdir -p "$OUT"
rm -f "$OUT"/*.json
TD="$HERE/.cache/target/facts-$CONFIG"
mkdir -p "$TD"
# cargo's freshness cache would skip the wrapper for unchanged members: force them stale
rm -rf "$TD"/debug/.fingerprint/unimock-* "$TD"/debug/.fingerprint/unimock_macros-* 2>/dev/null || true
SYSROOT="$(rustc +nightly --print sysroot)"
NONCE="${VERIF_NONCE:-$(date +%s%N)}"
cd "$REPO"
LD_LIBRARY_PATH="$SYSROOT/lib" \
RUSTFLAGS="-Zmir-opt-level=0 -Awarnings -Cdebug-assertions=off" \
RUSTC_WORKSPACE_WRAPPER="$DRV" \
CARGO_TARGET_DIR="$TD" CARGO_NET_OFFLINE=true \
VERIF_FACTS_DIR="$OUT" VERIF_NONCE="$NONCE" VERIF_CONFIG="$CONFIG" VERIF_CRATES="unimock,unimock_macros" \
cargo +nightly check --offline --lib -p unimock -p unimock_macros $FLAGS >"$OUT/cargo.log" 2>&1 || { cat "$OUT/cargo.log" >&2; exit 3; }
echo "$NONCE" > "$OUT/nonce"
[ -f "$OUT/unimock.lib.json" ] || { echo "facts file for unimock not produced" >&2; cat "$OUT/cargo.log" >&2; exit 4; }
[ -f "$OUT/unimock_macros.lib.json" ] || { echo "facts file for unimock_macros not produced" >&2; exit 4; }
