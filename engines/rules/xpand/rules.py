"""XPAND rules: translation validation of #[unimock] expansions (and matching!) on the compiled harness.

The harness is a generated crate (engines/xpand) whose every item is described by a sidecar written independently of
the macro. It is compiled against /repo's current tree under the mirfacts driver; the rules below compare the MIR of
the generated impls with the sidecar: which MockFn is evaluated, with which receiver and which parameters in which
order, what each continuation arm returns, and so on.
"""
import re
import symex
from symex import strip, show, is_call, field_path, mentions, decision_variant, subvalues
from xpand import run as xrun
import facts as factsmod

DEBUG_KINDS = {'copy', 'owned', 'ref', 'str', 'slice', 'mutref', 'mutslice', 'optref', 'generic', 'mutref_named', 'tgen'}      # (grammar kinds whose type implements Debug)
_PNAME = re.compile(r'^(?:_ref__)?p(\d+)$')
_HYGIENE = {n: i for i, n in enumerate(['output', 'cont', 'inputs', 'eval', 'value'])}     # (xpand/gen.py HYGIENE_NAMES: parameters named like the expansion's own bindings)


class _PName:
    """name of a captured parameter -> its position: `pK` / `_ref__pK`, or one of the hygiene names the generator uses instead"""
    class _M:
        def __init__(self, k):
            self.k = k

        def group(self, _):
            return str(self.k)

    def match(self, last):
        m = _PNAME.match(last)
        if m:
            return m
        base = last[6:] if last.startswith('_ref__') else last
        if base in _HYGIENE:
            return self._M(_HYGIENE[base])
        return None


PNAME = _PName()


class Model:
    pass


def find_impl_fn(F, trait_mod, trait, self_ty_rx, m):
    out = []
    for fn in F.fns.values():
        io = fn.impl_of or {}
        if fn.kind == 'assoc' and fn.name == m and (io.get('trait') or '') == '%s::%s' % (trait_mod, trait) and re.search(self_ty_rx, io.get('self_ty', '')):
            out.append(fn)
    return out


def bodies_of(F, fn):
    return [fn] + F.closures_of(fn)


def resolve_param(v, nparams):
    """value -> declared parameter index (1 = receiver, k+2 = parameter pk), or None.
    Understands direct parameters, closure/coroutine captures named `self`/`pK`/`_ref__pK`, and reborrows."""
    seen = 0
    while seen < 12:
        seen += 1
        v = strip(v)
        if v[0] == 'ref':
            root, path = v[1]
            names = [e[1] for e in path if e[0] == 'f']
            if names:
                last = names[-1]
                if last in ('self', '__self', '_ref__self', '_ref____self'):
                    return 1
                m = PNAME.match(last)
                if m:
                    return int(m.group(1)) + 2
                return None
            if root[0] == 'ptr':
                v = root[1]
                continue
            return None
        if v[0] in ('deref',):
            v = v[1]
            continue
        if v[0] == 'field':
            last = v[2]
            if last in ('self', '__self', '_ref__self', '_ref____self'):
                return 1
            m = PNAME.match(last)
            if m:
                return int(m.group(1)) + 2
            return None
        if v[0] == 'param':
            return ('direct', v[2])
        if v[0] == 'cast' or v[0] == 'as':
            v = v[1] if v[0] == 'as' else v[2]
            continue
        return None
    return None


def handed_back_index(v):
    """value -> k if it is input k handed back by eval: (eval as Continue).1[.k] or (polonius as Owned).value.1[.k]; 'whole' for .1 itself"""
    v = strip(v)
    hops = 0
    while v[0] in ('ref', 'deref') and hops < 8:
        hops += 1
        if v[0] == 'ref':
            root, path = v[1]
            if root[0] == 'ptr' and not path:
                v = strip(root[1])
                continue
            if root[0] == 'ptr':
                # &(*ptr).fields
                base = root[1]
                for e in path:
                    if e[0] == 'f':
                        base = ('field', base, e[1])
                    elif e[0] == 'dc':
                        base = ('as', base, e[1])
                v = base
                continue
            return None
        v = strip(v[1])
    names = []
    cur = v
    while cur[0] in ('field', 'as', 'deref'):
        if cur[0] == 'field':
            names.append(cur[2])
        elif cur[0] == 'as':
            names.append('@' + cur[2])
        cur = strip(cur[1])
    names.reverse()
    if is_call(cur, r'^unimock::private::eval$'):
        if names[:2] == ['@Continue', '1']:
            rest = names[2:]
            return 'whole' if not rest else (int(rest[0]) if rest[0].isdigit() else None)
    if is_call(cur, r'polonius::polonius$'):
        if names[:3] == ['@Owned', 'value', '1']:
            rest = names[3:]
            return 'whole' if not rest else (int(rest[0]) if rest[0].isdigit() else None)
    return None


RECV_WRAPPERS = re.compile(r'(Deref>?::deref$|DerefMut>?::deref_mut$|Pin::<.*>::(get_mut|as_mut|as_ref|get_ref|into_ref)$|Pin::(get_mut|as_mut|as_ref|get_ref|into_ref)$|AsRef>?::as_ref$|AsMut>?::as_mut$|Borrow>?::borrow$)')


def _peel_recv(v):
    for _ in range(10):
        v = strip(v)
        if v[0] == 'ref' and len(v) > 3 and v[1][0][0] == 'local' and not v[1][1]:
            v = v[3]
            continue
        if v[0] == 'call' and RECV_WRAPPERS.search(v[1]) and v[2]:
            v = v[2][0]
            continue
        if v[0] == 'ref' and v[1][0][0] == 'ptr' and not v[1][1]:
            v = v[1][0][1]
            continue
        if v[0] == 'deref':
            v = v[1]
            continue
        break
    return v


def is_receiver(v, model):
    v0 = v
    v = _peel_recv(v)
    r = resolve_param(v, 0)
    if r == 1 or r == ('direct', 1):
        return True
    # polonius: input_borrow of the Owned result, or the closure's second parameter
    if mentions(v, lambda x: x[0] == 'field' and x[2] == 'input_borrow') or mentions(v, lambda x: x[0] == 'ref' and any(e == ('f', 'input_borrow') for e in x[1][1])):
        return True
    if model.form_polonius and r == ('direct', 2) and model.in_polonius_closure:
        return True
    return False


def analyse(F, fn, mdesc, tdesc):
    """locate the evaluation site and the arm-dispatch body of a generated method"""
    M = Model()
    M.fn = fn
    M.bodies = bodies_of(F, fn)
    M.eval_sites = []
    for b in M.bodies:
        for bb, t in b.calls():
            if symex.callee_name(t) == 'unimock::private::eval':
                M.eval_sites.append((b, bb, t))
    M.form_polonius = any(re.search(r'polonius::polonius$', symex.callee_name(t)) for b in M.bodies for _, t in b.calls())
    M.is_async = mdesc['asy'] != 'sync'
    M.in_polonius_closure = False
    return M


def dispatch_paths(F, M):
    """paths of the body that dispatches on the evaluation result, with classification"""
    eb = M.eval_sites[0][0]
    if M.form_polonius:
        # arms live in the body that calls polonius
        ab = [b for b in M.bodies if any(re.search(r'polonius::polonius$', symex.callee_name(t)) for _, t in b.calls())][0]
    else:
        ab = eb
    paths = symex.Interp(F).run(ab)
    out = []
    for p in paths:
        cls = {'state': None, 'result': None, 'cont': None}
        for d in p.decisions:
            v = strip(d.value)
            if v[0] != 'discr':
                continue
            inner = strip(v[1])
            var = decision_variant(F, d)
            if is_call(inner, r'^unimock::private::eval$'):
                cls['result'] = var
            elif is_call(inner, r'polonius::polonius$'):
                cls['result'] = {'Borrowing': 'Return', 'Owned': 'Continue'}.get(var, var)
            elif handed := _cont_source(inner):
                cls['cont'] = var if isinstance(var, str) else ('other', var[1] if isinstance(var, tuple) else var)
            elif inner[0] in ('deref', 'field') and ab.kind == 'coroutine' and cls['state'] is None and cls['result'] is None:
                cls['state'] = d.branch
        out.append((p, cls))
    return ab, out


def _cont_source(v):
    v = strip(v)
    names = []
    cur = v
    while cur[0] in ('field', 'as', 'deref'):
        if cur[0] == 'field':
            names.append(cur[2])
        elif cur[0] == 'as':
            names.append('@' + cur[2])
        cur = strip(cur[1])
    names.reverse()
    if is_call(cur, r'^unimock::private::eval$') and names == ['@Continue', '0']:
        return True
    if is_call(cur, r'polonius::polonius$') and names == ['@Owned', 'value', '0']:
        return True
    return False


def unwrap_result(v, is_async):
    """peel Poll::Ready / polonius return_no_break wrappers and plain reborrows around a returned value"""
    v = strip(v)
    for _ in range(6):
        if v[0] == 'ref' and v[1][0][0] == 'ptr' and not v[1][1] and strip(v[1][0][1])[0] == 'call':
            v = strip(v[1][0][1])
            continue
        if v[0] == 'agg' and v[2].endswith('task::Poll') and v[3] == 'Ready':
            v = strip(v[4][0][1])
            continue
        if v[0] == 'ref' and v[1][0][0] == 'ptr' and not v[1][1] and is_call(strip(v[1][0][1]), r'return_no_break$'):
            v = strip(v[1][0][1])
            continue
        if is_call(v, r'Dependent<T>>::return_no_break$|return_no_break$'):
            v = strip(v[2][0])
            continue
        break
    return v


def awaited_call(p, name_rx):
    """for async arms: the call whose IntoFuture/poll result is returned"""
    for e in p.calls(name_rx):
        return e
    return None


def check_traits(chk, tier, seed, props):
    """thorough: three generated harnesses (seed, seed+1, seed+2), quick: one"""
    for s_ in ([seed] if tier == 'quick' else [seed, seed + 1, seed + 2]):
        _check_traits(chk, tier, s_, props)


def _check_traits(chk, tier, seed, props):
    """props: subset of {'C05','C15','C16','C18','C19'} to report under"""
    try:
        F, sc, d = xrun.harness(tier, seed)
    except xrun.HarnessRejected as e:
        chk.ob('XPAND.accept', 'every grammar point of the generated harness is accepted by the compiler on this tree', False, config='xpand', site='harness', what='harness rejected: %s' % _first_error(str(e)),
               found=str(e)[-1500:], expected='cargo check of the harness succeeds')
        return
    if 'xpand' not in chk.configs:
        chk.configs.append('xpand')
    chk.programs += sum(len(t['methods']) for t in sc['traits'])
    nm = 0
    for t in sc['traits']:
        for mi, m in enumerate(t['methods']):
            nm += 1
            _check_method(chk, F, t, m, mi, props)
        if 'C15' in props:
            _check_delegator(chk, F, t)
    chk.floor('XPAND', 'generated trait methods analysed', nm, 150 if tier == 'quick' else 600, config='xpand')
    if 'C16' in props:
        _check_scoped_unmock(chk, F)
    for t in sc['traits'][:2]:
        chk.sample({'trait': t['name'], 'api': t['api'], 'methods': [m['sig'] for m in t['methods']]})


def _check_scoped_unmock(chk, F):
    """R16.9: the function named in unmock_with is resolved where the attribute is written: for a trait declared inside a function body
    next to its real function, the Unmock arm calls that function - not a module-level function of the same name"""
    fns = [f for f in F.fns.values() if f.kind == 'assoc' and f.name == 'm0' and re.search(r'scoped::scope::.*Scoped$', (f.impl_of or {}).get('trait') or '') and 'Unimock' in (f.impl_of or {}).get('self_ty', '')]
    chk.floor('R16.9', 'block-scoped trait with an unmock function in the harness', len(fns), 1, config='xpand')
    for f in fns:
        callees = []
        for b in [f] + F.closures_of(f):
            for bb, t in b.calls():
                n = symex.callee_name(t)
                if n.endswith('real_scoped'):
                    callees.append(symex.callee_def(t))
        ok = bool(callees) and all(re.search(r'scoped::scope::real_scoped', c) for c in callees)
        chk.ob('R16.9', 'a path in unmock_with resolves in the scope the attribute is written in (block-local function, not its module-level namesake)', ok, config='xpand', fn=f, site='scoped-unmock',
               what='Unmock arm of a block-scoped trait calls %s' % callees, found=callees, expected='scoped::scope::real_scoped')


def _split_top(s):
    out, depth, cur = [], 0, ''
    for ch in s:
        if ch in '<([':
            depth += 1
        elif ch in '>)]':
            depth -= 1
        if ch == ',' and depth == 0:
            out.append(cur)
            cur = ''
        else:
            cur += ch
    if cur.strip():
        out.append(cur)
    return out


def _first_error(txt):
    m = re.search(r'error[^\n]*\n[^\n]*\n', txt)
    return (m.group(0) if m else txt[:200]).replace('\n', ' ')[:200]


def _r7(props, rule):
    """the generated arms are reported under C07 (R07.5) when C07 asks for them, under their own property otherwise"""
    if 'C07' in props and not ({'C15', 'C16'} & set(props)):
        return 'R07.5'
    return rule


def R(props, pid, rule):
    return rule if pid in props else None


def _check_method(chk, F, t, m, mi, props):
    cfg = 'xpand'
    tname, mod, mname = t['name'], t['mod'], m['name']
    where = '%s::%s (%s)' % (tname, mname, m['sig'][:60])
    fns = find_impl_fn(F, mod, tname, r'^unimock::Unimock$', mname)
    if len(fns) != 1:
        chk.ob('XPAND.anchor', 'generated impl method found for %s' % where, False, config=cfg, site='%s::%s' % (tname, mname), unrecognised=True, what='impl method not found', found=[f.defp for f in fns])
        return
    fn = fns[0]
    chk.analysed(fn)
    n = len(m['params'])
    M = analyse(F, fn, m, t)
    site = '%s::%s' % (tname, mname)

    def ob(pid, rule, desc, ok, **kw):
        if pid in props:
            chk.ob(rule, desc, ok, config=cfg, fn=fn, site=kw.pop('site', site), **kw)
        elif 'C07' in props and rule == 'R05.4':
            chk.ob('R07.5', desc, ok, config=cfg, fn=fn, site=kw.pop('site', site), **kw)

    # ---------------- R05.1: one evaluation, own MockFn, receiver, inputs in order
    sites = sorted(set((b.defp, bb) for b, bb, _ in M.eval_sites))
    ob('C05', 'R05.1', '%s evaluates the mock exactly once' % where, len(sites) == 1, what='eval sites: %d' % len(sites), found=sites, expected=1)
    if len(sites) != 1:
        return
    eb, ebb, et = M.eval_sites[0]
    # not in a loop: the eval block is not on a cycle of the body
    in_loop = ebb in _reach_from_succs(eb, ebb)
    ob('C05', 'R05.1', '%s: the evaluation is not in a loop' % where, not in_loop, what='eval in loop', site=site + ':loop')
    # async: evaluation inside the future, outer fn only builds the future
    if m['asy'] != 'sync':
        ok = eb.kind == 'coroutine' or (eb.kind == 'closure' and any(b.kind == 'coroutine' for b in M.bodies))
        ob('C05', 'R05.5', '%s: the evaluation happens inside the returned future (when awaited), never at future creation' % where, ok, site=site + ':async',
           what='eval outside the future: in %s (%s)' % (eb.defp[-40:], eb.kind), found={'eval_body_kind': eb.kind}, expected='coroutine body')
        outer_calls = [symex.callee_name(tt) for _, tt in fn.calls()]
        okc = not any(re.search(r'unimock::private::|polonius', c) for c in outer_calls)
        ob('C05', 'R05.5', '%s: creating the future has no mock effect' % where, okc, site=site + ':async-outer', what='outer fn calls %s' % outer_calls, found=outer_calls)
    # paths of the eval body up to the eval
    epaths = symex.Interp(F).run(eb)
    ecalls = []
    for p in epaths:
        for e in p.calls(r'^unimock::private::eval$'):
            ecalls.append((p, e))
    if not ecalls:
        ob('C05', 'R05.1', 'evaluation reachable', False, unrecognised=True, what='eval call not on any path')
        return
    p0, e0 = ecalls[0]
    c = e0.term['callee']
    targs = [(a, u) for a, u in zip(c.get('args', []), c.get('args_uid', [None] * len(c.get('args', [])))) if not a.startswith("'")]
    F_ty, F_uid = targs[0] if targs else ('', None)
    info = [g for g in F.fns.values() if g.name == 'info' and (g.impl_of or {}).get('trait') == 'unimock::MockFn' and (g.impl_of or {}).get('self_adt_uid') == F_uid]
    names = None
    if len(info) == 1:
        g = info[0]
        for pr in g.promoted:
            for _, s in pr.stmts():
                rv = s.get('rv', {})
                if rv.get('agg') == 'array':
                    names = [o.get('c', {}).get('repr', '') for o in rv['ops']]
    ob('C05', 'R05.1', '%s evaluates its own MockFn (info path [%s, %s])' % (where, tname, mname), names == ['"%s"' % tname, '"%s"' % mname], site=site + ':mockfn',
       what='evaluates MockFn %s with path %s' % (F_ty.split('<')[0][-40:], names), found={'F': F_ty, 'path': names}, expected=[tname, mname])
    if len(info) == 1 and ({'C07', 'C15', 'C16'} & set(props)):
        # the static info the runtime resolves unmentioned calls by: "has a default body" exactly for provided methods
        icalls = [symex.callee_name(tt) for b_ in [info[0]] + list(info[0].promoted) for _, tt in b_.calls()]
        flagged = any(re.search(r'MockFnInfo::default_impl$', c_) for c_ in icalls)
        rid = 'R07.5' if 'C07' in props else ('R15.1' if 'C15' in props else 'R16.3')
        chk.ob(rid, '%s: MockFn::info() says "has a default body" exactly when the method is provided' % where, flagged == bool(m['provided']), config=cfg, fn=info[0], site=site + ':info-default',
               what='info().default_impl flag %s for a %s method' % (flagged, 'provided' if m['provided'] else 'required'), found={'flagged': flagged, 'provided': m['provided']})
    if 'C19' in props:
        chk.ob('R19.3', '%s: panic messages will name %s::%s' % (where, tname, mname), names == ['"%s"' % tname, '"%s"' % mname], config=cfg, fn=fn, site=site + ':path', what='info path %s' % names, found=names)
    if 'C16' in props:
        # "if no function was registered the call panics naming the method": the name every message uses is the trait method's own
        chk.ob('R16.7', '%s: panic messages will name %s::%s' % (where, tname, mname), names == ['"%s"' % tname, '"%s"' % mname], config=cfg, fn=fn, site=site + ':path', what='info path %s' % names, found=names)
    if 'C18' in props and (t['trait_generic'] or any(p['kind'] == 'generic' for p in m['params'])):
        gargs = F_ty[F_ty.index('<') + 1:-1] if '<' in F_ty else ''
        want = (['TG'] if t['trait_generic'] else []) + (['G'] if any(p['kind'] == 'generic' for p in m['params']) else [])
        got = [x.strip() for x in _split_top(gargs)] if gargs else []
        nimpl = sum(1 for p in m['params'] if p['kind'] == 'impl')
        chk.ob('R18.5', '%s: the MockFn type carries every type parameter (distinct instantiations are distinct methods)' % where, got[:len(want)] == want and len(got) == len(want) + nimpl and all(g_.startswith('impl ') for g_ in got[len(want):]), config=cfg, fn=fn, site=site + ':generics', what='MockFn generics %s vs %s' % (got, want), found=got, expected=want)
        if len(info) == 1:
            gi = info[0]
            tid = [symex.callee_name(tt) for _, tt in gi.calls()]
            targ = [tt['callee'].get('args') for _, tt in gi.calls() if symex.callee_name(tt) == 'unimock::MockFnInfo::new']
            chk.ob('R18.5', '%s: info() keys the method by TypeId of the instantiated MockFn (MockFnInfo::new::<Self>)' % where, bool(targ) and targ[0] == [F_ty.replace(' ', '')] or (bool(targ) and targ[0][0].split('<')[0] == F_ty.split('<')[0]),
                   config=cfg, fn=gi, site=site + ':typeid', what='MockFnInfo::new::<%s>' % (targ[0] if targ else None), found=targ)
    # receiver + inputs
    M.in_polonius_closure = M.form_polonius and eb.kind == 'closure'
    recv = e0.data[2][0]
    ob('C05', 'R05.1', '%s passes its own receiver to the evaluation' % where, is_receiver(recv, M), site=site + ':recv', what='eval receiver %s' % show(recv)[:80], found=show(recv)[:160])
    inputs = strip(e0.data[2][1])
    order = []
    if n == 0:
        ok_in = inputs == ('c', 'unit') or (inputs[0] == 'agg' and not inputs[4])
    else:
        elems = [inputs] if n == 1 else ([x for _, x in inputs[4]] if inputs[0] == 'agg' and inputs[1] == 'tuple' else [])
        for k, x in enumerate(elems):
            x = strip(x)
            if x[0] == 'agg' and x[2] == 'unimock::Impossible':
                order.append('Impossible' if m['params'][k]['kind'] == 'impossible' else 'Impossible!')
                continue
            r = resolve_param(x, n)
            if isinstance(r, tuple):
                r = r[1]
            if M.in_polonius_closure and isinstance(r, int) and eb.kind == 'closure' and resolve_param(x, n) == ('direct', r):
                r = None
            order.append(r)
        want = ['Impossible' if p['kind'] == 'impossible' else k + 2 for k, p in enumerate(m['params'])]
        ok_in = order == want
    ob('C05', 'R05.1', '%s presents its arguments to the matcher in declaration order' % where, ok_in, site=site + ':inputs', what='inputs order %s' % order, found={'order': order, 'inputs': show(inputs)[:200]},
       expected=['Impossible' if p['kind'] == 'impossible' else k + 2 for k, p in enumerate(m['params'])])

    # polonius form: the closure hands (continuation, inputs) back positionally; Impossible slots carry the original parameter
    poly_ok = True
    if M.form_polonius and M.in_polonius_closure:
        for p in epaths:
            v = strip(p.outcome[1]) if p.outcome[0] == 'return' else ('unk', '')
            owned = None
            for x in subvalues(v):
                if x[0] == 'call' and re.search(r'PoloniusResult::Owned$', x[1]):
                    owned = strip(x[2][0])
                if x[0] == 'agg' and x[3] == 'Owned':
                    owned = strip(dict(x[4]).get('value', x[4][0][1]))
            if owned is None:
                continue
            parts = [x for _, x in owned[4]] if owned[0] == 'agg' else []
            okc = len(parts) == 2 and _cont_source(parts[0])
            back = strip(parts[1]) if len(parts) == 2 else ('unk', '')
            elems = [back] if n == 1 else ([x for _, x in back[4]] if back[0] == 'agg' else [])
            if n == 0:
                elems = []
            src = []
            for k, x in enumerate(elems):
                hb = handed_back_index(x)
                if hb == 'whole' and n == 1:
                    hb = 0
                if hb is None:
                    r = resolve_param(x, n)
                    r = r[1] if isinstance(r, tuple) else r
                    hb = 'orig%d' % (r - 2) if isinstance(r, int) else None
                src.append(hb)
            want = ['orig%d' % k if p_['kind'] == 'impossible' else k for k, p_ in enumerate(m['params'])]
            poly_ok = okc and src == want
            ob('C05', 'R05.3', '%s: the borrow-splitting closure hands the continuation and the inputs back positionally' % where, poly_ok, site=site + ':handback', what='polonius hand-back %s' % src, found={'cont_ok': okc, 'sources': src}, expected=want)
    M.polonius_outer = M.form_polonius
    # ---------------- arms
    ab, dp = dispatch_paths(F, M)
    seen = {}
    for p, cls in dp:
        if ab.kind == 'coroutine' and cls['state'] not in (0, None):
            continue
        if cls['result'] is None:
            continue
        if cls['result'] == 'Return':
            seen.setdefault('Return', []).append((p, cls))
            continue
        reported = p.outcome[0] == 'diverge' and re.search(r'Continuation::report$', p.outcome[1])
        covered = [cls['cont']] if isinstance(cls['cont'], str) else list(cls['cont'][1] if isinstance(cls['cont'], tuple) and len(cls['cont']) > 1 and isinstance(cls['cont'][1], tuple) else [])
        if reported:
            seen.setdefault('other', []).append((p, cls))
            for v_ in covered:
                seen.setdefault('reported:' + v_, []).append((p, cls))
        else:
            for v_ in covered or ['?']:
                seen.setdefault(v_, []).append((p, cls))
    # R05.2 Return arm
    for p, cls in seen.get('Return', []):
        r = unwrap_result(p.outcome[1], M.is_async) if p.outcome[0] == 'return' else ('unk', 'diverge')
        ok = _is_eval_return(r, F, M)
        ob('C05', 'R05.2', '%s returns the configured output unchanged' % where, ok, site=site + ':return', what='Return arm yields %s' % show(r)[:80], found=show(r)[:200], expected='(eval as Return).0')
    ob('C05', 'R05.2', '%s has a Return arm' % where, bool(seen.get('Return')), site=site + ':return-arm', what='no Return arm')
    # R05.3 Answer arm
    for p, cls in seen.get('Answer', []):
        calls = [e for e in p.calls(r'^std::ops::Fn::call$|^core::ops::Fn::call$')]
        ok = len(calls) == 1
        detail = None
        if ok:
            e = calls[0]
            f = e.data[2][0]
            okf = mentions(f, lambda x: x[0] == 'as' and x[2] == 'Answer')
            tup = strip(e.data[2][1])
            args = [x for _, x in tup[4]] if tup[0] == 'agg' else []
            okr = bool(args) and is_receiver(args[0], M)
            idx = []
            for k, a in enumerate(args[1:]):
                hb = handed_back_index(a)
                if hb == 'whole' and n == 1:
                    hb = 0
                if hb is None and m['params'][k]['kind'] == 'impossible' if k < n else False:
                    r = resolve_param(a, n)
                    r = r[1] if isinstance(r, tuple) else r
                    hb = 'orig%d' % (r - 2) if isinstance(r, int) else None
                idx.append(hb)
            want = [k if M.form_polonius else ('orig%d' % k if p_['kind'] == 'impossible' else k) for k, p_ in enumerate(m['params'])]
            ok = okf and okr and idx == want
            detail = {'fn_is_answer_closure': okf, 'receiver_first': okr, 'arg_sources': idx}
            r = unwrap_result(p.outcome[1], M.is_async) if p.outcome[0] == 'return' else None
            okret = r is not None and (r[0] == 'call' and r[3] == e.data[3] or (M.is_async and mentions(p.outcome[1], lambda x: x[0] == 'call' and x[3] == e.data[3])))
            ob('C05', 'R05.3', '%s returns the answer function\'s result unchanged' % where, okret, site=site + ':answer-ret', what='Answer arm returns %s' % (show(r)[:60] if r else None), found=show(r)[:160] if r else None)
        ob('C05', 'R05.3', '%s calls the answer function with (receiver, arguments in declaration order)' % where, ok, site=site + ':answer', what='answer call %s' % detail, found=detail,
           expected={'arg_sources': [k if M.form_polonius else ('orig%d' % k if p_['kind'] == 'impossible' else k) for k, p_ in enumerate(m['params'])]})
    ob('C05', 'R05.3', '%s has an Answer arm' % where, bool(seen.get('Answer')), site=site + ':answer-arm', what='no Answer arm')
    # fall-through arm: report
    handled = {'Answer'} | ({'Unmock'} if m['unmock'] in ('path', 'args') else set()) | ({'CallDefaultImpl'} if m['provided'] else set())
    for v_ in ('Answer', 'Unmock', 'CallDefaultImpl'):
        if v_ not in handled:
            okrep = bool(seen.get('reported:' + v_)) and not seen.get(v_)
            ob('C05', 'R05.4', '%s: continuation %s (nothing registered for it) is reported as an error, never answered with a made-up value' % (where, v_), okrep, site=site + ':report:' + v_,
               what='unhandled continuation %s: reported=%s handled=%s' % (v_, bool(seen.get('reported:' + v_)), bool(seen.get(v_))))
    ob('C05', 'R05.4', '%s: no continuation is handled by an unknown arm' % where, not seen.get('?'), site=site + ':unknown-arm', what='unknown arm', unrecognised=True)

    # ---------------- R16: Unmock arm
    has_unmock = m['unmock'] in ('path', 'args')
    um = seen.get('Unmock', [])
    if 'C16' in props or 'C07' in props:
        if has_unmock:
            chk.ob(_r7(props, 'R16.1'), '%s: a registered real function gives the method an Unmock arm' % where, bool(um), config=cfg, fn=fn, site=site + ':unmock-arm', what='unmock arm missing for receiver `%s`' % dict(_RECV)[m['recv']],
                   found='no arm for Continuation::Unmock (falls through to report => CannotUnmock)', expected='Continuation::Unmock => %s(..)' % m['unmock_entry'])
        else:
            chk.ob(_r7(props, 'R16.3'), '%s: no registered function => no Unmock arm (CannotUnmock via report)' % where, not um, config=cfg, fn=fn, site=site + ':unmock-arm', what='unexpected unmock arm')
        for p, cls in um:
            fname = m['unmock_entry'].split('(')[0]
            calls = [e for e in p.calls(r'(^|::)%s$' % re.escape(fname))]
            other_real = [e.data[1] for e in p.calls(r'::real_\w+$') if not re.search(r'(^|::)%s$' % re.escape(fname), e.data[1])]
            ok = len(calls) == 1 and not other_real
            detail = {'calls': [e.data[1] for e in calls], 'other_real_fns': other_real}
            if ok:
                e = calls[0]
                args = list(e.data[2])
                if m['unmock'] == 'path':
                    okr = is_receiver(args[0], M)
                    idx = []
                    for a in args[1:]:
                        hb = handed_back_index(a)
                        idx.append(0 if hb == 'whole' and n == 1 else hb)
                    ok = okr and idx == list(range(n))
                    detail.update(receiver_first=okr, arg_sources=idx, expected=list(range(n)))
                else:
                    # listed expressions: parameters reversed, then self
                    idx = []
                    for a in args[:-1]:
                        hb = handed_back_index(a)
                        idx.append(0 if hb == 'whole' and n == 1 else hb)
                    okr = is_receiver(args[-1], M) if args else False
                    ok = okr and idx == list(reversed(range(n)))
                    detail.update(receiver_last=okr, arg_sources=idx, expected=list(reversed(range(n))))
                r = unwrap_result(p.outcome[1], M.is_async) if p.outcome[0] == 'return' else None
                okret = r is not None and (r[0] == 'call' and r[3] == e.data[3] or (M.is_async and mentions(p.outcome[1], lambda x: x[0] == 'call' and x[3] == e.data[3])))
                if M.is_async and not okret and r is not None:
                    okret = _awaited(p, e, r) or _is_pending(p)
                chk.ob(_r7(props, 'R16.1'), '%s: the real function\'s result is returned unchanged%s' % (where, ' (awaited)' if M.is_async else ''), okret, config=cfg, fn=fn, site=site + ':unmock-ret', what='unmock result %s' % (show(r)[:60] if r else None))
            chk.ob(_r7(props, 'R16.1'), '%s: unmocking calls `%s` (the entry at this method\'s position) once, with the mock and the arguments as listed' % (where, m['unmock_entry']), ok, config=cfg, fn=fn, site=site + ':unmock-call',
                   what='unmock call %s' % detail, found=detail)

    # ---------------- R15: CallDefaultImpl arm
    di = seen.get('CallDefaultImpl', [])
    if 'C15' in props or 'C07' in props:
        if m['provided']:
            chk.ob(_r7(props, 'R15.1'), '%s: a provided method has a default-impl arm' % where, bool(di), config=cfg, fn=fn, site=site + ':default-arm', what='default-impl arm missing')
        else:
            chk.ob(_r7(props, 'R15.1'), '%s: a required method has no default-impl arm' % where, not di, config=cfg, fn=fn, site=site + ':default-arm', what='unexpected default-impl arm')
        for p, cls in di:
            cand = []
            for e in p.calls():
                c = e.term.get('callee', {})
                if c.get('name') == mname and c.get('trait') == '%s::%s' % (mod, tname):
                    cand.append(e)
            ok = len(cand) == 1
            detail = {'calls': [e.data[1] for e in cand]}
            if ok:
                e = cand[0]
                c = e.term['callee']
                res = c.get('resolved') or {}
                st = c.get('self_ty') or ''
                ok_target = 'DefaultImplDelegator' in st and res.get('trait_default') == '%s::%s' % (mod, tname)
                args = list(e.data[2])
                dl = args[0]
                ok_d = mentions(dl, lambda x: is_call(x, r'unimock::private::(as_ref|as_mut)$|DelegateToDefaultImpl>?::to_delegator$')) and _delegator_from_receiver(dl, M)
                idx = []
                for a in args[1:]:
                    hb = handed_back_index(a)
                    idx.append(0 if hb == 'whole' and n == 1 else hb)
                want = list(range(n))
                for k, p_ in enumerate(m['params']):
                    if p_['kind'] == 'impossible' and idx[k:k + 1] == [None]:
                        r = resolve_param(args[1 + k], n)
                        r = r[1] if isinstance(r, tuple) else r
                        idx[k] = k if r == k + 2 else None
                ok = ok_target and ok_d and idx == want
                detail.update(target_is_trait_default_on_delegator=ok_target, delegator_from_receiver=ok_d, arg_sources=idx)
                r = unwrap_result(p.outcome[1], M.is_async) if p.outcome[0] == 'return' else None
                okret = r is not None and (r[0] == 'call' and r[3] == e.data[3] or mentions(p.outcome[1], lambda x: x[0] == 'call' and x[3] == e.data[3]))
                if M.is_async and not okret and r is not None:
                    okret = _awaited(p, e, r) or _is_pending(p)
                chk.ob(_r7(props, 'R15.1'), '%s: the default body\'s result is returned unchanged' % where, okret, config=cfg, fn=fn, site=site + ':default-ret', what='default arm returns %s' % (show(r)[:60] if r else None))
            chk.ob(_r7(props, 'R15.1'), '%s: the default-impl arm runs the trait\'s own default body on the helper built from this mock, arguments in order' % where, ok, config=cfg, fn=fn, site=site + ':default-call', what='default-impl call %s' % detail, found=detail)
    # ---------------- R19.3: debug_inputs
    if 'C19' in props and len(info) == 1:
        _check_debug_inputs(chk, F, info[0], m, where, site)


_RECV = [('ref', '&self'), ('mut', '&mut self'), ('val', 'self'), ('rc', 'self: Rc<Self>'), ('arc', 'self: Arc<Self>'), ('pin', 'self: Pin<&mut Self>')]


def _is_pending(p):
    """the awaited future was not ready: the method's own future suspends (no result yet)"""
    if p.outcome[0] != 'return':
        return False
    v = strip(p.outcome[1])
    return v[0] == 'agg' and v[2].endswith('task::Poll') and v[3] == 'Pending' and p.called(r'IntoFuture>?::into_future$')


def _awaited(p, e, r):
    """async arms: the call result is turned into a future (IntoFuture) which is polled, and the Ready payload of the
    last poll on the path is what the arm yields"""
    intos = [x for x in p.calls(r'IntoFuture>?::into_future$') if mentions(x.data[2][0], lambda y: y[0] == 'call' and y[3] == e.data[3])]
    if len(intos) != 1:
        return False
    polls = [x for x in p.effects if x.kind == 'call' and p.effects.index(x) > p.effects.index(intos[0]) and re.search(r'(Future>?::poll$|::\{closure#\d+\}$)', x.data[1])]
    if not polls:
        return False
    last = polls[-1]
    cur = strip(r)
    return cur[0] == 'field' and cur[2] == '0' and strip(cur[1])[0] == 'as' and strip(cur[1])[2] == 'Ready' and strip(strip(cur[1])[1])[0] == 'call' and strip(strip(cur[1])[1])[3] == last.data[3]


def _delegator_from_receiver(dl, M):
    for x in subvalues(dl):
        if x[0] == 'call' and re.search(r'unimock::private::(as_ref|as_mut)$|DelegateToDefaultImpl>?::to_delegator$', x[1]):
            return is_receiver(x[2][0], M)
    return False


def _is_eval_return(r, F, M):
    r = strip(r)
    names = []
    cur = r
    while cur[0] in ('field', 'as', 'deref', 'ref'):
        if cur[0] == 'field':
            names.append(cur[2])
        elif cur[0] == 'as':
            names.append('@' + cur[2])
        elif cur[0] == 'ref':
            root, path = cur[1]
            if root[0] != 'ptr':
                return False
            for e in reversed(path):
                names.append(e[1] if e[0] == 'f' else '@' + e[1])
            cur = strip(root[1])
            continue
        cur = strip(cur[1])
    names.reverse()
    if is_call(cur, r'^unimock::private::eval$') and names == ['@Return', '0']:
        return True
    if is_call(cur, r'polonius::polonius$') and names[:2] == ['@Borrowing', '0']:
        # the closure must put (eval as Return).0 there
        clos = [b for b in M.bodies if b.kind == 'closure' and any(symex.callee_name(t) == 'unimock::private::eval' for _, t in b.calls())]
        for b in clos:
            for p in symex.Interp(F).run(b):
                v = strip(p.outcome[1]) if p.outcome[0] == 'return' else ('unk', '')
                if v[0] == 'agg' and v[3] == 'Borrowing':
                    inner = v
                    while inner[0] == 'agg' and inner[4]:
                        inner = strip(inner[4][0][1])
                    return _is_eval_return(inner, F, M)
    return False


def _reach_from_succs(body, bb):
    seen = set()
    st = list(body.succs(bb))
    while st:
        b = st.pop()
        if b in seen:
            continue
        seen.add(b)
        st.extend(body.succs(b))
    return seen


def _check_debug_inputs(chk, F, info_fn, m, where, site):
    cfg = 'xpand'
    n = len(m['params'])
    uid = (info_fn.impl_of or {}).get('self_adt_uid')
    dbg = [g for g in F.fns.values() if g.name == 'debug_inputs' and (g.impl_of or {}).get('self_adt_uid') == uid]
    if n == 0:
        chk.ob('R19.3', '%s: no arguments => default (empty) rendering' % where, True, config=cfg, site=site + ':debug_inputs')
        return
    if len(dbg) != 1:
        chk.ob('R19.3', '%s: debug_inputs is generated' % where, False, config=cfg, site=site + ':debug_inputs', what='debug_inputs missing for a method with %d parameters' % n)
        return
    g = dbg[0]
    for p in symex.Interp(F).run(g)[:1]:
        arrs = [e for e in p.effects if e.kind == 'write' and strip(e.data[1])[0] == 'agg' and strip(e.data[1])[1] == 'array']
        if not arrs:
            arr = None
            for x in subvalues(p.outcome[1] if p.outcome[0] == 'return' else ('unk', '')):
                if x[0] == 'agg' and x[1] == 'array':
                    arr = x
            elems = [v for _, v in arr[4]] if arr else []
        else:
            elems = [v for _, v in strip(arrs[0].data[1])[4]]
        src = []
        for v in elems:
            idxs = set()
            for x in subvalues(v):
                if x[0] == 'field' and strip(x[1]) in (('deref', ('param', 0, 1)), ('param', 0, 1)) and x[2].isdigit():
                    idxs.add(int(x[2]))
                if x[0] == 'ref' and x[1][0] == ('ptr', ('param', 0, 1)):
                    fs = [e_[1] for e_ in x[1][1] if e_[0] == 'f']
                    if fs and fs[0].isdigit():
                        idxs.add(int(fs[0]))
                    elif not fs and n == 1:
                        idxs.add(0)
                if n == 1 and x in (('param', 0, 1), ('deref', ('param', 0, 1))):
                    idxs.add(0)
            src.append(sorted(idxs))
        # every argument of a type that implements Debug is rendered through it (the `?` fallback is for types without Debug only)
        for k_, (v, pm) in enumerate(zip(elems, m['params'])):
            if pm.get('kind') in DEBUG_KINDS:
                proper = mentions(v, lambda x: is_call(x, r'ProperDebug>?::unimock_try_debug$'))
                chk.ob('R19.3', '%s: argument %d (%s) implements Debug and is rendered through it' % (where, k_, pm.get('ty')), proper, config=cfg, fn=g, site=site + ':debug_inputs:debug%d' % k_,
                       what='argument %d of a Debug type is rendered as `?`' % k_, found=[e_.data[1] for e_ in p.calls() if 'unimock_try_debug' in e_.data[1]][:4], expected='<T as ProperDebug>::unimock_try_debug')
        want = [[k] for k in range(n)]
        ok = len(elems) == n and src == want
        chk.ob('R19.3', '%s: argument renderings are listed in declaration order, element i from argument i' % where, ok, config=cfg, fn=g, site=site + ':debug_inputs', what='debug_inputs sources %s' % src, found=src, expected=want)


def _check_delegator(chk, F, t):
    cfg = 'xpand'
    tname, mod = t['name'], t['mod']
    provided = [m for m in t['methods'] if m['provided']]
    required = [m for m in t['methods'] if not m['provided']]
    impls = [im for im in F.impls if im.get('trait') == '%s::%s' % (mod, tname) and 'DefaultImplDelegator' in im['self_ty']]
    if provided:
        chk.ob('R15.2', 'trait %s with provided methods gets a helper impl' % tname, len(impls) == 1, config=cfg, site='%s:delegator' % tname, what='helper impl count %d' % len(impls))
    else:
        chk.ob('R15.2', 'trait %s without provided methods gets no helper impl' % tname, not impls, config=cfg, site='%s:delegator' % tname, what='unexpected helper impl')
    for im in impls:
        fns = sorted(it['name'] for it in im['items'] if it['is_fn'])
        chk.ob('R15.2', 'the helper impl of %s defines exactly the required methods (default bodies stay the trait\'s own)' % tname, fns == sorted(m['name'] for m in required), config=cfg, site='%s:delegator-items' % tname,
               what='helper methods %s' % fns, found=fns, expected=sorted(m['name'] for m in required))
        for m in required:
            fn = None
            for it in im['items']:
                if it['name'] == m['name']:
                    fn = F.fns.get(it['def'])
            if fn is None:
                continue
            n = len(m['params'])
            bodies = bodies_of(F, fn)
            fw = []
            for b in bodies:
                for p in symex.Interp(F).run(b):
                    for e in p.calls():
                        c = e.term.get('callee', {})
                        r = c.get('resolved') or {}
                        if c.get('name') == m['name'] and (r.get('impl_self_ty') == 'unimock::Unimock'):
                            fw.append((b, p, e))
            sites = sorted(set((b.defp, e.bb) for b, p, e in fw))
            ok = len(sites) == 1
            detail = {'sites': sites}
            if ok:
                b, p, e = fw[0]
                args = list(e.data[2])
                Mx = Model()
                Mx.form_polonius = False
                Mx.in_polonius_closure = False
                okr = mentions(args[0], lambda x: is_call(x, r'unimock::private::(as_ref|as_mut)$|DelegateToDefaultImpl>?::from_delegator$')) or is_receiver(args[0], Mx)
                order = []
                for a in args[1:]:
                    r = resolve_param(a, n)
                    order.append(r[1] if isinstance(r, tuple) else r)
                ok = okr and order == list(range(2, n + 2))
                detail.update(receiver_from_helper=okr, order=order)
            chk.ob('R15.2', 'helper %s::%s forwards to the mock\'s own %s with the caller\'s arguments in order' % (tname, m['name'], m['name']), ok, config=cfg, fn=fn, site='%s::%s:forward' % (tname, m['name']), what='helper forward %s' % detail, found=detail)


# ------------------------------------------------------------------------------------------------------------------
# matching!  (C06, R19.4)
# ------------------------------------------------------------------------------------------------------------------

def canon(v, inp):
    """canonical, site-free form of a symbolic value; parameter `inp` (the &Inputs argument) becomes INP"""
    if not isinstance(v, tuple) or not v:
        return v
    k = v[0]
    if k == 'param':
        return ('INP',) if v[2] == inp else ('ARG', v[2])
    if k == 'havoc':
        return canon(v[2], inp)
    if k == 'call':
        return ('call', v[1], tuple(canon(a, inp) for a in v[2]))
    if k == 'ref':
        root, path = v[1]
        if root[0] == 'local':
            if len(v) > 3:
                return ('refto', canon(v[3], inp))
            return ('reflocal',)
        return ('ref', canon(root[1], inp), tuple((e[0],) + tuple(canon(x, inp) if isinstance(x, tuple) else x for x in e[1:]) for e in path))
    if k == 'agg':
        return ('agg', v[1], v[2], v[3], tuple((n, canon(x, inp)) for n, x in v[4]))
    if k in ('field', 'as'):
        return (k, canon(v[1], inp), v[2])
    if k in ('deref',):
        return (k, canon(v[1], inp))
    if k == 'discr':
        return ('discr', canon(v[1], inp))
    if k == 'bin':
        return ('bin', v[1], canon(v[2], inp), canon(v[3], inp))
    if k in ('un', 'cast'):
        return (k, v[1], canon(v[2], inp))
    if k == 'index':
        return ('index', canon(v[1], inp), canon(v[2], inp))
    if k == 'overlay':
        return ('overlay', canon(v[1], inp), tuple((sub, canon(x, inp)) for sub, x in v[2]))
    if k == 'c':
        x = v[1]
        if isinstance(x, tuple) and x and x[0] == 'repr':
            return ('c', x[1])
        return v
    if k == 'promoted':
        return ('promoted', v[2]) if len(v) > 2 and v[1] == 'val' else ('promoted',)
    return v


def cbranch(b):
    return b if isinstance(b, int) else ('otherwise', tuple(sorted(b[1])))


def path_atoms(p, inp, upto=None):
    ds = p.decisions if upto is None else p.decisions[:upto]
    return frozenset((canon(d.value, inp), cbranch(d.branch)) for d in ds)


def is_true(v):
    return strip(v) == ('c', True)


def is_false(v):
    return strip(v) == ('c', False)


def conflicts(a, b):
    """two sets of (atom, branch): same atom decided incompatibly"""
    db = {}
    for atom, br in b:
        db.setdefault(atom, []).append(br)
    for atom, br in a:
        for br2 in db.get(atom, []):
            if isinstance(br, int) and isinstance(br2, int):
                if br != br2:
                    return True
            elif isinstance(br, int):
                if br not in br2[1]:
                    continue
                return True
            elif isinstance(br2, int):
                if br2 in br[1]:
                    return True
    return False


def _mentions_inp_pos(v, inp, i, arity):
    def pred(x):
        if arity == 1:
            return x == ('param', 0, inp) or (x[0] == 'ref' and x[1][0] == ('ptr', ('param', 0, inp)))
        if x[0] == 'field' and x[2] == str(i) and strip(x[1]) in (('deref', ('param', 0, inp)), ('param', 0, inp)):
            return True
        if x[0] == 'ref' and x[1][0] == ('ptr', ('param', 0, inp)) and x[1][1][:1] == (('f', str(i)),):
            return True
        return False
    return mentions(v, pred)


def check_patterns(chk, tier, seed, props):
    """thorough: three generated harnesses (seed, seed+1, seed+2), quick: one"""
    for s_ in ([seed] if tier == 'quick' else [seed, seed + 1, seed + 2]):
        _check_patterns(chk, tier, s_, props)


def _check_patterns(chk, tier, seed, props):
    try:
        F, sc, d = xrun.harness(tier, seed)
    except xrun.HarnessRejected as e:
        chk.ob('XPAND.accept', 'every grammar point of the generated harness is accepted by the compiler on this tree', False, config='xpand', site='harness', what='harness rejected: %s' % _first_error(str(e)),
               found=str(e)[-1500:], expected='cargo check of the harness succeeds')
        return
    cfg = 'xpand'
    if cfg not in chk.configs:
        chk.configs.append(cfg)
    npat = 0
    for pd in sc['patterns']:
        npat += 1
        mf = F.fns.get('pats::%s' % pd['macro_fn'])
        rf = F.fns.get('pats::%s' % pd['ref_fn'])
        site = 'pattern#%d %s' % (pd['idx'], pd['invocation'][:70])
        if mf is None or rf is None:
            chk.ob('XPAND.anchor', 'pattern case found: %s' % site, False, config=cfg, site=site, unrecognised=True, what='case missing')
            continue
        clos = [c for c in F.closures_of(mf) if c.arg_count == 3]
        setup = [c for c in F.closures_of(mf) if c.arg_count == 2]
        if len(clos) != 1:
            chk.ob('XPAND.anchor', 'matcher closure found: %s' % site, False, config=cfg, site=site, unrecognised=True, what='matcher closures: %d' % len(clos))
            continue
        mc = clos[0]
        chk.analysed(mc)
        mps = symex.Interp(F, max_paths=6000).run(mc)
        rps = symex.Interp(F, max_paths=6000).run(rf)
        if 'C06' in props:
            # all outcomes are booleans
            outs_ok = all(p.outcome[0] == 'return' and strip(p.outcome[1])[0] == 'c' and isinstance(strip(p.outcome[1])[1], bool) for p in mps)
            chk.ob('R06.3', 'the matcher yields a plain accept/reject on every path: %s' % site, outs_ok, config=cfg, fn=mc, site=site + ':bool', unrecognised=not outs_ok, what='non-constant outcome')
            A_m = set(path_atoms(p, 2) for p in mps if p.outcome[0] == 'return' and is_true(p.outcome[1]))
            A_r = set(path_atoms(p, 1) for p in rps if p.outcome[0] == 'return' and is_true(p.outcome[1]))
            same = A_m == A_r
            found = None
            if not same:
                only_m = [sorted(_fmt_atoms(x))[:6] for x in list(A_m - A_r)[:2]]
                only_r = [sorted(_fmt_atoms(x))[:6] for x in list(A_r - A_m)[:2]]
                found = {'accepted_only_by_macro': only_m, 'accepted_only_by_rust_match': only_r, 'n_macro': len(A_m), 'n_ref': len(A_r)}
            chk.ob('R06.2', 'matching! accepts exactly what the reference Rust match accepts: %s' % site, same, config=cfg, fn=mc, site=site + ':accept', what='accept sets differ', found=found,
                   expected='identical accepting decision paths as `match (c(a0), ..) { alts if guard => true, _ => false }`')
            # diagnostics independence: `reporter.enabled()` never occurs on an accepting path
            dep = [p for p in mps if is_true(p.outcome[1]) and any(is_call(strip(d_.value), r'MismatchReporter::enabled$') for d_ in p.decisions)]
            chk.ob('R06.3', 'the accept decision never depends on whether diagnostics are collected: %s' % site, not dep, config=cfg, fn=mc, site=site + ':diag-independent', what='accepting path consults reporter.enabled()')
            writes = [e for p in mps for e in p.effects if e.kind == 'write']
            chk.ob('R06.3', 'the diagnostics arm only reports (no other effect): %s' % site, not writes, config=cfg, fn=mc, site=site + ':diag-effects', what='writes in matcher')
            if pd['form'] == 'empty':
                chk.ob('R06.4', 'matching!() accepts everything', len(mps) == 1 and is_true(mps[0].outcome[1]) and not mps[0].decisions, config=cfg, fn=mc, site=site + ':empty', what='empty matcher')
        if 'C19' in props:
            _check_pat_debug(chk, F, setup, pd, site)
            if pd['single']:
                _check_diagnostics(chk, F, mc, mps, pd, site)
    chk.programs += npat
    chk.floor('XPAND', 'matching! cases analysed', npat, 100 if tier == 'quick' else 400, config=cfg)
    for pd in sc['patterns'][:2]:
        chk.sample({'matching': pd['invocation'], 'kinds': pd['kinds']})


def _fmt_atoms(s):
    return ['%s == %s' % (_cshow(a), b) for a, b in s]


def _cshow(a, depth=0):
    if not isinstance(a, tuple) or not a:
        return str(a)
    if depth > 5:
        return '…'
    k = a[0]
    if k == 'INP':
        return 'INPUTS'
    if k == 'call':
        return '%s(%s)' % (a[1].rsplit('::', 1)[-1], ', '.join(_cshow(x, depth + 1) for x in a[2]))
    if k in ('field',):
        return '%s.%s' % (_cshow(a[1], depth + 1), a[2])
    if k == 'as':
        return '(%s as %s)' % (_cshow(a[1], depth + 1), a[2])
    if k == 'deref':
        return '*%s' % _cshow(a[1], depth + 1)
    if k == 'discr':
        return 'discr(%s)' % _cshow(a[1], depth + 1)
    if k == 'bin':
        return '(%s %s %s)' % (_cshow(a[2], depth + 1), a[1], _cshow(a[3], depth + 1))
    if k == 'ref':
        return '&%s%s' % (_cshow(a[1], depth + 1), ''.join('.%s' % (e[1],) for e in a[2]))
    if k == 'refto':
        return '&{%s}' % _cshow(a[1], depth + 1)
    if k == 'c':
        return repr(a[1])
    return str(a)[:60]


def _norm_ws(s):
    """pattern text modulo the macro's documented-by-behaviour simplifications: whitespace, path qualifiers of
    enum/struct patterns (`E::A` -> `A`) and the bodies of struct patterns (`S { a: 1, .. }` -> `S {}`)"""
    s = re.sub(r'\s+', '', s)
    s = re.sub(r'\b(?:[A-Za-z_][A-Za-z0-9_]*::)+', '', s)
    s = re.sub(r'\{[^{}]*\}', '{}', s)
    return s


def _check_pat_debug(chk, F, setup, pd, site):
    cfg = 'xpand'
    if pd['form'] == 'empty':
        return
    found = None
    for c in setup:
        for bb, t in c.calls():
            if symex.callee_name(t).endswith('Matching::pat_debug'):
                args = t['args']
                vals = [a.get('c', {}) for a in args[1:]]
                found = (vals[0].get('repr'), vals[1].get('repr'), vals[2].get('int'))
    alts = []
    for a in pd['alts']:
        alts.append('(' + ', '.join(re.sub(r'^(eq|ne)!\(.*\)$', r'\1!(..)', x) for x in a) + ')')
    want = ' | '.join(alts) + (' if {guard}' if pd['guard'] else '')
    want_n = _norm_ws(want).replace('if{}', 'if{guard}')
    ok = found is not None and found[0] is not None and _norm_ws(_unquote(found[0])).replace('if{}', 'if{guard}') == want_n and _unquote(found[1] or '') == 'src/lib.rs' and found[2] == pd['line']
    chk.ob('R19.4', 'the pattern is recorded with its source text and the file:line of its matching! invocation: %s' % site, ok, config=cfg, site=site + ':pat_debug', what='pat_debug %s' % (found,), found=found,
           expected=[want, 'src/lib.rs', pd['line']])


def _unquote(s):
    if s is None:
        return ''
    s = s.strip()
    if s.startswith('"') and s.endswith('"'):
        s = s[1:-1]
    return s.replace('\\"', '"').replace("\\'", "'").replace('\\\\', '\\')


def _check_diagnostics(chk, F, mc, mps, pd, site):
    """R19.4: in the diagnostics arm of a guard-free single-alternative pattern exactly the rejecting positions are reported,
    each under its own index and with its own actual value"""
    cfg = 'xpand'
    n = pd['arity']
    pos = {}
    for pr in pd['pos_refs']:
        if pr['kind'] != 'pat':
            continue
        rf = F.fns.get('pats::%s' % pr['fn'])
        if rf is None:
            continue
        rps = symex.Interp(F, max_paths=3000).run(rf)
        acc = [path_atoms(p, 1) for p in rps if p.outcome[0] == 'return' and is_true(p.outcome[1])]
        rej = [path_atoms(p, 1) for p in rps if p.outcome[0] == 'return' and is_false(p.outcome[1])]
        pos[pr['index']] = (acc, rej)
    checked = 0
    for p in mps:
        en = [i for i, d_ in enumerate(p.decisions) if is_call(strip(d_.value), r'MismatchReporter::enabled$')]
        if not en or symex.decision_truth(p.decisions[en[0]]) is not True:
            continue
        DP = path_atoms(p, 2)
        reported = {}
        for e in p.calls(r'MismatchReporter::(pat_fail|eq_fail|ne_fail)$'):
            idx = strip(e.data[2][1])
            i = idx[1] if idx[0] == 'c' else None
            reported.setdefault(i, []).append(e)
        for i, es in reported.items():
            ok_i = isinstance(i, int) and 0 <= i < n and len(es) == 1
            chk.ob('R19.4', 'mismatch report uses a valid argument position, once: %s' % site, ok_i, config=cfg, fn=mc, site=site + ':index', what='reported index %s x%d' % (i, len(es)))
            if ok_i:
                actual = es[0].data[2][2]
                okv = _mentions_inp_pos(actual, 2, i, n) or strip(actual)[0] == 'agg' and strip(actual)[3] == 'None'
                chk.ob('R19.4', 'the value shown for position %d is argument %d\'s: %s' % (i, i, site), okv, config=cfg, fn=mc, site=site + ':value%d' % i, what='position %d reports %s' % (i, show(actual)[:80]), found=show(actual)[:160])
        for i, (acc, rej) in pos.items():
            if not rej:
                chk.ob('R19.4', 'an irrefutable position is never reported: %s' % site, i not in reported, config=cfg, fn=mc, site=site + ':irrefutable%d' % i, what='irrefutable position %d reported' % i)
                continue
            matched = any(a <= DP for a in acc)
            rejected = all(conflicts(a, DP) for a in acc)
            checked += 1
            if matched:
                chk.ob('R19.4', 'a position whose sub-pattern accepts the value is not listed (position %d): %s' % (i, site), i not in reported, config=cfg, fn=mc, site=site + ':pos%d' % i, what='matching position %d listed' % i)
            elif rejected:
                chk.ob('R19.4', 'a position whose sub-pattern rejects the value is listed (position %d): %s' % (i, site), i in reported, config=cfg, fn=mc, site=site + ':pos%d' % i, what='rejecting position %d not listed' % i,
                       found={'reported': sorted(k for k in reported if isinstance(k, int))}, expected='pat_fail(%d, ..)' % i)
            else:
                chk.ob('R19.4', 'diagnostics examine every refutable position (position %d): %s' % (i, site), False, config=cfg, fn=mc, site=site + ':pos%d' % i, what='position %d not examined by the diagnostics arm' % i,
                       found={'reported': sorted(k for k in reported if isinstance(k, int))}, expected='match a%d { p%d => {}, mismatch => reporter.pat_fail(%d, ..) }' % (i, i, i))
    return checked
