#!/bin/sh
# usage: extract_harness.sh <harness-crate-dir> <out-dir>
# Compiles a generated harness crate (path-depending on /repo's CURRENT tree) under the mirfacts driver and writes
# <out-dir>/<crate>.lib.json for the harness crate only. Also proves the harness type-checks (acceptance).
set -e
HERE="$(cd "$(dirname "$0")/.." && pwd)"
H="$1"; OUT="$2"
DRV="$HERE/.cache/tools/mirfacts/release/mirfacts"
[ -x "$DRV" ] || { echo "mirfacts driver missing: run ./setup.sh" >&2; exit 2; }
mkdir -p "$OUT"; rm -f "$OUT"/*.json
NAME="$(sed -n 's/^name = "\(.*\)"/\1/p' "$H/Cargo.toml" | head -1)"
TD="$HERE/.cache/target/xpand"
mkdir -p "$TD"
rm -rf "$TD"/debug/.fingerprint/"$NAME"-* 2>/dev/null || true
# the path dependency on the repository: cargo decides its freshness by mtime, so a tree restored from a snapshot (older mtimes, other
# content, same path) would be served the artifacts of the tree that was there before: force the two members stale as well
rm -rf "$TD"/debug/.fingerprint/unimock-* "$TD"/debug/.fingerprint/unimock_macros-* 2>/dev/null || true
SYSROOT="$(rustc +nightly --print sysroot)"
NONCE="${VERIF_NONCE:-$(date +%s%N)}"
cd "$H"
LD_LIBRARY_PATH="$SYSROOT/lib" \
RUSTFLAGS="-Zmir-opt-level=0 -Awarnings -Cdebug-assertions=off" \
RUSTC_WORKSPACE_WRAPPER="$DRV" \
CARGO_TARGET_DIR="$TD" CARGO_NET_OFFLINE=true \
VERIF_FACTS_DIR="$OUT" VERIF_NONCE="$NONCE" VERIF_CONFIG="xpand" VERIF_CRATES="$NAME" \
cargo +nightly check --offline --lib >"$OUT/cargo.log" 2>&1 || { tail -60 "$OUT/cargo.log" >&2; exit 3; }
echo "$NONCE" > "$OUT/nonce"
[ -f "$OUT/$NAME.lib.json" ] || { echo "facts file for $NAME not produced" >&2; tail -20 "$OUT/cargo.log" >&2; exit 4; }
