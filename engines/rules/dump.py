#!/usr/bin/env python3
"""debug helper: dump.py <facts.json> <fn-regex> [--inline regex] [--mir]"""
import sys, re, json
sys.path.insert(0, __file__.rsplit('/',1)[0])
import facts, symex
F = facts.Facts(sys.argv[1]) if sys.argv[1].endswith('.json') else facts.load(sys.argv[1])
rx = sys.argv[2]
inl = None
if '--inline' in sys.argv:
    inl = re.compile(sys.argv[sys.argv.index('--inline')+1])
for fn in F.fns_matching(rx):
    print('=====', fn.defp, fn.file, fn.line)
    if '--mir' in sys.argv:
        for i, b in enumerate(fn.blocks):
            print(' bb%d%s' % (i, ' (cleanup)' if b['cleanup'] else ''))
            for s in b['stmts']:
                if s['k']=='assign': print('    %s = %s' % (facts.place_str(s['p']), json.dumps(s['rv'])[:220]))
                else: print('    ', s)
            t=b['term']
            if t['k']=='call': print('    CALL %s(%s) -> %s  => bb%s unwind %s' % (facts.callee_name(t), ', '.join(json.dumps(a)[:80] for a in t['args']), facts.place_str(t['dest']), t['target'], t['unwind']))
            else: print('    ', json.dumps(t)[:300])
        continue
    it = symex.Interp(F, inline=(lambda f,d,n: bool(inl.search(f.defp))) if inl else None)
    ps = it.run(fn)
    print(len(ps), 'paths')
    for p in ps:
        print('---')
        for d in p.decisions: print('   D', symex.show(d.value), '==', d.branch)
        for e in p.effects:
            if e.kind=='call': print('   call', e.data[1], '(', ', '.join(symex.show(a) for a in e.data[2]), ')')
            elif e.kind=='write': print('   write', symex.show_lv(e.data[0]), '=', symex.show(e.data[1]))
            elif e.kind=='drop': print('   drop', symex.show(e.data[0]), e.data[1])
        o = p.outcome
        print('   =>', o[0], symex.show(o[1]) if o[0]=='return' else o[1])
