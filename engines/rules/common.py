"""Check bookkeeping: obligations, violations, known findings, evidence files."""
import hashlib
import json
import os
import sys
import time

VERIF = os.path.abspath(os.path.join(os.path.dirname(__file__), '..', '..'))

LEVELS = {}  # property id -> level category (filled by check registry)

TRUSTED_BASE = [
    'nightly rustc front end, type checker and MIR builder (rustc 1.97.0-nightly) as the source of the resolved program',
    'engines/mirfacts exporter and the python rule engine in engines/rules (path-sensitive abstract interpreter, no solver)',
    'contracts of std / once_cell / spin items listed in DESIGN.md section 3.2 (e.g. fetch_add returns the previous value atomically)',
]


class Check:
    def __init__(self, pid, tier, seed, level='other'):
        self.pid = pid
        self.tier = tier
        self.seed = seed
        self.level = level
        self.t0 = time.time()
        self.obligations = []     # dicts
        self.violations = []
        self.unrecognised = []
        self.samples = []
        self.floors = []
        self.configs = []
        self.functions = set()
        self.call_sites = 0
        self.explanations = []
        self.notes = []
        self.programs = 0
        self.extra = {}
        self.assumptions = []

    # ------------------------------------------------------------------
    def explain(self, text):
        if text not in self.explanations:
            self.explanations.append(text)

    def analysed(self, fn):
        self.functions.add(fn if isinstance(fn, str) else fn.defp)

    def ob(self, rule, desc, ok, *, config='', fn=None, site='', found=None, expected=None, what='',
           unrecognised=False, where=None):
        """record one rule instance. ok=True: discharged. ok=False: violation (or unrecognised)."""
        fdef = fn if isinstance(fn, str) or fn is None else fn.defp
        if fdef:
            self.functions.add(fdef)
        rec = {'rule': rule, 'desc': desc, 'config': config, 'fn': fdef, 'site': site, 'ok': bool(ok)}
        self.obligations.append(rec)
        if ok:
            return True
        key = '%s|%s|%s|%s|%s' % (rule, config, fdef or '', site, what or desc)
        rep = {
            'property': self.pid, 'rule': rule, 'key': key, 'config': config, 'function': fdef, 'site': site,
            'kind': 'UNRECOGNISED' if unrecognised else 'VIOLATED',
            'description': desc, 'found': _js(found), 'expected': _js(expected),
            'where': where or (fn.where() if fn is not None and not isinstance(fn, str) else None),
        }
        (self.unrecognised if unrecognised else self.violations).append(rep)
        return False

    def floor(self, rule, what, count, minimum, config=''):
        self.floors.append({'rule': rule, 'what': what, 'count': count, 'floor': minimum, 'config': config})
        return self.ob(rule + '.floor', 'at least %d instances of %s (found %d)' % (minimum, what, count),
                       count >= minimum, config=config, site='floor', what='floor:%s' % what,
                       found=count, expected='>= %d' % minimum, unrecognised=True)

    def sample(self, obj, limit=12):
        if len(self.samples) < limit:
            self.samples.append(_js(obj))

    # ------------------------------------------------------------------
    def finish(self):
        dump = os.environ.get('VERIF_DUMP_KEYS')
        if dump:
            # audit aid (lib/vacuity_audit.py): how many instances each (rule, kind of site) had on this tree
            import re as _re
            counts = {}
            for r in self.obligations:
                k = '%s|%s' % (r['rule'], _re.split(r'[:@]', r['site'] or '', 1)[0])
                counts[k] = counts.get(k, 0) + 1
            try:
                with open(dump, 'w') as f:
                    json.dump({'property': self.pid, 'mode': self.extra.get('analysis_mode', []), 'counts': counts}, f)
            except OSError:
                pass
        known = load_known()
        out_viol = []
        for rep in self.violations + self.unrecognised:
            k = [e for e in known if e.get('status', 'known') == 'known' and e['property'] == self.pid and e['key'] == rep['key']]
            if k:
                print('KNOWN-FINDING: property=%s %s' % (self.pid, k[0]['what']))
                continue
            out_viol.append(rep)
        # one line per distinct key
        seen = set()
        rdir = os.path.join(VERIF, 'reports', self.pid)
        if os.path.isdir(rdir):
            for f_ in os.listdir(rdir):
                try:
                    os.unlink(os.path.join(rdir, f_))
                except OSError:
                    pass
        for rep in out_viol:
            if rep['key'] in seen:
                continue
            seen.add(rep['key'])
            os.makedirs(rdir, exist_ok=True)
            h = hashlib.sha256(rep['key'].encode()).hexdigest()[:16]
            p = os.path.join(rdir, '%s.json' % h)
            with open(p, 'w') as f:
                json.dump(rep, f, indent=1)
            print('VIOLATION property=%s replay=%s' % (self.pid, os.path.relpath(p, VERIF)))
            print('  [%s] %s %s: %s' % (rep['kind'], rep['rule'], rep.get('where') or rep.get('function') or '', rep['description']))
            if rep.get('found') is not None:
                print('     found:    %s' % (json.dumps(rep['found'])[:400]))
            if rep.get('expected') is not None:
                print('     expected: %s' % (json.dumps(rep['expected'])[:400]))
        nob = len(self.obligations)
        ndis = sum(1 for o in self.obligations if o['ok'])
        distinct = len(set((o['rule'], o['config'], o['fn'], o['site'], o['desc']) for o in self.obligations))
        cov = {
            'explanation': ' '.join(self.explanations) or 'static rules over the resolved program',
            'obligations': nob,
            'discharged': ndis,
            'evaluations': max(nob, 1),
            'distinct_nontrivial': distinct,
            'rule': 'one evaluation = one rule instance (rule id x config x function x site) decided on the facts extracted from /repo\'s current tree; distinct = distinct instance keys',
            'samples': self.samples or [o for o in self.obligations[:5]],
            'functions_analysed': len(self.functions),
            'functions': sorted(self.functions)[:200],
            'call_sites': self.call_sites,
            'configs': self.configs,
            'floors': self.floors,
            'unrecognised': len(self.unrecognised),
            'trusted_base': TRUSTED_BASE,
            'checker_cmd': './check %s --tier %s' % (self.pid, self.tier),
            'rules': sorted(set(o['rule'] for o in self.obligations)),
            'exhaustive': False,
        }
        if self.programs:
            cov['programs'] = self.programs
            cov['disagreements_checked'] = len(seen)
        cov.update(self.extra)
        ev = {
            'property_id': self.pid, 'tier': self.tier, 'seed': self.seed, 'level': self.level,
            'coverage': cov,
            'assumptions': self.assumptions or [
                'the facts are extracted from /repo\'s working tree by compiling it with the nightly toolchain; the structural clauses decided are necessary conditions of the property, the argument from clauses to behaviour is in DESIGN.md section 4',
            ],
            'wall_s': round(time.time() - self.t0, 3),
            'violations': len(seen),
        }
        os.makedirs(os.path.join(VERIF, 'evidence'), exist_ok=True)
        with open(os.path.join(VERIF, 'evidence', '%s.json' % self.pid), 'w') as f:
            json.dump(ev, f, indent=1)
        print('%s %s: %d rule instances, %d discharged, %d violations, %d functions, configs=%s, %.1fs' % (
            self.pid, self.tier, nob, ndis, len(seen), len(self.functions), ','.join(self.configs), time.time() - self.t0))
        return 1 if seen else 0


def _js(x):
    if x is None or isinstance(x, (str, int, float, bool)):
        return x
    if isinstance(x, dict):
        return {str(k): _js(v) for k, v in x.items()}
    if isinstance(x, (list, tuple, set, frozenset)):
        return [_js(v) for v in x]
    return str(x)


def load_known():
    p = os.path.join(VERIF, 'known_findings.json')
    if not os.path.exists(p):
        return []
    with open(p) as f:
        return json.load(f).get('findings', [])
