#!/usr/bin/env python3
"""Generates the XPAND harness crate: a grammar of trait shapes for #[unimock] and of patterns for matching!.

usage: gen.py <out-dir> <repo-path> <tier> <seed>
Writes <out-dir>/Cargo.toml, Cargo.lock (copy of the repo's), src/lib.rs and sidecar.json (the description of every
grammar point, written independently of the macro: it is what the rules compare the compiled expansion against).
"""
import itertools
import json
import os
import random
import shutil
import sys

RECEIVERS = [
    ('ref', '&self'), ('mut', '&mut self'), ('val', 'self'), ('rc', 'self: std::rc::Rc<Self>'),
    ('arc', 'self: std::sync::Arc<Self>'), ('pin', 'self: std::pin::Pin<&mut Self>'),
]
# kind -> (type, needs)
PARAMS = {
    'copy': 'i32', 'owned': 'String', 'ref': '&u8', 'str': '&str', 'slice': '&[u8]', 'mutref': '&mut i32', 'mutslice': '&mut [u8]',
    'impossible': '&mut Ctx<\'_>', 'optref': 'Option<&u8>', 'generic': 'G', 'impl': 'impl AsRef<str> + \'static',
}
# a `&mut` whose *reference* carries a named lifetime (none in the pointee): an ordinary, matchable argument - only used in the
# dedicated sub-product below (it needs a method-level lifetime parameter)
EXTRA_PARAMS = {'mutref_named': '&\'a mut i32'}
RETURNS = {
    'unit': ('()', None), 'owned': ('u32', None), 'string': ('String', None), 'ref': ('&u8', 'borrow'), 'mutref': ('&mut u8', 'mutborrow'),
    'static': ('&\'static str', None), 'optref': ('Option<&u8>', 'borrow'), 'resref': ('Result<&u8, String>', 'borrow'), 'vecref': ('Vec<&u8>', 'borrow'),
    'tuple': ('(u8, &u8)', 'borrow'), 'optowned': ('Option<String>', None), 'resowned': ('Result<u8, String>', None),
}


def valid(recv, ret, asy, provided, params):
    need = RETURNS[ret][1]
    if need == 'borrow' and recv not in ('ref', 'mut'):
        return False
    if need == 'mutborrow' and recv != 'mut':
        return False
    if asy != 'sync' and recv in ('pin',):
        return False
    if asy != 'sync' and 'impossible' in params:
        return False
    if asy == 'rpit' and (need is not None):
        return False
    if asy == 'rpit' and recv not in ('ref',):
        return False
    if asy != 'sync' and recv in ('rc', 'arc', 'val') and need is not None:
        return False
    return True


def method_specs(tier, rnd):
    """deterministic covering enumeration of (receiver, params, ret, async, provided, unmock)"""
    pk = list(PARAMS)
    rk = list(RETURNS)
    specs = []
    # full product receiver x arity 0..5 with rotating kinds (position of each &mut kind varies)
    rot = 0
    for recv, _ in RECEIVERS:
        for arity in range(0, 6):
            for shift in range(0, 3 if tier == 'quick' else 6):
                params = [pk[(rot + shift * 3 + i * 2) % len(pk)] for i in range(arity)]
                rot += 1
                for ret in [rk[(rot + j) % len(rk)] for j in range(2 if tier == 'quick' else 4)]:
                    specs.append(dict(recv=recv, params=params, ret=ret, asy='sync', provided=False, unmock='none'))
    # async / provided / unmock variations, pairwise-ish
    base = [s for s in specs if len(s['params']) in (0, 1, 2, 3)]
    for i, s in enumerate(base):
        t = dict(s)
        t['asy'] = ['async', 'rpit', 'sync'][i % 3]
        t['provided'] = (i % 2 == 0)
        t['unmock'] = ['path', 'args', 'skip', 'none'][i % 4]
        specs.append(t)
    # `-> impl Future` (only &self expands): arity 0..3 x non-borrowing returns x required/provided
    k = 0
    for arity in range(0, 4):
        for ret in ('unit', 'owned', 'string', 'optowned', 'resowned', 'static'):
            params = [['copy', 'str', 'owned', 'ref', 'slice'][(k + i) % 5] for i in range(arity)]
            specs.append(dict(recv='ref', params=params, ret=ret, asy='rpit', provided=(k % 3 == 0), unmock='none'))
            k += 1
    # provided methods without parameters, every receiver
    for recv, _ in RECEIVERS:
        for asy in ('sync', 'async'):
            specs.append(dict(recv=recv, params=[], ret='owned', asy=asy, provided=True, unmock='none'))
    # provided methods with an empty body (unit return), every receiver
    for recv, _ in RECEIVERS:
        specs.append(dict(recv=recv, params=['copy'] if recv in ('ref', 'mut') else [], ret='unit', asy='sync', provided=True, unmock='none'))
    # every position of every &mut kind for arity 3
    for recv, _ in RECEIVERS[:3]:
        for pos in range(3):
            for k in ('mutref', 'mutslice', 'impossible', 'mutref_named'):
                params = ['copy', 'str', 'owned']
                params[pos] = k
                specs.append(dict(recv=recv, params=params, ret='owned', asy='sync', provided=(pos == 1), unmock='path' if pos == 0 and k != 'mutref_named' else 'none'))
    out = []
    seen = set()
    for s in specs:
        if not valid(s['recv'], s['ret'], s['asy'], s['provided'], s['params']):
            continue
        if s['asy'] != 'sync' and ('generic' in s['params'] or 'impl' in s['params']):
            continue
        if s['unmock'] in ('path', 'args') and ('impl' in s['params'] or 'generic' in s['params'] or 'impossible' in s['params'] or s['recv'] in ('rc', 'arc', 'val') or (s['recv'] == 'pin' and s['unmock'] == 'args')):
            s = dict(s, unmock='none')
        if s['unmock'] in ('path', 'args') and (RETURNS[s['ret']][1] is not None or s['asy'] == 'rpit'):
            s = dict(s, unmock='none')
        if s['provided'] and RETURNS[s['ret']][1] is not None and s['recv'] not in ('ref', 'mut'):
            continue
        key = json.dumps(s, sort_keys=True)
        if key in seen:
            continue
        seen.add(key)
        out.append(s)
    rnd.shuffle(out)
    # the named sub-products are kept in full; the rest fills up to the limit
    named = [s_ for s_ in out if s_['asy'] == 'rpit' or (s_['provided'] and not s_['params']) or 'mutref_named' in s_['params'] or (s_['provided'] and s_['ret'] == 'unit' and s_['asy'] == 'sync')]
    rest = [s_ for s_ in out if s_ not in named]
    out = named + rest
    limit = 300 if tier == 'quick' else 1300
    return out[:limit]


HYGIENE_NAMES = ['output', 'cont', 'inputs', 'eval', 'value']


def render_method(s, mname, tname, idx):
    recv_txt = dict(RECEIVERS)[s['recv']]
    ps = []
    generics = []
    for i, k in enumerate(s['params']):
        ty = PARAMS.get(k) or EXTRA_PARAMS[k]
        if k == 'generic':
            generics.append('G: \'static + std::fmt::Debug')
        if k == 'mutref_named':
            generics.insert(0, '\'a')
        # hygiene: every fifth method names its parameters like identifiers the expansion uses for its own bindings
        pname = HYGIENE_NAMES[i] if (idx % 5 == 2 and i < len(HYGIENE_NAMES)) else 'p%d' % i
        ps.append((pname, k, ty))
    if s.get('tgen_param') and len(ps) < 5:
        ps.append(('p%d' % len(ps), 'tgen', '&TG'))      # an argument typed by the trait's own type parameter
    ret_ty = RETURNS[s['ret']][0]
    g = '<%s>' % ', '.join(dict.fromkeys(generics)) if generics else ''
    sig_params = ', '.join([recv_txt] + ['%s: %s' % (n, t) for n, _, t in ps])
    where = ''
    if s['recv'] in ('val', 'rc', 'arc') and s['provided']:
        where = ' where Self: Sized'
    if s['asy'] == 'async':
        head = 'async fn %s%s(%s)' % (mname, g, sig_params)
        ret = '' if s['ret'] == 'unit' else ' -> %s' % ret_ty
    elif s['asy'] == 'rpit':
        head = 'fn %s%s(%s)' % (mname, g, sig_params)
        ret = ' -> impl std::future::Future<Output = %s>' % ret_ty
    else:
        head = 'fn %s%s(%s)' % (mname, g, sig_params)
        ret = '' if s['ret'] == 'unit' else ' -> %s' % ret_ty
    if s['provided']:
        if s['asy'] == 'rpit':
            body = ' { async move { unimplemented!() } }'
        elif s['ret'] == 'unit' and s['asy'] == 'sync':
            body = ' {}'      # (a provided method whose default body is empty is still a provided method)
        else:
            body = ' { unimplemented!() }'
    else:
        body = ';'
    return '%s%s%s%s' % (head, ret, where, body), ps


def gen_traits(tier, seed):
    rnd = random.Random(seed * 7919 + 17)
    specs = method_specs(tier, rnd)
    traits = []
    i = 0
    tn = 0
    while i < len(specs):
        n = 1 + (tn % 3)
        ms = specs[i:i + n]
        i += n
        # methods with trait-level generics only when no unmock
        tgen = (tn % 5 == 4) and all(m['unmock'] == 'none' for m in ms)
        api = ['module', 'flattened', 'hidden'][tn % 3] if not tgen else 'module'
        traits.append(dict(idx=tn, name='T%d' % tn, mod='t%d' % tn, api=api, trait_generic=tgen, methods=ms))
        tn += 1
    return traits


def render_trait(t):
    lines = []
    name = t['name']
    methods = []
    unmock_entries = []
    helper_fns = []
    any_unmock = any(m['unmock'] in ('path', 'args') for m in t['methods'])
    for j, m in enumerate(t['methods']):
        mname = 'm%d' % j
        sig, ps = render_method(dict(m, tgen_param=t['trait_generic'] and m['asy'] == 'sync'), mname, name, j)
        entry = None
        um = m['unmock']
        if not any_unmock:
            um = 'none'
        if um == 'path':
            fname = 'real_%s_%d' % (name.lower(), j)
            entry = fname
            args = ', '.join(['u: &(impl %s + ?Sized)' % name] + ['%s: %s' % (n, ty) for n, _, ty in ps])
            asy = 'async ' if m['asy'] != 'sync' else ''
            helper_fns.append('pub %sfn %s(%s) -> %s { unimplemented!() }' % (asy, fname, args, RETURNS[m['ret']][0]))
        elif um == 'args':
            fname = 'real_%s_%d' % (name.lower(), j)
            order = list(reversed(ps))
            entry = '%s(%s)' % (fname, ', '.join([n for n, _, _ in order] + ['self']))
            args = ', '.join(['%s: %s' % (n, ty) for n, _, ty in order] + ['u: &(impl %s + ?Sized)' % name])
            asy = 'async ' if m['asy'] != 'sync' else ''
            helper_fns.append('pub %sfn %s(%s) -> %s { unimplemented!() }' % (asy, fname, args, RETURNS[m['ret']][0]))
        elif any_unmock:
            entry = '_'
        unmock_entries.append(entry)
        methods.append(dict(name=mname, recv=m['recv'], params=[dict(name=n, kind=k, ty=ty) for n, k, ty in ps], ret=m['ret'], ret_ty=RETURNS[m['ret']][0],
                            asy=m['asy'], provided=m['provided'], unmock=um, unmock_entry=entry, sig=sig))
    # an associated fn without receiver (skipped by the macro) at a varying position: the unmock list stays positional over *all* trait fns
    static_at = None
    if any_unmock and t['idx'] % 2 == 0:
        static_at = (t['idx'] // 2) % (len(methods) + 1)
        unmock_entries.insert(static_at, '_')
    attrs = []
    if t['api'] == 'module':
        attrs.append('api=%sMock' % name)
    elif t['api'] == 'flattened':
        attrs.append('api=[%s]' % ', '.join('%s_%s' % (name, m['name']) for m in methods))
    if any_unmock:
        attrs.append('unmock_with=[%s]' % ', '.join(unmock_entries))
    tg = '<TG: \'static + std::fmt::Debug + Send + Sync>' if t['trait_generic'] else ''
    tg_where = ''
    if t['trait_generic'] and t['idx'] % 10 == 9:
        # the same bounds written in a where clause
        tg, tg_where = '<TG>', ' where TG: \'static + std::fmt::Debug + Send + Sync'
    lines.append('pub mod %s {' % t['mod'])
    lines.append('    use unimock::*;')
    lines.append('    pub struct Ctx<\'a>(pub &\'a mut u8);')
    lines.append('    #[unimock(%s)]' % ', '.join(attrs))
    lines.append('    pub trait %s%s%s {' % (name, tg, tg_where))
    for k, m in enumerate(methods):
        if static_at == k:
            lines.append('        fn version() -> u32 where Self: Sized { 1 }')
        lines.append('        %s' % m['sig'])
    if static_at == len(methods):
        lines.append('        fn version() -> u32 where Self: Sized { 1 }')
    lines.append('    }')
    for h in helper_fns:
        lines.append('    ' + h)
    lines.append('}')
    desc = dict(name=name, mod=t['mod'], api=t['api'], trait_generic=t['trait_generic'], methods=methods, any_unmock=any_unmock, static_at=static_at)
    return '\n'.join(lines), desc


SCOPED = '''pub mod scoped {
    use unimock::*;
    pub fn real_scoped(_u: &Unimock, p0: i32) -> i32 { unimplemented!() }
    pub fn scope() -> Unimock {
        #[unimock(api=ScopedMock, unmock_with=[real_scoped])]
        trait Scoped { fn m0(&self, p0: i32) -> i32; }
        fn real_scoped(_u: &(impl Scoped + ?Sized), p0: i32) -> i32 { unimplemented!() }
        Unimock::new(ScopedMock::m0.each_call(matching!(_)).applies_unmocked())
    }
}'''


def main():
    out, repo, tier, seed = sys.argv[1], sys.argv[2], sys.argv[3], int(sys.argv[4])
    os.makedirs(os.path.join(out, 'src'), exist_ok=True)
    with open(os.path.join(out, 'Cargo.toml'), 'w') as f:
        f.write('[package]\nname = "xpand_harness"\nversion = "0.0.0"\nedition = "2021"\n\n[workspace]\n\n[dependencies]\nunimock = { path = "%s" }\n' % repo)
    shutil.copy(os.path.join(repo, 'Cargo.lock'), os.path.join(out, 'Cargo.lock'))
    traits = gen_traits(tier, seed)
    src = ['#![allow(unused, non_snake_case, non_camel_case_types, clippy::all)]']
    descs = []
    for t in traits:
        txt, d = render_trait(t)
        src.append(txt)
        descs.append(d)
    # a trait declared inside a function body, its real function beside it, and a module-level function of the same name as a decoy:
    # the path written in unmock_with must resolve where the attribute was written (block scope first)
    src.append(SCOPED)
    import patterns
    ptxt, pdesc = patterns.generate(tier, seed)
    src.append(ptxt)
    full = '\n'.join(src) + '\n'
    with open(os.path.join(out, 'src', 'lib.rs'), 'w') as f:
        f.write(full)
    # the source line of every matching! invocation (the macro must report exactly this line)
    lines = full.split('\n')
    where = {}
    for no, ln in enumerate(lines, 1):
        st = ln.strip()
        if st.startswith('pub fn m') and 'matching!' in st:
            where[st.split('(')[0].replace('pub fn ', '')] = no
    for pd in pdesc:
        pd['line'] = where.get(pd['macro_fn'])
    with open(os.path.join(out, 'sidecar.json'), 'w') as f:
        json.dump({'traits': descs, 'patterns': pdesc, 'tier': tier, 'seed': seed}, f, indent=1)
    print('generated %d traits, %d methods, %d patterns' % (len(descs), sum(len(d['methods']) for d in descs), len(pdesc)))


if __name__ == '__main__':
    sys.path.insert(0, os.path.dirname(os.path.abspath(__file__)))
    main()
