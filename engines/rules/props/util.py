import facts


def configs(tier, quick=('std',), thorough=('std', 'mocks', 'nostd-spin', 'nostd')):
    return list(quick if tier == 'quick' else thorough)


def load(chk, config):
    F = facts.load(config)
    if config not in chk.configs:
        chk.configs.append(config)
    return F
